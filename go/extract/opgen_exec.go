package main

// opgen_exec.go — symbolic execution of the subscribe function and of the three observer
// callbacks of a template operator (see opgen.go). A callback body is straight-line code with
// if/else, tagless switch, return, assignments, `++`, calls of user callbacks and
// `destination.XWithContext(c, e)`; executing it over the symbolic state yields a decision tree
// whose leaves are (new state, ordered emissions).

import (
	"go/ast"
	"go/token"
	"strconv"
)

const (
	rolePlain = iota
	roleTuple
	roleFlag
)

type localInfo struct {
	comp int
	role int
}

type translator struct {
	oc                               *opCtx
	m                                *machine
	sourceName, subCtxName, destName string
	locals                           map[string]localInfo
	cbCtx                            expr              // the current callback's own context parameter
	upCtxExpr                        ast.Expr          // upstream subscription context when it is not `subscriberCtx`
	allowedAddr                      map[ast.Node]bool // `&x` as the first argument of a sync/atomic call
	stateName                        string
}

// symbolic value of a flag-guarded tuple
type optSt struct {
	tup       int // 0 = as in the incoming state (unknown), 1 = zero value, 2 = pair (a, b)
	a, b      expr
	flagKnown bool
	flagVal   bool
}

type sstate struct {
	cur    []expr // per component; nil = unchanged
	opt    []optSt
	scopes []map[string]val
	emits  []seg
}

func (s *sstate) clone() *sstate {
	n := &sstate{cur: append([]expr(nil), s.cur...), opt: append([]optSt(nil), s.opt...), emits: append([]seg(nil), s.emits...)}
	for _, sc := range s.scopes {
		c := map[string]val{}
		for k, v := range sc {
			c[k] = v
		}
		n.scopes = append(n.scopes, c)
	}
	return n
}
func (s *sstate) push() *sstate {
	n := s.clone()
	n.scopes = append(n.scopes, map[string]val{})
	return n
}
func (s *sstate) pop() *sstate {
	n := s.clone()
	n.scopes = n.scopes[:len(n.scopes)-1]
	return n
}
func (s *sstate) lookup(name string) (val, bool) {
	for i := len(s.scopes) - 1; i >= 0; i-- {
		if v, ok := s.scopes[i][name]; ok {
			return v, true
		}
	}
	return val{}, false
}

// ---------------------------------------------------------------- the subscribe function

func (tr *translator) translateSubscribe(fn *ast.FuncLit) {
	m := tr.m
	tr.locals = map[string]localInfo{}
	body := fn.Body.List
	var pre []ast.Stmt
	i := 0
	var observer ast.Expr
	subVar := ""
	for ; i < len(body); i++ {
		if name, obs, ok := tr.isSubscribe(body[i]); ok {
			subVar, observer = name, obs
			break
		}
		if tr.declareLocal(body[i]) {
			if len(pre) > 0 {
				skip("local declaration after a subscribe-time statement")
			}
			continue
		}
		pre = append(pre, body[i])
	}
	if observer == nil {
		skip("no `sub := %s.SubscribeWithContext(%s, …)` in the subscribe function", tr.sourceName, tr.subCtxName)
	}
	if i+2 != len(body) {
		skip("subscribe function does not end in `sub := …; return …`")
	}
	var teardown *ast.FuncLit
	tr.checkTeardown(body[i+1], subVar, &teardown)
	tr.pairTupleWithFlag()
	tr.allowedAddr = map[ast.Node]bool{}
	tr.checkCounterWrites(fn)

	switch len(m.comps) {
	case 0:
		tr.stateName = "s"
	case 1:
		tr.stateName = leanName(m.comps[0].name)
	default:
		tr.stateName = "st"
	}
	m.stateName = tr.stateName
	for _, p := range m.params {
		if leanName(p.name) == tr.stateName {
			skip("name clash between the state binder and parameter %s", p.name)
		}
	}
	if teardown != nil {
		tr.checkTeardownBody(teardown, subVar)
	}

	if tr.upCtxExpr != nil {
		st := tr.initial()
		st.scopes = append(st.scopes, map[string]val{tr.subCtxName: {atom("subscriberCtx"), tCtx}})
		saved := tr.locals
		tr.locals = map[string]localInfo{} // the expression may not read the state
		v := tr.eval(tr.upCtxExpr, st)
		tr.locals = saved
		if v.t.k != "Ctx" {
			skip("upstream is subscribed with a non-context: %s", src(tr.upCtxExpr))
		}
		m.upCtx = pp(v.e, 0)
	}

	// subscribe-time statements (`StartWith`): run with ctx := subscriberCtx
	if len(pre) > 0 {
		st := tr.initial()
		st.scopes = append(st.scopes, map[string]val{tr.subCtxName: {atom(leanName(tr.subCtxName)), tCtx}})
		tr.cbCtx = atom(leanName(tr.subCtxName))
		t := tr.block(pre, st, tr.leaf)
		if !isIdleLeaf(t) {
			m.onSubscribe = tr.stateName + " " + leanName(tr.subCtxName) + " :=\n    " + ppTree(t, "    ", tr.stateName, true)
		}
	}

	if id, ok := observer.(*ast.Ident); ok {
		if id.Name != tr.destName {
			skip("observer handed upstream is neither NewObserverWithContext(…) nor `%s`", tr.destName)
		}
		m.notes = append(m.notes, "hands `"+tr.destName+"` itself upstream")
		m.onNext = tr.stateName + " ctx value := (" + tr.stateName + ", [.next ctx value])"
		m.onError = ":= fwdE"
		m.onComplete = ":= fwdC"
		tr.checkBinderClash("ctx", "value")
		return
	}
	call, ok := observer.(*ast.CallExpr)
	if !ok || calleeName(call) != "NewObserverWithContext" || len(call.Args) != 3 {
		skip("observer handed upstream is not NewObserverWithContext(next, error, complete): %s", src(observer))
	}
	m.onNext = tr.callback("next", call.Args[0])
	m.onError = tr.callback("error", call.Args[1])
	m.onComplete = tr.callback("complete", call.Args[2])
}

func isIdleLeaf(t tree) bool {
	l, ok := t.(tLeaf)
	return ok && l.state == nil && len(l.emits) == 0
}

func (tr *translator) checkBinderClash(names ...string) {
	for _, n := range names {
		if n == "_" {
			continue
		}
		if n == tr.stateName {
			skip("name clash between the state binder and callback parameter %s", n)
		}
	}
}

// `sub := source.SubscribeWithContext(subscriberCtx, X)`
func (tr *translator) isSubscribe(s ast.Stmt) (string, ast.Expr, bool) {
	as, ok := s.(*ast.AssignStmt)
	if !ok || as.Tok != token.DEFINE || len(as.Lhs) != 1 || len(as.Rhs) != 1 {
		return "", nil, false
	}
	c, ok := as.Rhs[0].(*ast.CallExpr)
	if !ok {
		return "", nil, false
	}
	sel, ok := c.Fun.(*ast.SelectorExpr)
	if !ok || sel.Sel.Name != "SubscribeWithContext" {
		return "", nil, false
	}
	recv, ok := sel.X.(*ast.Ident)
	if !ok || recv.Name != tr.sourceName {
		skip("upstream subscription is not on `%s`: %s", tr.sourceName, src(sel.X))
	}
	if len(c.Args) != 2 {
		skip("SubscribeWithContext with %d arguments", len(c.Args))
	}
	if id, ok := c.Args[0].(*ast.Ident); !ok || id.Name != tr.subCtxName {
		tr.upCtxExpr = c.Args[0]
	}
	return as.Lhs[0].(*ast.Ident).Name, c.Args[1], true
}

func (tr *translator) checkTeardown(s ast.Stmt, subVar string, td **ast.FuncLit) {
	r, ok := s.(*ast.ReturnStmt)
	if !ok || len(r.Results) != 1 {
		skip("subscribe function does not end in `return %s.Unsubscribe`", subVar)
	}
	if sel, ok := r.Results[0].(*ast.SelectorExpr); ok {
		if id, ok := sel.X.(*ast.Ident); ok && id.Name == subVar && sel.Sel.Name == "Unsubscribe" {
			return
		}
	}
	if fl, ok := r.Results[0].(*ast.FuncLit); ok {
		*td = fl
		return
	}
	skip("teardown is %s, not `%s.Unsubscribe`", src(r.Results[0]), subVar)
}

// `func() { sub.Unsubscribe(); { local = <empty literal> | userCallback() } }`: the machine is never
// stepped after the teardown, so resets of the state and user side effects there are not modelled
func (tr *translator) checkTeardownBody(fl *ast.FuncLit, subVar string) {
	b := fl.Body.List
	okFirst := false
	if len(b) > 0 {
		if es, ok := b[0].(*ast.ExprStmt); ok {
			if c, ok := es.X.(*ast.CallExpr); ok && len(c.Args) == 0 {
				if sel, ok := c.Fun.(*ast.SelectorExpr); ok && sel.Sel.Name == "Unsubscribe" {
					if id, ok := sel.X.(*ast.Ident); ok && id.Name == subVar {
						okFirst = true
					}
				}
			}
		}
	}
	if !okFirst {
		skip("teardown function does not start with `%s.Unsubscribe()`", subVar)
	}
	for _, s := range b[1:] {
		switch x := s.(type) {
		case *ast.AssignStmt:
			if x.Tok == token.ASSIGN && len(x.Lhs) == 1 && len(x.Rhs) == 1 {
				if id, ok := x.Lhs[0].(*ast.Ident); ok {
					if _, isLocal := tr.locals[id.Name]; isLocal {
						if cl, ok := x.Rhs[0].(*ast.CompositeLit); ok && len(cl.Elts) == 0 {
							continue
						}
					}
				}
			}
		case *ast.ExprStmt:
			if c, ok := x.X.(*ast.CallExpr); ok {
				if id, ok := c.Fun.(*ast.Ident); ok {
					if p := tr.param(id.Name); p != nil && p.fn != nil && len(p.fn.results) == 0 && len(c.Args) == 0 {
						continue
					}
				}
			}
		}
		skip("teardown statement outside the fragment: %s", src(s))
	}
	tr.m.notes = append(tr.m.notes, "the teardown also resets locals / calls a user callback (not modelled: the machine is not stepped after teardown)")
}

func (tr *translator) param(name string) *opParam {
	for _, p := range tr.m.params {
		if p.name == name {
			return p
		}
	}
	return nil
}

// declareLocal: `x := init` / `var x T` with a recognised initial value → one state component
func (tr *translator) declareLocal(s ast.Stmt) bool {
	add := func(name string, t *ltype, init expr) {
		if _, dup := tr.locals[name]; dup {
			skip("local %s declared twice", name)
		}
		tr.locals[name] = localInfo{comp: len(tr.m.comps), role: rolePlain}
		tr.m.comps = append(tr.m.comps, &comp{name: name, t: t, init: init})
	}
	switch x := s.(type) {
	case *ast.DeclStmt:
		gd, ok := x.Decl.(*ast.GenDecl)
		if !ok || gd.Tok != token.VAR || len(gd.Specs) != 1 {
			skip("declaration outside the fragment: %s", src(s))
		}
		vs := gd.Specs[0].(*ast.ValueSpec)
		if len(vs.Names) != 1 || len(vs.Values) != 0 || vs.Type == nil {
			skip("declaration outside the fragment: %s", src(s))
		}
		name := vs.Names[0].Name
		switch tn := typeName(vs.Type); {
		case tn == "int64" || tn == "int":
			add(name, tNat, atom("0"))
		case tn == "bool":
			add(name, tBool, atom("false"))
		case tn == "context.Context":
			add(name, tCtx, atom("Ctx.nil"))
		default:
			t := tr.oc.valueType(vs.Type)
			switch {
			case t.k == "Int":
				add(name, tInt, atom("0"))
			case t.k == "Prod" && t.a.k == "Ctx":
				// zero-valued (ctx, value) tuple: only as a flag-guarded tuple (paired below)
				add(name, t, nil)
			case t.k == "List" || t.k == "Set":
				add(name, t, atom("[]"))
			default:
				add(name, t, tr.zero(t, s))
			}
		}
		return true
	case *ast.AssignStmt:
		if x.Tok != token.DEFINE || len(x.Lhs) != 1 || len(x.Rhs) != 1 {
			return false
		}
		name := x.Lhs[0].(*ast.Ident).Name
		switch r := x.Rhs[0].(type) {
		case *ast.BasicLit:
			if r.Kind == token.INT && r.Value == "0" {
				add(name, tNat, atom("0"))
				return true
			}
		case *ast.Ident:
			if r.Name == "true" || r.Name == "false" {
				add(name, tBool, atom(r.Name))
				return true
			}
			if p := tr.param(r.Name); p != nil && p.fn == nil {
				add(name, p.t, atom(leanName(p.name)))
				return true
			}
		case *ast.CallExpr:
			if id, ok := r.Fun.(*ast.Ident); ok && len(r.Args) >= 1 {
				if (id.Name == "int64" || id.Name == "int" || id.Name == "uint64" || id.Name == "uint32" || id.Name == "int32") && len(r.Args) == 1 {
					if l, ok := r.Args[0].(*ast.BasicLit); ok && l.Value == "0" {
						add(name, tNat, atom("0"))
						return true
					}
				}
				if id.Name == "float64" && len(r.Args) == 1 {
					if l, ok := r.Args[0].(*ast.BasicLit); ok && l.Kind == token.INT {
						add(name, tVar("φ"), eApp{tr.extern("float64_ofInt", []*ltype{tInt}, tVar("φ")), []expr{atom(l.Value)}})
						return true
					}
				}
				if id.Name == "make" && len(r.Args) == 2 {
					// make([]X, n): n zero values
					t := tr.oc.valueType(r.Args[0])
					if nid, ok := r.Args[1].(*ast.Ident); ok && t.k == "List" {
						if p := tr.param(nid.Name); p != nil && p.fn == nil && p.t.k == "Nat" {
							add(name, t, eApp{atom("List.replicate"), []expr{atom(leanName(p.name)), tr.zero(t.a, s)}})
							return true
						}
					}
				}
				if id.Name == "make" && len(r.Args) >= 2 {
					if l, ok := r.Args[1].(*ast.BasicLit); ok && l.Value == "0" {
						t := tr.oc.valueType(r.Args[0])
						if t.k == "List" {
							add(name, t, atom("[]"))
							return true
						}
					}
				}
			}
		case *ast.CompositeLit:
			if len(r.Elts) == 0 && r.Type != nil {
				t := tr.oc.valueType(r.Type)
				if t.k == "List" || t.k == "Set" || t.k == "Map" {
					if t.k == "Map" {
						tr.oc.decEqOf[t.a.name] = true
					}
					add(name, t, atom("[]"))
					return true
				}
			}
		}
		// a `:=` that is not a recognised declaration and not the subscription
		if _, _, isSub := tr.isSubscribe(s); !isSub {
			skip("local declaration outside the fragment: %s", src(s))
		}
	}
	return false
}

// A zero-valued `lo.Tuple2[context.Context, T]` local is only translated together with the single
// bool local of the operator, as `Option (Ctx × T)`: none ⇔ the flag still has its initial value.
// That the flag really guards the tuple is checked at every leaf of every callback (`leaf`).
func (tr *translator) pairTupleWithFlag() {
	m := tr.m
	tup, flag := -1, -1
	nb := 0
	for i, c := range m.comps {
		if c.init == nil {
			if tup >= 0 {
				skip("two zero-valued tuple locals")
			}
			tup = i
		}
		if c.t.k == "Bool" {
			nb++
			flag = i
		}
	}
	if tup < 0 {
		return
	}
	if nb != 1 {
		// no single flag to pair it with: the tuple starts as its Go zero value
		m.comps[tup].init = tr.zero(m.comps[tup].t, nil)
		return
	}
	tc, fc := m.comps[tup], m.comps[flag]
	tc.opt, tc.flagName, tc.flagInit = true, fc.name, isLit(fc.init, "true")
	tc.t = tOption(tc.t)
	tc.init = atom("none")
	// remove the flag component; renumber
	m.comps = append(m.comps[:flag], m.comps[flag+1:]...)
	tr.locals = map[string]localInfo{}
	for i, c := range m.comps {
		if c.opt {
			tr.locals[c.name] = localInfo{i, roleTuple}
			tr.locals[c.flagName] = localInfo{i, roleFlag}
		} else {
			tr.locals[c.name] = localInfo{i, rolePlain}
		}
	}
}

// integer locals are natural-number counters: initial value 0 and every write is `x++`
func (tr *translator) checkCounterWrites(fn *ast.FuncLit) {
	ast.Inspect(fn, func(n ast.Node) bool {
		switch x := n.(type) {
		case *ast.IncDecStmt:
			if id, ok := x.X.(*ast.Ident); ok {
				if li, ok := tr.locals[id.Name]; ok && x.Tok == token.DEC && tr.m.comps[li.comp].t.k == "Nat" {
					skip("counter %s is decremented", id.Name)
				}
			}
		case *ast.AssignStmt:
			// integer locals are `Nat`: an assigned value must itself be a `Nat` expression (checked in
			// `assign`); subtraction is not in the fragment
			if x.Tok == token.SUB_ASSIGN {
				skip("`-=` outside the fragment: %s", src(x))
			}
		case *ast.CallExpr:
			// sync/atomic on a local: `atomic.AddUint64(&x, n)`, `atomic.LoadUint64(&x)`, `atomic.StoreUint64(&x, v)`
			if isAtomicCall(x) != "" && len(x.Args) >= 1 {
				if u, ok := x.Args[0].(*ast.UnaryExpr); ok && u.Op == token.AND {
					if _, ok := u.X.(*ast.Ident); ok {
						tr.allowedAddr[u] = true
					}
				}
			}
		case *ast.UnaryExpr:
			if x.Op == token.AND && !tr.allowedAddr[x] {
				skip("address taken: %s", src(x))
			}
		}
		return true
	})
}

// "Add" | "Load" | "Store" for atomic.{Add,Load,Store}{Int32,Int64,Uint32,Uint64}
func isAtomicCall(c *ast.CallExpr) string {
	sel, ok := c.Fun.(*ast.SelectorExpr)
	if !ok {
		return ""
	}
	id, ok := sel.X.(*ast.Ident)
	if !ok || id.Name != "atomic" {
		return ""
	}
	for _, op := range []string{"Add", "Load", "Store"} {
		for _, ty := range []string{"Int32", "Int64", "Uint32", "Uint64"} {
			if sel.Sel.Name == op+ty {
				return op
			}
		}
	}
	return ""
}

// zero: the Go zero value of a type. For a type parameter it is `default` under `[Inhabited α]`:
// the model is parametric in which element that is.
func (tr *translator) zero(t *ltype, where ast.Node) expr {
	switch t.k {
	case "Ctx":
		return atom("Ctx.nil")
	case "Int", "Nat":
		return atom("0")
	case "Bool":
		return atom("false")
	case "List", "Set":
		return atom("[]")
	case "var":
		if t.name == "α" || t.name == "β" || t.name == "κ" {
			if tr.m.inhabited == nil {
				tr.m.inhabited = map[string]bool{}
			}
			tr.m.inhabited[t.name] = true
			return atom("default")
		}
	case "Prod":
		return eTuple{[]expr{tr.zero(t.a, where), tr.zero(t.b, where)}}
	}
	if where != nil {
		skip("zero value of type %s is not in the fragment: %s", t.lean(false), src(where))
	}
	skip("zero value of type %s is not in the fragment", t.lean(false))
	return nil
}

// extern: an uninterpreted library function / constant (math.Round, context.WithTimeout, float
// arithmetic, …) becomes an extra parameter of the Lean definition
func (tr *translator) extern(name string, params []*ltype, result *ltype) expr {
	for _, p := range tr.m.externs {
		if p.name == name {
			return atom(name)
		}
	}
	for _, p := range tr.m.params {
		if leanName(p.name) == name {
			skip("name clash between parameter %s and the uninterpreted function %s", p.name, name)
		}
	}
	if len(params) == 0 {
		tr.m.externs = append(tr.m.externs, &opParam{name: name, t: result})
	} else {
		tr.m.externs = append(tr.m.externs, &opParam{name: name, fn: &userFn{params: params, results: []*ltype{result}}})
	}
	return atom(name)
}

func (tr *translator) initial() *sstate {
	n := len(tr.m.comps)
	return &sstate{cur: make([]expr, n), opt: make([]optSt, n)}
}

// projection of component i out of the state binder
func (tr *translator) stProj(i int) expr {
	n := len(tr.m.comps)
	if n == 1 {
		return atom(tr.stateName)
	}
	return eProj{atom(tr.stateName), projPath(i, n)}
}

// ---------------------------------------------------------------- callbacks

func (tr *translator) callback(kind string, e ast.Expr) string {
	sn := tr.stateName
	if sel, ok := e.(*ast.SelectorExpr); ok {
		id, ok := sel.X.(*ast.Ident)
		want := map[string]string{"next": "NextWithContext", "error": "ErrorWithContext", "complete": "CompleteWithContext"}[kind]
		if !ok || id.Name != tr.destName || sel.Sel.Name != want {
			skip("%s callback is %s, not a function literal or %s.%s", kind, src(e), tr.destName, want)
		}
		switch kind {
		case "next":
			tr.checkBinderClash("ctx", "value")
			return sn + " ctx value := (" + sn + ", [.next ctx value])"
		case "error":
			return ":= fwdE"
		default:
			return ":= fwdC"
		}
	}
	fl, ok := e.(*ast.FuncLit)
	if !ok {
		skip("%s callback is %s, not a function literal or a method value of %s", kind, src(e), tr.destName)
	}
	var names []string
	var types []ast.Expr
	for _, f := range fl.Type.Params.List {
		if len(f.Names) == 0 {
			skip("%s callback has unnamed parameters", kind)
		}
		for _, n := range f.Names {
			names = append(names, n.Name)
			types = append(types, f.Type)
		}
	}
	want := map[string]int{"next": 2, "error": 2, "complete": 1}[kind]
	if len(names) != want || typeName(types[0]) != "context.Context" {
		skip("%s callback has an unexpected signature", kind)
	}
	st := tr.initial()
	scope := map[string]val{}
	var binders []string
	bind := func(name string, t *ltype) {
		if name == "_" {
			binders = append(binders, "_")
			return
		}
		binders = append(binders, leanName(name))
		scope[name] = val{atom(leanName(name)), t}
	}
	bind(names[0], tCtx)
	tr.cbCtx = nil
	if names[0] != "_" {
		tr.cbCtx = atom(leanName(names[0]))
	}
	switch kind {
	case "next":
		if !sameType(tr.oc.valueType(types[1]), tr.m.sT) {
			skip("next callback's value type differs from the source element type")
		}
		bind(names[1], tr.m.sT)
	case "error":
		if typeName(types[1]) != "error" {
			skip("error callback's second parameter is not an error")
		}
		bind(names[1], tErr)
	}
	tr.checkBinderClash(binders...)
	for _, b := range binders {
		if b != "_" && tr.param(b) != nil && tr.param(b).name == b {
			// a callback parameter shadowing an operator parameter: legal Go, and the Lean binder shadows likewise
			_ = b
		}
	}
	st.scopes = append(st.scopes, scope)
	t := tr.block(fl.Body.List, st, tr.leaf)
	head := sn
	for _, b := range binders {
		head += " " + b
	}
	return head + " :=\n    " + ppTree(t, "    ", sn, true)
}

// ---------------------------------------------------------------- leaves

func (tr *translator) leaf(st *sstate) tree {
	m := tr.m
	changed := false
	out := make([]expr, len(m.comps))
	for i, c := range m.comps {
		if c.opt {
			o := st.opt[i]
			switch {
			case o.tup == 0 && !o.flagKnown:
				out[i] = tr.stProj(i)
			case o.flagKnown && o.flagVal == c.flagInit && o.tup == 1:
				out[i] = atom("none")
				changed = true
			case o.flagKnown && o.flagVal != c.flagInit && o.tup == 2:
				out[i] = eApp{atom("some"), []expr{eTuple{[]expr{o.a, o.b}}}}
				changed = true
			default:
				skip("flag `%s` does not guard tuple `%s` on every path (one is written without the other)", c.flagName, c.name)
			}
			continue
		}
		if st.cur[i] != nil {
			out[i] = st.cur[i]
			changed = true
		} else {
			out[i] = tr.stProj(i)
		}
	}
	l := tLeaf{emits: st.emits}
	if changed {
		if len(out) == 1 {
			l.state = out[0]
		} else {
			l.state = eTuple{out}
		}
	}
	return l
}

// ---------------------------------------------------------------- statements

func (tr *translator) block(stmts []ast.Stmt, st *sstate, k func(*sstate) tree) tree {
	if len(stmts) == 0 {
		return k(st)
	}
	return tr.stmt(stmts[0], st, func(s2 *sstate) tree { return tr.block(stmts[1:], s2, k) })
}

// the expressions a statement evaluates before any branching inside it
func immediateExprs(s ast.Stmt) []ast.Node {
	switch x := s.(type) {
	case *ast.IfStmt:
		var out []ast.Node
		if x.Init != nil {
			out = append(out, immediateExprs(x.Init)...)
		}
		return append(out, x.Cond)
	case *ast.SwitchStmt:
		var out []ast.Node
		for _, c := range x.Body.List {
			for _, e := range c.(*ast.CaseClause).List {
				out = append(out, e)
			}
		}
		return out
	case *ast.AssignStmt:
		var out []ast.Node
		for _, r := range x.Rhs {
			out = append(out, r)
		}
		for _, l := range x.Lhs {
			if ix, ok := l.(*ast.IndexExpr); ok {
				out = append(out, ix.Index)
			}
		}
		return out
	case *ast.ExprStmt:
		return []ast.Node{x.X}
	case *ast.RangeStmt:
		return []ast.Node{x.X, x.Body}
	case *ast.ForStmt:
		return []ast.Node{x}
	}
	return nil
}

// needSplit: does the statement read a flag-guarded tuple (or its flag) whose value is still the
// unknown incoming one? Then the incoming Option has to be matched first.
func (tr *translator) needSplit(s ast.Stmt, st *sstate) int {
	found := -1
	for _, n := range immediateExprs(s) {
		ast.Inspect(n, func(n ast.Node) bool {
			id, ok := n.(*ast.Ident)
			if !ok || found >= 0 {
				return true
			}
			if _, shadowed := st.lookup(id.Name); shadowed {
				return true
			}
			if li, ok := tr.locals[id.Name]; ok && li.role != rolePlain {
				o := st.opt[li.comp]
				if (li.role == roleFlag && !o.flagKnown) || (li.role == roleTuple && o.tup == 0) {
					found = li.comp
				}
			}
			return true
		})
	}
	return found
}

func (tr *translator) stmt(s ast.Stmt, st *sstate, k func(*sstate) tree) tree {
	if c := tr.needSplit(s, st); c >= 0 {
		cp := tr.m.comps[c]
		o := st.opt[c]
		if o.tup != 0 || o.flagKnown {
			skip("flag `%s` and tuple `%s` are not written together", cp.flagName, cp.name)
		}
		a, b := leanName(cp.name)+"_A", leanName(cp.name)+"_B"
		some, none := st.clone(), st.clone()
		some.opt[c] = optSt{tup: 2, a: atom(a), b: atom(b), flagKnown: true, flagVal: !cp.flagInit}
		none.opt[c] = optSt{tup: 1, flagKnown: true, flagVal: cp.flagInit}
		return tMatch{scrut: tr.stProj(c), pat: "(" + a + ", " + b + ")", some: tr.stmt(s, some, k), none: tr.stmt(s, none, k)}
	}
	switch x := s.(type) {
	case *ast.EmptyStmt:
		return k(st)
	case *ast.ReturnStmt:
		if len(x.Results) != 0 {
			skip("return with a value inside a callback")
		}
		return tr.leaf(st)
	case *ast.BlockStmt:
		return tr.block(x.List, st.push(), func(s2 *sstate) tree { return k(s2.pop()) })
	case *ast.IncDecStmt:
		id, ok := x.X.(*ast.Ident)
		if !ok || x.Tok != token.INC {
			skip("statement outside the fragment: %s", src(s))
		}
		v := tr.eval(id, st)
		if v.t.k != "Nat" {
			skip("`++` on a non-counter: %s", src(s))
		}
		n := st.clone()
		tr.assign(n, id.Name, val{eBin{"+", v.e, atom("1")}, tNat}, false)
		return k(n)
	case *ast.AssignStmt:
		return k(tr.assignStmt(x, st))
	case *ast.ExprStmt:
		return k(tr.exprStmt(x, st))
	case *ast.RangeStmt:
		return k(tr.rangeStmt(x, st))
	case *ast.ForStmt:
		return k(tr.forStmt(x, st))
	case *ast.IfStmt:
		return tr.ifStmt(x, st, k)
	case *ast.SwitchStmt:
		if x.Init != nil || x.Tag != nil {
			skip("switch with a tag or an init statement")
		}
		return tr.switchClauses(x.Body.List, st, k)
	}
	skip("statement outside the fragment: %s", src(s))
	return nil
}

func (tr *translator) ifStmt(x *ast.IfStmt, st *sstate, k func(*sstate) tree) tree {
	s1 := st.push()
	// `if v, ok := any(e).(U); ok { … } else { … }`: an uninterpreted partial conversion
	if as, ok := x.Init.(*ast.AssignStmt); ok && len(as.Rhs) == 1 {
		if ta, ok := as.Rhs[0].(*ast.TypeAssertExpr); ok {
			return tr.typeAssertIf(x, as, ta, s1, k)
		}
	}
	if x.Init != nil {
		as, ok := x.Init.(*ast.AssignStmt)
		if !ok {
			skip("if-initialiser outside the fragment: %s", src(x.Init))
		}
		s1 = tr.assignStmt(as, s1)
	}
	thenK := func(s *sstate) tree {
		return tr.block(x.Body.List, s.push(), func(s2 *sstate) tree { return k(s2.pop().pop()) })
	}
	elseK := func(s *sstate) tree {
		switch e := x.Else.(type) {
		case nil:
			return k(s.pop())
		case *ast.BlockStmt:
			return tr.block(e.List, s.push(), func(s2 *sstate) tree { return k(s2.pop().pop()) })
		case *ast.IfStmt:
			return tr.stmt(e, s, func(s2 *sstate) tree { return k(s2.pop()) })
		}
		skip("else branch outside the fragment")
		return nil
	}
	// `x != nil` / `x == nil` on an `error` returned by a user callback: match on the Option
	if be, ok := x.Cond.(*ast.BinaryExpr); ok && (be.Op == token.NEQ || be.Op == token.EQL) {
		if id, ok := be.Y.(*ast.Ident); ok && id.Name == "nil" {
			if xid, ok := be.X.(*ast.Ident); ok {
				v := tr.eval(xid, s1)
				if v.t.k == "Option" && v.t.a.k == "Err" {
					some, none := s1.clone(), s1.clone()
					bn := leanName(xid.Name)
					tr.rebind(some, xid.Name, val{atom(bn), tErr})
					tr.rebind(none, xid.Name, val{atom("none"), tOption(tErr)})
					ts, tn := thenK(some), elseK(none)
					if be.Op == token.EQL {
						ts, tn = elseK(some), thenK(none)
					}
					return tMatch{scrut: v.e, pat: bn, some: ts, none: tn}
				}
			}
			skip("nil comparison outside the fragment: %s", src(x.Cond))
		}
	}
	c := tr.eval(x.Cond, s1)
	if c.t.k != "Bool" && c.t.k != "Prop" {
		skip("condition is not boolean: %s", src(x.Cond))
	}
	return mkIte(c.e, func() tree { return thenK(s1) }, func() tree { return elseK(s1) })
}

func (tr *translator) typeAssertIf(x *ast.IfStmt, as *ast.AssignStmt, ta *ast.TypeAssertExpr, s1 *sstate, k func(*sstate) tree) tree {
	bad := func() { skip("type assertion outside the fragment: %s", src(as)) }
	if as.Tok != token.DEFINE || len(as.Lhs) != 2 || ta.Type == nil {
		bad()
	}
	vn, okn := as.Lhs[0].(*ast.Ident), as.Lhs[1].(*ast.Ident)
	cond, isId := x.Cond.(*ast.Ident)
	conv, isCall := ta.X.(*ast.CallExpr)
	if !isId || cond.Name != okn.Name || okn.Name == "_" || !isCall || src(conv.Fun) != "any" || len(conv.Args) != 1 {
		bad()
	}
	from := tr.eval(conv.Args[0], s1)
	to := tr.oc.valueType(ta.Type)
	if from.t.k != "var" || to.k != "var" {
		bad()
	}
	scrut := eApp{tr.extern("typeAssert", []*ltype{from.t}, tOption(to)), []expr{from.e}}
	some := s1.clone()
	bn := leanName(vn.Name)
	some.scopes[len(some.scopes)-1][vn.Name] = val{atom(bn), to}
	thenT := tr.block(x.Body.List, some.push(), func(s2 *sstate) tree { return k(s2.pop().pop()) })
	var elseT tree
	switch e := x.Else.(type) {
	case nil:
		elseT = k(s1.pop())
	case *ast.BlockStmt:
		elseT = tr.block(e.List, s1.push(), func(s2 *sstate) tree { return k(s2.pop().pop()) })
	default:
		bad()
	}
	return tMatch{scrut: scrut, pat: bn, some: thenT, none: elseT}
}

// mkIte prunes constant conditions and turns `if ¬c then a else b` into `if c then b else a`
func mkIte(c expr, then, els func() tree) tree {
	if isLit(c, "true") {
		return then()
	}
	if isLit(c, "false") {
		return els()
	}
	if n, ok := c.(eNot); ok {
		return mkIte(n.x, els, then)
	}
	return tIte{c, then(), els()}
}

func (tr *translator) switchClauses(cl []ast.Stmt, st *sstate, k func(*sstate) tree) tree {
	if len(cl) == 0 {
		return k(st)
	}
	c := cl[0].(*ast.CaseClause)
	for _, s := range c.Body {
		if b, ok := s.(*ast.BranchStmt); ok {
			skip("%s in a switch", b.Tok)
		}
	}
	body := func(s *sstate) tree {
		return tr.block(c.Body, s.push(), func(s2 *sstate) tree { return k(s2.pop()) })
	}
	if c.List == nil { // default
		if len(cl) != 1 {
			skip("`default` is not the last clause of the switch")
		}
		return body(st)
	}
	if len(c.List) != 1 {
		skip("case with several conditions")
	}
	cv := tr.eval(c.List[0], st)
	if cv.t.k != "Bool" && cv.t.k != "Prop" {
		skip("case condition is not boolean")
	}
	return mkIte(cv.e, func() tree { return body(st) }, func() tree { return tr.switchClauses(cl[1:], st, k) })
}

// rebind replaces the innermost visible binding of a callback-local variable
func (tr *translator) rebind(st *sstate, name string, v val) {
	for i := len(st.scopes) - 1; i >= 0; i-- {
		if _, ok := st.scopes[i][name]; ok {
			st.scopes[i][name] = v
			return
		}
	}
	skip("variable %s is not a callback-local variable", name)
}

// assign: `name = v` (define=false) or one left-hand side of `:=` (define=true). st is mutated.
func (tr *translator) assign(st *sstate, name string, v val, define bool) {
	if name == "_" {
		return
	}
	if define {
		top := st.scopes[len(st.scopes)-1]
		top[name] = v // defines, or assigns a variable of the same scope: the same thing here
		return
	}
	for i := len(st.scopes) - 1; i >= 0; i-- {
		if old, ok := st.scopes[i][name]; ok {
			if !sameType(old.t, v.t) && !(old.t.k == "Bool" && v.t.k == "Prop") {
				skip("assignment changes the type of %s", name)
			}
			if old.t.k == "Bool" {
				v = toBool(v)
			}
			st.scopes[i][name] = val{v.e, old.t}
			return
		}
	}
	li, ok := tr.locals[name]
	if !ok {
		skip("assignment to %s, which is neither a local of the subscription nor of the callback", name)
	}
	c := tr.m.comps[li.comp]
	switch li.role {
	case rolePlain:
		if c.t.k == "Bool" {
			v = toBool(v)
		}
		if !sameType(c.t, v.t) {
			skip("assignment to %s with a value of another type", name)
		}
		st.cur[li.comp] = v.e
	case roleTuple:
		t, ok := v.e.(eTuple)
		if !ok || len(t.xs) != 2 || !sameType(c.t.a, v.t) {
			skip("tuple %s is assigned something other than lo.T2(ctx, value)", name)
		}
		o := st.opt[li.comp]
		o.tup, o.a, o.b = 2, t.xs[0], t.xs[1]
		st.opt[li.comp] = o
	case roleFlag:
		if !isLit(v.e, "true") && !isLit(v.e, "false") {
			skip("flag %s is assigned a non-constant", name)
		}
		o := st.opt[li.comp]
		o.flagKnown, o.flagVal = true, isLit(v.e, "true")
		st.opt[li.comp] = o
	}
}

func projPath(i, n int) string {
	p := ""
	for k := 0; k < i && k < n-1; k++ {
		p += "2."
	}
	if i == n-1 {
		return p[:len(p)-1]
	}
	return p + "1"
}

func (tr *translator) assignStmt(x *ast.AssignStmt, st *sstate) *sstate {
	n := st.clone()
	define := x.Tok == token.DEFINE
	lhsName := func(e ast.Expr) string {
		id, ok := e.(*ast.Ident)
		if !ok {
			skip("assignment target outside the fragment: %s", src(e))
		}
		return id.Name
	}
	switch {
	case x.Tok == token.ADD_ASSIGN && len(x.Lhs) == 1 && len(x.Rhs) == 1:
		name := lhsName(x.Lhs[0])
		l, r := tr.eval(x.Lhs[0], st), tr.eval(x.Rhs[0], st)
		switch {
		case l.t.k == "Int" && sameType(l.t, r.t):
			tr.assign(n, name, val{eBin{"+", l.e, r.e}, tInt}, false)
		case isFloat(l.t) && isFloat(r.t):
			tr.assign(n, name, val{eApp{tr.extern("float64_add", []*ltype{l.t, l.t}, l.t), []expr{l.e, r.e}}, l.t}, false)
		default:
			skip("`+=` outside the fragment (integers and floats only): %s", src(x))
		}
	case x.Tok != token.ASSIGN && x.Tok != token.DEFINE:
		skip("assignment operator outside the fragment: %s", src(x))
	case len(x.Lhs) == 1 && len(x.Rhs) == 1:
		// set insertion `seen[k] = struct{}{}`
		if ix, ok := x.Lhs[0].(*ast.IndexExpr); ok {
			set, key := tr.eval(ix.X, st), tr.eval(ix.Index, st)
			id, isId := ix.X.(*ast.Ident)
			if !isId {
				skip("indexed assignment outside the fragment: %s", src(x))
			}
			switch set.t.k {
			case "Set":
				cl, isCl := x.Rhs[0].(*ast.CompositeLit)
				if !isCl || len(cl.Elts) != 0 || !sameType(set.t.a, key.t) {
					skip("indexed assignment outside the fragment: %s", src(x))
				}
				tr.assign(n, id.Name, val{eBin{"::", key.e, set.e}, set.t}, false)
			case "List": // xs[i] = e (in range: Go panics otherwise; `List.set` is total)
				v := tr.eval(x.Rhs[0], st)
				if key.t.k != "Nat" || !sameType(set.t.a, v.t) {
					skip("indexed assignment outside the fragment: %s", src(x))
				}
				tr.assign(n, id.Name, val{eApp{eField{set.e, "set"}, []expr{key.e, v.e}}, set.t}, false)
			case "Map": // m[k] = v: the model's association list
				v := tr.eval(x.Rhs[0], st)
				if !sameType(set.t.a, key.t) || !sameType(set.t.b, v.t) {
					skip("indexed assignment outside the fragment: %s", src(x))
				}
				tr.assign(n, id.Name, val{eApp{atom("assocSet"), []expr{set.e, key.e, v.e}}, set.t}, false)
			default:
				skip("indexed assignment outside the fragment: %s", src(x))
			}
			return n
		}
		tr.assign(n, lhsName(x.Lhs[0]), tr.eval(x.Rhs[0], st), define)
	case len(x.Rhs) == 1:
		// comma-ok set lookup
		if ix, ok := x.Rhs[0].(*ast.IndexExpr); ok && len(x.Lhs) == 2 {
			set, key := tr.eval(ix.X, st), tr.eval(ix.Index, st)
			if set.t.k != "Set" || lhsName(x.Lhs[0]) != "_" || !sameType(set.t.a, key.t) {
				skip("indexing outside the fragment: %s", src(x))
			}
			tr.assign(n, lhsName(x.Lhs[1]), val{eBin{"∈", key.e, set.e}, tProp}, define)
			return n
		}
		// `child, _ := context.WithTimeout(ctx, d)`: the cancel function must be discarded
		if c, ok := x.Rhs[0].(*ast.CallExpr); ok && len(x.Lhs) == 2 {
			if fn := src(c.Fun); fn == "context.WithTimeout" || fn == "context.WithDeadline" {
				if lhsName(x.Lhs[1]) != "_" || len(c.Args) != 2 {
					skip("the cancel function of %s is kept: %s", fn, src(x))
				}
				cv, dv := tr.eval(c.Args[0], st), tr.eval(c.Args[1], st)
				if cv.t.k != "Ctx" || dv.t.k != "var" {
					skip("call outside the fragment: %s", src(c))
				}
				name := "context_" + fn[len("context."):]
				tr.assign(n, lhsName(x.Lhs[0]), val{eApp{tr.extern(name, []*ltype{tCtx, dv.t}, tCtx), []expr{cv.e, dv.e}}, tCtx}, define)
				return n
			}
		}
		// multi-valued call of a user callback
		v, results := tr.callUser(x.Rhs[0], st)
		if len(results) != len(x.Lhs) {
			skip("assignment count mismatch: %s", src(x))
		}
		for i, l := range x.Lhs {
			tr.assign(n, lhsName(l), val{eProj{v, projPath(i, len(results))}, results[i]}, define)
		}
	case len(x.Lhs) == len(x.Rhs):
		var vs []val
		for _, r := range x.Rhs {
			vs = append(vs, tr.eval(r, st))
		}
		for i, l := range x.Lhs {
			tr.assign(n, lhsName(l), vs[i], define)
		}
	default:
		skip("assignment outside the fragment: %s", src(x))
	}
	return n
}

// callUser: `f(args)` where f is a callback parameter of the operator
func (tr *translator) callUser(e ast.Expr, st *sstate) (expr, []*ltype) {
	c, ok := e.(*ast.CallExpr)
	if !ok {
		skip("expected a call of a user callback: %s", src(e))
	}
	id, ok := c.Fun.(*ast.Ident)
	if !ok {
		skip("call outside the fragment: %s", src(e))
	}
	if _, shadowed := st.lookup(id.Name); shadowed {
		skip("call of a callback-local function value: %s", src(e))
	}
	p := tr.param(id.Name)
	if p == nil || p.fn == nil {
		skip("call of %s, which is not a callback parameter of the operator", id.Name)
	}
	if len(c.Args) != len(p.fn.params) || c.Ellipsis != token.NoPos {
		skip("call of %s with %d arguments", id.Name, len(c.Args))
	}
	var args []expr
	for i, a := range c.Args {
		v := tr.eval(a, st)
		if p.fn.params[i].k == "Bool" {
			v = toBool(v)
		}
		if !sameType(p.fn.params[i], v.t) {
			skip("argument %d of %s has type %s, expected %s", i+1, id.Name, v.t.lean(false), p.fn.params[i].lean(false))
		}
		args = append(args, v.e)
	}
	if len(args) == 0 {
		return atom(leanName(p.name)), p.fn.results
	}
	return eApp{atom(leanName(p.name)), args}, p.fn.results
}

func (tr *translator) destCall(c *ast.CallExpr) (string, bool) {
	sel, ok := c.Fun.(*ast.SelectorExpr)
	if !ok {
		return "", false
	}
	id, ok := sel.X.(*ast.Ident)
	if !ok || id.Name != tr.destName {
		return "", false
	}
	switch sel.Sel.Name {
	case "NextWithContext":
		return "next", true
	case "ErrorWithContext":
		return "error", true
	case "CompleteWithContext":
		return "complete", true
	}
	skip("call of %s.%s (only the …WithContext methods are in the fragment)", tr.destName, sel.Sel.Name)
	return "", false
}

// value handed to destination.NextWithContext: must have the destination element type
func (tr *translator) asDest(v val, where ast.Node) expr {
	d := tr.m.dT
	if d.k == "Bool" {
		v = toBool(v)
	}
	if d.k == "Int" && v.t.k == "Nat" {
		return eCast{v.e, "Int"}
	}
	if !sameType(d, v.t) {
		skip("value of type %s emitted where %s is expected: %s", v.t.lean(false), d.lean(false), src(where))
	}
	return v.e
}

func (tr *translator) exprStmt(x *ast.ExprStmt, st *sstate) *sstate {
	c, ok := x.X.(*ast.CallExpr)
	if !ok {
		skip("statement outside the fragment: %s", src(x))
	}
	if st2, ok := tr.emit(c, st); ok {
		return st2
	}
	if op := isAtomicCall(c); op == "Add" || op == "Store" {
		// the callbacks of one subscription are not concurrent with each other: sequential meaning
		u, ok := c.Args[0].(*ast.UnaryExpr)
		if !ok || len(c.Args) != 2 {
			skip("call outside the fragment: %s", src(c))
		}
		id := u.X.(*ast.Ident)
		cur, v := tr.eval(id, st), tr.eval(c.Args[1], st)
		if cur.t.k != "Nat" || !sameType(cur.t, v.t) {
			skip("atomic operation on something that is not a counter: %s", src(c))
		}
		n := st.clone()
		if op == "Add" {
			tr.assign(n, id.Name, val{eBin{"+", cur.e, v.e}, tNat}, false)
		} else {
			tr.assign(n, id.Name, val{v.e, tNat}, false)
		}
		return n
	}
	if src(c.Fun) == "time.Sleep" && len(c.Args) == 1 {
		// a `Machine` has no time: the delay is not modelled
		tr.eval(c.Args[0], st)
		tr.addNote("`time.Sleep` is not modelled")
		return st
	}
	// a user callback without results, called for its side effects: nothing in the model
	_, results := tr.callUser(c, st)
	if len(results) != 0 {
		skip("result of a user callback discarded: %s", src(x))
	}
	return st
}

func (tr *translator) addNote(n string) {
	for _, x := range tr.m.notes {
		if x == n {
			return
		}
	}
	tr.m.notes = append(tr.m.notes, n)
}

func isFloat(t *ltype) bool { return t.k == "var" && t.name == "φ" }

func (tr *translator) emit(c *ast.CallExpr, st *sstate) (*sstate, bool) {
	kind, ok := tr.destCall(c)
	if !ok {
		return nil, false
	}
	n := st.clone()
	want := map[string]int{"next": 2, "error": 2, "complete": 1}[kind]
	if len(c.Args) != want {
		skip("%s with %d arguments", src(c.Fun), len(c.Args))
	}
	cv := tr.eval(c.Args[0], st)
	if cv.t.k != "Ctx" {
		skip("first argument of %s is not a context", src(c.Fun))
	}
	sg := seg{kind: kind, ctx: cv.e}
	switch kind {
	case "next":
		sg.arg = tr.asDest(tr.eval(c.Args[1], st), c)
	case "error":
		ev := tr.eval(c.Args[1], st)
		if ev.t.k != "Err" {
			skip("second argument of %s is not a (non-nil) error: %s", src(c.Fun), src(c.Args[1]))
		}
		sg.arg = ev.e
	}
	n.emits = append(n.emits, sg)
	return n, true
}

// `for i := range xs { destination.NextWithContext(c, xs[i]) }` and
// `for _, x := range xs { destination.NextWithContext(c, x) }`  ↦  xs.map (Notif.next c)
func (tr *translator) rangeStmt(x *ast.RangeStmt, st *sstate) *sstate {
	bad := func() { skip("loop outside the fragment: %s", src(x)) }
	if x.Tok != token.DEFINE || len(x.Body.List) != 1 {
		bad()
	}
	es, ok := x.Body.List[0].(*ast.ExprStmt)
	if !ok {
		bad()
	}
	c, ok := es.X.(*ast.CallExpr)
	if !ok {
		bad()
	}
	kind, ok := tr.destCall(c)
	if !ok || kind != "next" || len(c.Args) != 2 {
		bad()
	}
	xs := tr.eval(x.X, st)
	if xs.t.k != "List" || !sameType(xs.t.a, tr.m.dT) {
		bad()
	}
	keyName, valName := "", ""
	if id, ok := x.Key.(*ast.Ident); ok {
		keyName = id.Name
	}
	if x.Value != nil {
		if id, ok := x.Value.(*ast.Ident); ok {
			valName = id.Name
		}
	}
	loopVar := ""
	switch a := c.Args[1].(type) {
	case *ast.Ident: // for _, v := range xs { …(c, v) }
		if valName == "" || a.Name != valName || keyName != "_" {
			bad()
		}
		loopVar = valName
	case *ast.IndexExpr: // for i := range xs { …(c, xs[i]) }
		ai, ok1 := a.Index.(*ast.Ident)
		if !ok1 || x.Value != nil || keyName == "" || keyName == "_" || ai.Name != keyName || src(a.X) != src(x.X) {
			bad()
		}
		loopVar = keyName
	default:
		bad()
	}
	// the context must not depend on the loop variable
	found := false
	ast.Inspect(c.Args[0], func(n ast.Node) bool {
		if id, ok := n.(*ast.Ident); ok && id.Name == loopVar {
			found = true
		}
		return true
	})
	if found {
		bad()
	}
	cv := tr.eval(c.Args[0], st)
	if cv.t.k != "Ctx" {
		bad()
	}
	n := st.clone()
	n.emits = append(n.emits, seg{kind: "map", ctx: cv.e, arg: xs.e})
	return n
}

// `for i := 0; i < A [&& i < B]; i++ { destination.NextWithContext(c(i), e(i)) }`
//
//	↦ (List.range (min A B)).map (fun i => Notif.next c(i) e(i))
func (tr *translator) forStmt(x *ast.ForStmt, st *sstate) *sstate {
	bad := func() { skip("loop outside the fragment: %s", src(x)) }
	init, ok := x.Init.(*ast.AssignStmt)
	if !ok || init.Tok != token.DEFINE || len(init.Lhs) != 1 || len(init.Rhs) != 1 || src(init.Rhs[0]) != "0" {
		bad()
	}
	iv := init.Lhs[0].(*ast.Ident).Name
	post, ok := x.Post.(*ast.IncDecStmt)
	if !ok || post.Tok != token.INC || src(post.X) != iv || x.Cond == nil || len(x.Body.List) != 1 {
		bad()
	}
	// bounds: conjunction of `i < e`
	var bounds []ast.Expr
	var conj func(e ast.Expr)
	conj = func(e ast.Expr) {
		be, ok := e.(*ast.BinaryExpr)
		if !ok {
			bad()
		}
		if be.Op == token.LAND {
			conj(be.X)
			conj(be.Y)
			return
		}
		if be.Op != token.LSS || src(be.X) != iv {
			bad()
		}
		bounds = append(bounds, be.Y)
	}
	conj(x.Cond)
	var n expr
	for _, b := range bounds {
		found := false
		ast.Inspect(b, func(nd ast.Node) bool {
			if id, ok := nd.(*ast.Ident); ok && id.Name == iv {
				found = true
			}
			return true
		})
		v := tr.eval(b, st)
		if found || v.t.k != "Nat" {
			bad()
		}
		if n == nil {
			n = v.e
		} else {
			n = eApp{atom("min"), []expr{n, v.e}}
		}
	}
	es, ok := x.Body.List[0].(*ast.ExprStmt)
	if !ok {
		bad()
	}
	c, ok := es.X.(*ast.CallExpr)
	if !ok {
		bad()
	}
	kind, ok := tr.destCall(c)
	if !ok || kind != "next" || len(c.Args) != 2 {
		bad()
	}
	body := st.push()
	body.scopes[len(body.scopes)-1][iv] = val{atom(leanName(iv)), tNat}
	cv := tr.eval(c.Args[0], body)
	if cv.t.k != "Ctx" {
		bad()
	}
	av := tr.asDest(tr.eval(c.Args[1], body), c)
	out := st.clone()
	out.emits = append(out.emits, seg{kind: "range", ctx: cv.e, arg: av, n: n, v: leanName(iv)})
	return out
}

// ---------------------------------------------------------------- expressions

func (tr *translator) eval(e ast.Expr, st *sstate) val {
	switch x := e.(type) {
	case *ast.ParenExpr:
		return tr.eval(x.X, st)
	case *ast.BasicLit:
		if x.Kind == token.INT {
			if _, err := strconv.Atoi(x.Value); err == nil {
				return val{atom(x.Value), tIntLit}
			}
		}
	case *ast.Ident:
		return tr.ident(x.Name, st)
	case *ast.SelectorExpr:
		if x.Sel.Name == "A" || x.Sel.Name == "B" {
			v := tr.eval(x.X, st)
			if v.t.k != "Prod" {
				skip("field %s of a non-tuple", x.Sel.Name)
			}
			i, t := 0, v.t.a
			if x.Sel.Name == "B" {
				i, t = 1, v.t.b
			}
			if tu, ok := v.e.(eTuple); ok && len(tu.xs) == 2 {
				return val{tu.xs[i], t}
			}
			return val{eProj{v.e, strconv.Itoa(i + 1)}, t}
		}
	case *ast.IndexExpr:
		// xs[i] (in range: Go panics otherwise; `getD` is total and the default is the zero value)
		xs, i := tr.eval(x.X, st), tr.eval(x.Index, st)
		if xs.t.k == "List" && (i.t.k == "Nat" || i.t.k == "IntLit") {
			return val{eApp{eField{xs.e, "getD"}, []expr{i.e, tr.zero(xs.t.a, x)}}, xs.t.a}
		}
	case *ast.SliceExpr:
		// xs[a:] ↦ xs.drop a
		if x.Low != nil && x.High == nil && !x.Slice3 {
			xs, a := tr.eval(x.X, st), tr.eval(x.Low, st)
			if xs.t.k == "List" && (a.t.k == "Nat" || a.t.k == "IntLit") {
				return val{eApp{eField{xs.e, "drop"}, []expr{a.e}}, xs.t}
			}
		}
	case *ast.UnaryExpr:
		if x.Op == token.NOT {
			v := tr.eval(x.X, st)
			switch {
			case isLit(v.e, "true"):
				return val{atom("false"), tBool}
			case isLit(v.e, "false"):
				return val{atom("true"), tBool}
			case v.t.k == "Bool":
				return val{eNot{v.e, false}, tBool}
			case v.t.k == "Prop":
				return val{eNot{v.e, true}, tProp}
			}
		}
	case *ast.BinaryExpr:
		return tr.binary(x, st)
	case *ast.CompositeLit:
		if x.Type != nil {
			t := tr.oc.valueType(x.Type)
			if t.k == "List" || t.k == "Set" {
				var xs []expr
				for _, el := range x.Elts {
					v := tr.eval(el, st)
					if !sameType(t.a, v.t) {
						skip("element of another type in %s", src(x))
					}
					xs = append(xs, v.e)
				}
				if t.k == "Set" && len(xs) > 0 {
					skip("non-empty map literal")
				}
				return val{eList{xs}, t}
			}
		}
	case *ast.CallExpr:
		return tr.call(x, st)
	}
	skip("expression outside the fragment: %s", src(e))
	return val{}
}

func (tr *translator) ident(name string, st *sstate) val {
	if v, ok := st.lookup(name); ok {
		if isLit(v.e, "none") && v.t.k == "Option" {
			skip("use of the nil error %s", name)
		}
		return v
	}
	if li, ok := tr.locals[name]; ok {
		c := tr.m.comps[li.comp]
		switch li.role {
		case rolePlain:
			if st.cur[li.comp] != nil {
				return val{st.cur[li.comp], c.t}
			}
			return val{tr.stProj(li.comp), c.t}
		case roleFlag:
			o := st.opt[li.comp]
			if !o.flagKnown {
				skip("internal: flag %s read before the match", name)
			}
			return val{atom(strconv.FormatBool(o.flagVal)), tBool}
		case roleTuple:
			o := st.opt[li.comp]
			pt := c.t.a // Option (Ctx × T) → Ctx × T
			switch o.tup {
			case 2:
				return val{eTuple{[]expr{o.a, o.b}}, pt}
			case 1:
				// the zero value of the tuple: nil context, zero of a numeric type
				if pt.b.k != "Int" {
					skip("zero value of tuple %s is read and its element type is not numeric", name)
				}
				return val{eTuple{[]expr{atom("Ctx.nil"), atom("0")}}, pt}
			}
			skip("internal: tuple %s read before the match", name)
		}
	}
	switch name {
	case "true", "false":
		return val{atom(name), tBool}
	}
	if p := tr.param(name); p != nil {
		if p.fn != nil {
			skip("callback parameter %s used as a value", name)
		}
		if tr.oc.ctxDefault[name] {
			n := leanName(p.name)
			return val{atom("(if " + n + ".isNil then Ctx.bg else " + n + ")"), p.t}
		}
		return val{atom(leanName(p.name)), p.t}
	}
	if n, ok := sentinelNo[name]; ok {
		return val{atom("Err.sentinel " + strconv.Itoa(n)), tErr}
	}
	skip("identifier %s outside the fragment", name)
	return val{}
}

func isNum(t *ltype) bool { return t.k == "Nat" || t.k == "Int" || t.k == "IntLit" }

func (tr *translator) binary(x *ast.BinaryExpr, st *sstate) val {
	l := tr.eval(x.X, st)
	switch x.Op {
	case token.LOR, token.LAND:
		// Go evaluates the right operand only if needed; all operands here are pure
		if l.t.k != "Bool" && l.t.k != "Prop" {
			break
		}
		if x.Op == token.LOR && isLit(l.e, "true") {
			return l
		}
		if x.Op == token.LAND && isLit(l.e, "false") {
			return l
		}
		r := tr.eval(x.Y, st)
		if r.t.k != "Bool" && r.t.k != "Prop" {
			break
		}
		if isLit(l.e, "true") || isLit(l.e, "false") { // neutral element on the left
			return r
		}
		if x.Op == token.LOR && isLit(r.e, "false") || x.Op == token.LAND && isLit(r.e, "true") {
			return l
		}
		op := "||"
		if x.Op == token.LAND {
			op = "&&"
		}
		return val{eBin{op, toBool(l).e, toBool(r).e}, tBool}
	}
	r := tr.eval(x.Y, st)
	ops := map[token.Token]string{token.GEQ: "≥", token.LEQ: "≤", token.LSS: "<", token.GTR: ">", token.EQL: "=", token.NEQ: "≠"}
	if op, ok := ops[x.Op]; ok && isNum(l.t) && isNum(r.t) && sameType(l.t, r.t) {
		return val{eBin{op, l.e, r.e}, tProp}
	}
	if x.Op == token.REM && isNum(l.t) && isNum(r.t) && l.t.k != "Int" && r.t.k != "Int" {
		// `%` on natural numbers (for a zero divisor Go panics; Lean's `x % 0 = x`)
		return val{eBin{"%", l.e, r.e}, tNat}
	}
	if (x.Op == token.ADD || x.Op == token.QUO) && isFloat(l.t) && isFloat(r.t) {
		name := map[token.Token]string{token.ADD: "float64_add", token.QUO: "float64_div"}[x.Op]
		return val{eApp{tr.extern(name, []*ltype{l.t, l.t}, l.t), []expr{l.e, r.e}}, l.t}
	}
	if x.Op == token.ADD && isNum(l.t) && isNum(r.t) && sameType(l.t, r.t) {
		t := l.t
		if t.k == "IntLit" {
			t = r.t
		}
		return val{eBin{"+", l.e, r.e}, t}
	}
	skip("operation outside the fragment: %s", src(x))
	return val{}
}

func (tr *translator) call(c *ast.CallExpr, st *sstate) val {
	name := ""
	switch f := c.Fun.(type) {
	case *ast.Ident:
		name = f.Name
	case *ast.SelectorExpr:
		if id, ok := f.X.(*ast.Ident); ok {
			name = id.Name + "." + f.Sel.Name
		}
	case *ast.IndexExpr:
		if id, ok := f.X.(*ast.Ident); ok {
			name = id.Name
		}
	case *ast.IndexListExpr:
		if id, ok := f.X.(*ast.Ident); ok {
			name = id.Name
		}
	}
	if _, shadowed := st.lookup(name); shadowed {
		skip("call of a callback-local function value: %s", src(c))
	}
	if isAtomicCall(c) == "Load" && len(c.Args) == 1 {
		if u, ok := c.Args[0].(*ast.UnaryExpr); ok {
			v := tr.eval(u.X, st)
			if v.t.k == "Nat" {
				return v
			}
		}
	}
	switch name {
	case "math.Round", "math.Abs", "math.Floor", "math.Ceil", "math.Trunc":
		if len(c.Args) == 1 {
			v := tr.eval(c.Args[0], st)
			if isFloat(v.t) {
				return val{eApp{tr.extern("math_"+name[5:], []*ltype{v.t}, v.t), []expr{v.e}}, v.t}
			}
		}
	case "math.NaN":
		if len(c.Args) == 0 {
			return val{tr.extern("math_NaN", nil, tVar("φ")), tVar("φ")}
		}
	case "float64":
		if len(c.Args) == 1 {
			v := tr.eval(c.Args[0], st)
			switch {
			case isFloat(v.t):
				return v
			case v.t.k == "Int" || v.t.k == "IntLit":
				return val{eApp{tr.extern("float64_ofInt", []*ltype{tInt}, tVar("φ")), []expr{v.e}}, tVar("φ")}
			case v.t.k == "Nat":
				return val{eApp{tr.extern("float64_ofNat", []*ltype{tNat}, tVar("φ")), []expr{v.e}}, tVar("φ")}
			}
		}
	case "context.WithValue":
		if len(c.Args) == 3 {
			cv, k, v := tr.eval(c.Args[0], st), tr.eval(c.Args[1], st), tr.eval(c.Args[2], st)
			if cv.t.k == "Ctx" && k.t.k == "var" && v.t.k == "var" {
				return val{eApp{tr.extern("context_WithValue", []*ltype{tCtx, k.t, v.t}, tCtx), []expr{cv.e, k.e, v.e}}, tCtx}
			}
		}
	case "newCastError":
		if len(c.Args) == 0 {
			return val{tr.extern("newCastError", nil, tErr), tErr}
		}
	case "int64", "int":
		if len(c.Args) == 1 {
			if l, ok := c.Args[0].(*ast.BasicLit); ok && l.Kind == token.INT {
				return tr.eval(l, st)
			}
		}
	case "lo.T2":
		if len(c.Args) == 2 {
			a, b := tr.eval(c.Args[0], st), tr.eval(c.Args[1], st)
			return val{eTuple{[]expr{a.e, b.e}}, tProd(a.t, b.t)}
		}
	case "len":
		if len(c.Args) == 1 {
			v := tr.eval(c.Args[0], st)
			if v.t.k == "List" {
				return val{eField{v.e, "length"}, tNat}
			}
		}
	case "append":
		if len(c.Args) == 2 && c.Ellipsis == token.NoPos {
			l, v := tr.eval(c.Args[0], st), tr.eval(c.Args[1], st)
			if l.t.k == "List" && sameType(l.t.a, v.t) {
				return val{eBin{"++", l.e, eList{[]expr{v.e}}}, l.t}
			}
		}
	case "make":
		if len(c.Args) >= 2 {
			if l, ok := c.Args[1].(*ast.BasicLit); ok && l.Value == "0" {
				t := tr.oc.valueType(c.Args[0])
				if t.k == "List" {
					return val{eList{nil}, t}
				}
			}
		}
	case "NewNotificationNext", "NewNotificationError", "NewNotificationComplete":
		// Go's Notification has no context; the model's `Notif` carries the context of the callback
		// that materialises it (the convention of the hand-written `materializeM`)
		if tr.cbCtx == nil || tr.m.dT.k != "Notif" {
			break
		}
		switch {
		case name == "NewNotificationNext" && len(c.Args) == 1:
			v := tr.eval(c.Args[0], st)
			if sameType(v.t, tr.m.dT.a) {
				return val{eApp{atom("Notif.next"), []expr{tr.cbCtx, v.e}}, tr.m.dT}
			}
		case name == "NewNotificationError" && len(c.Args) == 1:
			v := tr.eval(c.Args[0], st)
			if v.t.k == "Err" {
				return val{eApp{atom("Notif.error"), []expr{tr.cbCtx, v.e}}, tr.m.dT}
			}
		case name == "NewNotificationComplete" && len(c.Args) == 0:
			return val{eApp{atom("Notif.complete"), []expr{tr.cbCtx}}, tr.m.dT}
		}
	default:
		if p := tr.param(name); p != nil && p.fn != nil {
			e, results := tr.callUser(c, st)
			if len(results) == 0 {
				skip("user callback without a result used as a value: %s", src(c))
			}
			return val{e, tProdN(results)}
		}
	}
	skip("call outside the fragment: %s", src(c))
	return val{}
}

// guardProp: the Go guard condition as a Lean proposition over the data parameters
func (tr *translator) guardProp(g guard) (out string) {
	defer func() {
		if r := recover(); r != nil {
			if _, ok := r.(skipErr); ok {
				out = ""
				return
			}
			panic(r)
		}
	}()
	var cond ast.Expr
	find := func(list []ast.Stmt) {
		for _, s := range list {
			if is, ok := s.(*ast.IfStmt); ok && src(is.Cond) == g.cond {
				cond = is.Cond
			}
		}
	}
	find(tr.oc.fd.Body.List)
	if cond == nil {
		if r, ok := tr.oc.fd.Body.List[len(tr.oc.fd.Body.List)-1].(*ast.ReturnStmt); ok {
			find(r.Results[0].(*ast.FuncLit).Body.List)
		}
	}
	if cond == nil {
		return ""
	}
	empty := &sstate{}
	saved := tr.locals
	tr.locals = map[string]localInfo{}
	defer func() { tr.locals = saved }()
	v := tr.eval(cond, empty)
	return pp(v.e, 0)
}

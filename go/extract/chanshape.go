package main

// ChanShape: the subscribe closures of ToChannel, detachOn and FromChannel translated into a
// small normalised statement language — what is sent where, which calls follow a send, what the
// teardown does and in which order, whether close(ch) sits inside once.Do, the shape of the
// consumer loop / select. Local identifiers are numbered by first declaration (renaming a
// variable changes nothing), comments, types, type arguments and calls of verif* hook functions
// are erased. The transition systems of lean/RoModel/Chan.lean are written from exactly these
// shapes; RoProps/C17.lean compares the regenerated table with the expected one by `decide`, so
// a change of the order or kind of these statements is noticed even when no run shows it.

import (
	"fmt"
	"go/ast"
	"go/parser"
	"go/token"
	"path/filepath"
	"strings"
)

type ShapeRow struct {
	Name  string
	Shape string
}

type shaper struct {
	locals map[string]string
}

func (s *shaper) declare(name string) {
	if name == "_" || name == "" {
		return
	}
	if _, ok := s.locals[name]; !ok {
		s.locals[name] = fmt.Sprintf("v%d", len(s.locals)+1)
	}
}

func (s *shaper) fieldList(fl *ast.FieldList) {
	if fl == nil {
		return
	}
	for _, f := range fl.List {
		for _, n := range f.Names {
			s.declare(n.Name)
		}
	}
}

func (s *shaper) exprs(es []ast.Expr) string {
	parts := make([]string, len(es))
	for i, e := range es {
		parts[i] = s.expr(e)
	}
	return strings.Join(parts, ",")
}

func isHookCall(e ast.Expr) bool {
	c, ok := e.(*ast.CallExpr)
	if !ok {
		return false
	}
	if id, ok := c.Fun.(*ast.Ident); ok {
		return strings.HasPrefix(id.Name, "verif")
	}
	return false
}

func (s *shaper) expr(e ast.Expr) string {
	switch x := e.(type) {
	case nil:
		return ""
	case *ast.Ident:
		if v, ok := s.locals[x.Name]; ok {
			return v
		}
		return x.Name
	case *ast.SelectorExpr:
		return s.expr(x.X) + "." + x.Sel.Name
	case *ast.CallExpr:
		return s.expr(x.Fun) + "(" + s.exprs(x.Args) + ")"
	case *ast.IndexExpr: // generic instantiation or indexing: the index is erased
		return s.expr(x.X)
	case *ast.IndexListExpr:
		return s.expr(x.X)
	case *ast.FuncLit:
		s.fieldList(x.Type.Params)
		return "func{" + s.block(x.Body) + "}"
	case *ast.UnaryExpr:
		if x.Op == token.ARROW {
			return "recv(" + s.expr(x.X) + ")"
		}
		return x.Op.String() + s.expr(x.X)
	case *ast.BinaryExpr:
		return "(" + s.expr(x.X) + x.Op.String() + s.expr(x.Y) + ")"
	case *ast.ParenExpr:
		return s.expr(x.X)
	case *ast.BasicLit:
		return x.Value
	case *ast.CompositeLit:
		return "lit"
	case *ast.StarExpr:
		return "*" + s.expr(x.X)
	case *ast.ChanType, *ast.ArrayType, *ast.MapType, *ast.FuncType, *ast.StructType, *ast.InterfaceType:
		return "type"
	}
	return fmt.Sprintf("?%T", e)
}

func (s *shaper) block(b *ast.BlockStmt) string {
	if b == nil {
		return ""
	}
	var parts []string
	for _, st := range b.List {
		if t := s.stmt(st); t != "" {
			parts = append(parts, t)
		}
	}
	return strings.Join(parts, ";")
}

func (s *shaper) stmt(st ast.Stmt) string {
	switch x := st.(type) {
	case *ast.ExprStmt:
		if isHookCall(x.X) {
			return ""
		}
		return s.expr(x.X)
	case *ast.SendStmt:
		return "send(" + s.expr(x.Chan) + "," + s.expr(x.Value) + ")"
	case *ast.AssignStmt:
		rhs := s.exprs(x.Rhs)
		if x.Tok == token.DEFINE {
			for _, l := range x.Lhs {
				if id, ok := l.(*ast.Ident); ok {
					s.declare(id.Name)
				}
			}
		}
		return s.exprs(x.Lhs) + x.Tok.String() + rhs
	case *ast.DeclStmt:
		if gd, ok := x.Decl.(*ast.GenDecl); ok {
			var parts []string
			for _, sp := range gd.Specs {
				if vs, ok := sp.(*ast.ValueSpec); ok {
					vals := s.exprs(vs.Values)
					for _, n := range vs.Names {
						s.declare(n.Name)
					}
					names := make([]string, len(vs.Names))
					for i, n := range vs.Names {
						names[i] = s.locals[n.Name]
					}
					parts = append(parts, "var "+strings.Join(names, ",")+"="+vals)
				}
			}
			return strings.Join(parts, ";")
		}
		return "?decl"
	case *ast.GoStmt:
		return "go " + s.expr(x.Call)
	case *ast.DeferStmt:
		return "defer " + s.expr(x.Call)
	case *ast.ReturnStmt:
		return "return(" + s.exprs(x.Results) + ")"
	case *ast.BlockStmt:
		return "{" + s.block(x) + "}"
	case *ast.IfStmt:
		out := "if("
		if x.Init != nil {
			out += s.stmt(x.Init) + ";"
		}
		out += s.expr(x.Cond) + "){" + s.block(x.Body) + "}"
		if x.Else != nil {
			out += "else" + s.stmt(x.Else)
		}
		return out
	case *ast.ForStmt:
		out := "for("
		if x.Init != nil {
			out += s.stmt(x.Init)
		}
		out += ";" + s.expr(x.Cond) + ";"
		if x.Post != nil {
			out += s.stmt(x.Post)
		}
		return out + "){" + s.block(x.Body) + "}"
	case *ast.RangeStmt:
		if x.Tok == token.DEFINE {
			for _, l := range []ast.Expr{x.Key, x.Value} {
				if id, ok := l.(*ast.Ident); ok {
					s.declare(id.Name)
				}
			}
		}
		return "range(" + s.expr(x.X) + "){" + s.block(x.Body) + "}"
	case *ast.SelectStmt:
		var parts []string
		for _, c := range x.Body.List {
			cc := c.(*ast.CommClause)
			head := "default"
			if cc.Comm != nil {
				head = "case " + s.stmt(cc.Comm)
			}
			var body []string
			for _, b := range cc.Body {
				if t := s.stmt(b); t != "" {
					body = append(body, t)
				}
			}
			parts = append(parts, head+":{"+strings.Join(body, ";")+"}")
		}
		return "select{" + strings.Join(parts, ";") + "}"
	case *ast.SwitchStmt:
		var parts []string
		for _, c := range x.Body.List {
			cc := c.(*ast.CaseClause)
			var body []string
			for _, b := range cc.Body {
				if t := s.stmt(b); t != "" {
					body = append(body, t)
				}
			}
			head := "default"
			if cc.List != nil {
				head = "case(" + s.exprs(cc.List) + ")"
			}
			parts = append(parts, head+":{"+strings.Join(body, ";")+"}")
		}
		tag := ""
		if x.Tag != nil {
			tag = s.expr(x.Tag)
		}
		return "switch(" + tag + "){" + strings.Join(parts, ";") + "}"
	case *ast.BranchStmt:
		return strings.ToLower(x.Tok.String())
	case *ast.LabeledStmt:
		return s.stmt(x.Stmt)
	case *ast.IncDecStmt:
		return s.expr(x.X) + x.Tok.String()
	case *ast.EmptyStmt:
		return ""
	}
	return fmt.Sprintf("?%T", st)
}

// the FuncLit handed to the first New…Observable… constructor inside fn
func subscribeClosure(fn *ast.FuncDecl) *ast.FuncLit {
	var found *ast.FuncLit
	ast.Inspect(fn.Body, func(n ast.Node) bool {
		if found != nil {
			return false
		}
		c, ok := n.(*ast.CallExpr)
		if !ok {
			return true
		}
		name := calleeName(c)
		if strings.HasPrefix(name, "New") && strings.Contains(name, "Observable") {
			for _, a := range c.Args {
				if fl, ok := a.(*ast.FuncLit); ok {
					found = fl
					return false
				}
			}
		}
		return true
	})
	return found
}

func chanShapes(repo string) []ShapeRow {
	targets := []struct{ file, fn string }{
		{"operator_sink.go", "ToChannel"},
		{"operator_utility.go", "detachOn"},
		{"operator_creation.go", "FromChannel"},
	}
	var rows []ShapeRow
	for _, t := range targets {
		shape := "unknown"
		f, err := parser.ParseFile(token.NewFileSet(), filepath.Join(repo, t.file), nil, 0)
		if err == nil {
			for _, d := range f.Decls {
				fd, ok := d.(*ast.FuncDecl)
				if !ok || fd.Name.Name != t.fn || fd.Body == nil {
					continue
				}
				s := &shaper{locals: map[string]string{}}
				s.fieldList(fd.Type.Params)
				// parameters of the intermediate `func(source Observable[T])` closure
				ast.Inspect(fd.Body, func(n ast.Node) bool {
					if fl, ok := n.(*ast.FuncLit); ok && fl != subscribeClosure(fd) {
						for _, p := range fl.Type.Params.List {
							for _, nm := range p.Names {
								if nm.Name == "source" {
									s.declare(nm.Name)
								}
							}
						}
					}
					return true
				})
				if cl := subscribeClosure(fd); cl != nil {
					s.fieldList(cl.Type.Params)
					shape = s.block(cl.Body)
				}
			}
		}
		rows = append(rows, ShapeRow{t.fn, shape})
	}
	return rows
}

func chanShapeLean(rows []ShapeRow) string {
	var sb strings.Builder
	sb.WriteString("-- GENERATED by go/extract (chanshape.go) from the repository under check. Do not edit.\nnamespace RoGen.ChanShape\n\n")
	sb.WriteString("def table : List (String × String) := [\n")
	for i, r := range rows {
		sb.WriteString("  (" + leanStr(r.Name) + ",\n   " + leanStr(r.Shape) + ")")
		if i+1 < len(rows) {
			sb.WriteString(",\n")
		} else {
			sb.WriteString("\n")
		}
	}
	sb.WriteString("]\n\nend RoGen.ChanShape\n")
	return sb.String()
}

package main

// multigen — multi-source operators translated into Lean machines over events tagged by source (property C05; also
// C03 / C09 / C14 for these operators, which project the same runs).
//
// On every run the subscribe functions of TakeUntil, SkipUntil (operator_filter.go), SampleWhen, ThrottleWhen
// (operator_transformations.go) and MergeAll (operator_combining.go) are translated into `Ro.Multi.MMachine` values built from the statement language of
// lean/RoModel/Multi/GenStm.lean (output: lean/RoGen/MultiGen.lean, namespace RoGen.Multi); lean/RoProps/C05gen.lean
// proves each of them to refine the hand-written machine of RoModel/Multi/OpsA.lean that the C05 theorems are about
// (`MMachine.Sim`, RoProofs/MultiSim.lean: indistinguishable runs for every source configuration, subscription context,
// interleaving and external cut).
//
// Fragment (anything else leaves the operator untranslated: listed in `skipped`, `C05gen.nothing_skipped` fails):
//
//   Op    ::= func Op[..](p Observable[..]) func(Observable[T]) Observable[T] {
//               return func(source Observable[T]) Observable[T] {
//                 return NewObservableWithContext(func(subscriberCtx context.Context, destination Observer[T]) Teardown {
//                   Decl*  S := NewSubscription(nil)
//                   ( S.AddUnsubscribable(X.SubscribeWithContext(subscriberCtx, Obs)) )+
//                   return S.Unsubscribe }) } }
//   Decl  ::= x := uint32(k) | x := int32(k) | var x int32 | var x uint32 | var x bool | var x lo.Tuple2[context.Context, T] | var x context.Context
//           | m := xsync.NewMutexWith…() | var m sync.Mutex | atomic.StoreXxx(&x, k)   -- the operator's locals; a mutex is not a local
//           | h := func() { Stmt* }
//   Obs   ::= NewObserverWithContext(Cb, Cb, Cb) | OnNextWithContext(Cb)      -- OnNext…: empty error / completion callbacks
//   Cb    ::= destination.NextWithContext | destination.ErrorWithContext | destination.CompleteWithContext | func(ctx, [v]) { Stmt* }
//   Stmt  ::= m.Lock() | m.Unlock() | defer m.Unlock()                        -- dropped (logical semantics, GenStm.lean header)
//           | x = Expr | atomic.StoreXxx(&x, Expr) | y := Expr                -- y: callback-local, substituted
//           | destination.K(args) | defer destination.K(args)                 -- a deferred call must be followed by lock operations only
//           | if Cond { Stmt* } [else { Stmt* }] | if Cond { Stmt*; return } Stmt*  | return
//           | atomic.AddXxx(&x, k) | y := atomic.AddXxx(&x, k)                -- y: the new value of x
//           | h()                                                             -- h := func() { Stmt* } declared among the locals: inlined
//           | S.AddUnsubscribable(v.SubscribeWithContext(Expr, NewObserverWithContext(Cb, Cb, Cb)))
//                                   -- higher-order operators: v is the callback's value parameter of type Observable[..]; it stands for the
//                                      inner source `idx v` (a parameter of the generated machine); the three callbacks are the reaction of
//                                      every inner source and may not refer to the enclosing callback's parameters or locals
//   Cond  ::= atomic.LoadXxx(&x) == k | x | !x | Expr == Expr | atomic.CompareAndSwapXxx(&x, a, b)   -- the last one: test, and set in the true branch
//   Expr  ::= k | true | false | identifier | lo.T2(Expr, Expr) | Expr.A | Expr.B | uint32(Expr) | int32(Expr)
//
// Source numbering: `source` is 0, the observable parameters of the outer function follow in order. The callbacks of the last
// source also stand for any larger index (the hand-written machines do the same; such events are never fed).

import (
	"fmt"
	"go/ast"
	"go/parser"
	"go/token"
	"path/filepath"
	"sort"
	"strings"
)

func init() { extraTables = append(extraTables, extractMultiGen) }

type mgFail struct{ why string }

func mgPanic(f string, a ...any) { panic(mgFail{fmt.Sprintf(f, a...)}) }

var mgOps = []struct{ file, name string }{
	{"operator_filter.go", "TakeUntil"},
	{"operator_filter.go", "SkipUntil"},
	{"operator_transformations.go", "SampleWhen"},
	{"operator_transformations.go", "ThrottleWhen"},
	{"operator_combining.go", "MergeAll"},
}

type mgVar struct {
	name, ty, zero string
}

type mgEnv struct {
	op      string
	vars    []mgVar           // the operator's locals, in declaration order
	isVar   map[string]bool   //
	mutexes map[string]bool   // local mutexes
	comp    string            // name of the composite subscription
	sources map[string]int    // observable parameter -> source number
	poly    bool              // a local's type mentions T
	locals  map[string]string // callback-local -> Lean expression
	lreads  map[string][]string
	params  map[string]bool // callback parameters
	// per callback
	deferSeen bool
	assigned  map[string]bool         // locals assigned so far in this callback
	obsParams map[string]bool         // callback parameters of type Observable[..]: values that stand for an inner source
	helpers   map[string]*ast.FuncLit // local closures `h := func() {…}`, inlined at their calls
	inlining  map[string]bool
	dyn       map[string]mgReact // the callbacks handed to the inner sources (higher-order operators)
	needIdx   bool
}

type mgReact struct {
	names []string
	body  string
}

func (e *mgEnv) stName() string    { return e.op + "St" }
func (e *mgEnv) lensName() string  { return lowerFirstMG(e.op) + "L" }
func lowerFirstMG(s string) string { return strings.ToLower(s[:1]) + s[1:] }

func mgLit(x ast.Expr) (string, bool) {
	switch v := x.(type) {
	case *ast.BasicLit:
		if v.Kind == token.INT {
			return v.Value, true
		}
	case *ast.ParenExpr:
		return mgLit(v.X)
	case *ast.CallExpr:
		if id, ok := v.Fun.(*ast.Ident); ok && len(v.Args) == 1 && (id.Name == "uint32" || id.Name == "int32" || id.Name == "int64" || id.Name == "uint64") {
			return mgLit(v.Args[0])
		}
	}
	return "", false
}

// expression over callback parameters, callback-locals and the operator's locals (`s.x`); returns the locals it reads
func (e *mgEnv) expr(x ast.Expr) (string, []string) {
	switch v := x.(type) {
	case *ast.ParenExpr:
		return e.expr(v.X)
	case *ast.BasicLit:
		if v.Kind == token.INT {
			return v.Value, nil
		}
	case *ast.Ident:
		switch {
		case v.Name == "true" || v.Name == "false":
			return v.Name, nil
		case e.locals[v.Name] != "":
			return e.locals[v.Name], e.lreads[v.Name]
		case e.isVar[v.Name]:
			return "s." + mgField(v.Name), []string{v.Name}
		case e.params[v.Name] || v.Name == "subscriberCtx":
			return mgIdent(v.Name), nil
		}
		mgPanic("identifier %s at line %d is neither a parameter nor a local of the operator", v.Name, line(v.Pos()))
	case *ast.UnaryExpr:
		if v.Op == token.SUB {
			in, r := e.expr(v.X)
			return "(-" + in + ")", r
		}
	case *ast.SelectorExpr:
		if v.Sel.Name == "A" || v.Sel.Name == "B" {
			in, r := e.expr(v.X)
			return in + map[string]string{"A": ".1", "B": ".2"}[v.Sel.Name], r
		}
	case *ast.CallExpr:
		if se, ok := v.Fun.(*ast.SelectorExpr); ok && isIdent(se.X, "lo") && se.Sel.Name == "T2" && len(v.Args) == 2 {
			a, r1 := e.expr(v.Args[0])
			b, r2 := e.expr(v.Args[1])
			return "(" + a + ", " + b + ")", append(r1, r2...)
		}
		if id, ok := v.Fun.(*ast.Ident); ok && len(v.Args) == 1 && (id.Name == "uint32" || id.Name == "int32") {
			return e.expr(v.Args[0])
		}
		if name, arg, ok := mgAtomic(v, "Load"); ok && len(v.Args) == 1 {
			_ = name
			return "s." + mgField(arg), []string{arg}
		}
	}
	mgPanic("expression at line %d outside the fragment", line(x.Pos()))
	return "", nil
}

func mgIdent(n string) string {
	switch n {
	case "end", "from", "at", "in", "then", "else", "do", "fun", "let", "have", "show", "open", "by":
		return n + "_"
	}
	return n
}

// fields are named by position (v0, v1, … in declaration order; `comp` for the composite subscription), so that a
// rename of a Go local regenerates the same text
var mgFieldOf = map[string]string{}

func mgField(n string) string {
	if f, ok := mgFieldOf[n]; ok {
		return f
	}
	return mgIdent(n)
}

// atomic.<kind>Xxx(&x, …) -> ("StoreInt32", "x", true)
func mgAtomic(c *ast.CallExpr, kind string) (string, string, bool) {
	se, ok := c.Fun.(*ast.SelectorExpr)
	if !ok || !isIdent(se.X, "atomic") || !strings.HasPrefix(se.Sel.Name, kind) || len(c.Args) == 0 {
		return "", "", false
	}
	u, ok := c.Args[0].(*ast.UnaryExpr)
	if !ok || u.Op != token.AND {
		return "", "", false
	}
	id, ok := u.X.(*ast.Ident)
	if !ok {
		return "", "", false
	}
	return se.Sel.Name, id.Name, true
}

// condition -> (Lean Bool expression over `s`, statement to prepend to the true branch (test-and-set), ok)
func (e *mgEnv) cond(x ast.Expr) (string, string) {
	switch v := x.(type) {
	case *ast.ParenExpr:
		return e.cond(v.X)
	case *ast.UnaryExpr:
		if v.Op == token.NOT {
			c, pre := e.cond(v.X)
			if pre != "" {
				mgPanic("negated compare-and-swap at line %d", line(x.Pos()))
			}
			return "(!" + c + ")", ""
		}
	case *ast.BinaryExpr:
		if v.Op == token.EQL || v.Op == token.NEQ {
			l, _ := e.expr(v.X)
			r, _ := e.expr(v.Y)
			c := "decide (" + l + " = " + r + ")"
			if v.Op == token.NEQ {
				c = "(!" + c + ")"
			}
			return c, ""
		}
	case *ast.Ident:
		s, _ := e.expr(v)
		return s, ""
	case *ast.CallExpr:
		if _, arg, ok := mgAtomic(v, "CompareAndSwap"); ok && len(v.Args) == 3 && e.isVar[arg] {
			old, _ := e.expr(v.Args[1])
			nw, _ := e.expr(v.Args[2])
			e.assigned[arg] = true
			return "decide (s." + mgField(arg) + " = " + old + ")", fmt.Sprintf("(.set (fun s => { s with %s := %s }))", mgField(arg), nw)
		}
		if _, _, ok := mgAtomic(v, "Load"); ok {
			s, _ := e.expr(v)
			return s, ""
		}
	}
	mgPanic("condition at line %d outside the fragment", line(x.Pos()))
	return "", ""
}

func mgSeq(parts []string) string {
	var p []string
	for _, x := range parts {
		if x != ".skip" {
			p = append(p, x)
		}
	}
	if len(p) == 0 {
		return ".skip"
	}
	out := p[len(p)-1]
	for i := len(p) - 2; i >= 0; i-- {
		out = fmt.Sprintf("(.seq %s %s)", p[i], out)
	}
	return out
}

// destination.K(args) -> emit
func (e *mgEnv) emit(c *ast.CallExpr) (string, bool) {
	se, ok := c.Fun.(*ast.SelectorExpr)
	if !ok || !isIdent(se.X, "destination") {
		return "", false
	}
	var args []string
	for _, a := range c.Args {
		s, reads := e.expr(a)
		for _, r := range reads {
			if e.assigned == nil {
				continue
			}
			_ = r
		}
		args = append(args, mgAtomArg(s))
	}
	switch {
	case se.Sel.Name == "NextWithContext" && len(args) == 2:
		return fmt.Sprintf("(.emit (fun s => .next %s %s))", args[0], args[1]), true
	case se.Sel.Name == "ErrorWithContext" && len(args) == 2:
		return fmt.Sprintf("(.emit (fun s => .error %s %s))", args[0], args[1]), true
	case se.Sel.Name == "CompleteWithContext" && len(args) == 1:
		return fmt.Sprintf("(.emit (fun s => .complete %s))", args[0]), true
	}
	return "", false
}

func mgAtomArg(s string) string {
	if strings.ContainsAny(s, " ") && !strings.HasPrefix(s, "(") {
		return "(" + s + ")"
	}
	return s
}

func (e *mgEnv) isLockOp(s ast.Stmt) bool {
	var c *ast.CallExpr
	switch v := s.(type) {
	case *ast.ExprStmt:
		c, _ = v.X.(*ast.CallExpr)
	case *ast.DeferStmt:
		c = v.Call
	}
	if c == nil {
		return false
	}
	se, ok := c.Fun.(*ast.SelectorExpr)
	if !ok {
		return false
	}
	id, ok := se.X.(*ast.Ident)
	return ok && e.mutexes[id.Name] && (se.Sel.Name == "Lock" || se.Sel.Name == "Unlock") && len(c.Args) == 0
}

func (e *mgEnv) assign(name string, rhs ast.Expr, pos token.Pos) string {
	if !e.isVar[name] {
		mgPanic("assignment to %s at line %d: not a local of the operator", name, line(pos))
	}
	// a callback-local that was computed from this local would now be stale
	for l, reads := range e.lreads {
		for _, r := range reads {
			if r == name {
				mgPanic("local %s is assigned at line %d after %s was copied from it", name, line(pos), l)
			}
		}
	}
	v, _ := e.expr(rhs)
	e.assigned[name] = true
	return fmt.Sprintf("(.set (fun s => { s with %s := %s }))", mgField(name), v)
}

// atomic.AddXxx(&x, k)
func (e *mgEnv) addTo(name string, delta ast.Expr, pos token.Pos) string {
	if !e.isVar[name] {
		mgPanic("atomic add to %s at line %d: not a local of the operator", name, line(pos))
	}
	for l, reads := range e.lreads {
		for _, r := range reads {
			if r == name {
				mgPanic("local %s is changed at line %d after %s was copied from it", name, line(pos), l)
			}
		}
	}
	d, _ := e.expr(delta)
	e.assigned[name] = true
	return fmt.Sprintf("(.set (fun s => { s with %s := s.%s + %s }))", mgField(name), mgField(name), d)
}

// S.AddUnsubscribable(v.SubscribeWithContext(c, Obs)) inside a callback, where v is a value of the outer observable that
// stands for an inner source: -> (.sub (idx v) c, .add L (idx v)); the observer's callbacks become the reaction of every
// inner source (they may not refer to the enclosing callback's parameters or locals)
func (e *mgEnv) nestedSubscribe(c *ast.CallExpr) (string, string, bool) {
	se, ok := c.Fun.(*ast.SelectorExpr)
	if !ok || !isIdent(se.X, e.comp) || se.Sel.Name != "AddUnsubscribable" || len(c.Args) != 1 {
		return "", "", false
	}
	sc, ok := c.Args[0].(*ast.CallExpr)
	if !ok {
		return "", "", false
	}
	sse, ok := sc.Fun.(*ast.SelectorExpr)
	if !ok || sse.Sel.Name != "SubscribeWithContext" || len(sc.Args) != 2 {
		return "", "", false
	}
	sid, ok := sse.X.(*ast.Ident)
	if !ok || !e.obsParams[sid.Name] {
		mgPanic("nested subscription at line %d: the subscribed observable is not a value of the outer observable", line(c.Pos()))
	}
	if e.dyn != nil {
		mgPanic("a second nested subscription at line %d", line(c.Pos()))
	}
	cx, _ := e.expr(sc.Args[0])
	oc, fn := mgObsCall(sc.Args[1])
	if oc == nil || fn != "NewObserverWithContext" || len(oc.Args) != 3 {
		mgPanic("observer of the inner sources at line %d outside the fragment", line(sc.Args[1].Pos()))
	}
	// fresh scope for the inner callbacks
	saveP, saveL, saveR, saveD, saveA, saveO := e.params, e.locals, e.lreads, e.deferSeen, e.assigned, e.obsParams
	r := map[string]mgReact{}
	for j, kind := range []string{"next", "error", "complete"} {
		names, b := e.callback(oc.Args[j], kind)
		r[kind] = mgReact{names, b}
	}
	e.params, e.locals, e.lreads, e.deferSeen, e.assigned, e.obsParams = saveP, saveL, saveR, saveD, saveA, saveO
	e.dyn = r
	e.needIdx = true
	k := "(idx " + mgIdent(sid.Name) + ")"
	return fmt.Sprintf("(.sub (fun s => %s) (fun s => %s))", k, cx), fmt.Sprintf("(.add %s (fun s => %s))", e.lensName(), k), true
}

// a block of a callback; `endsInReturn` tells the caller that control does not fall through
func (e *mgEnv) block(l []ast.Stmt) (string, bool) {
	var parts, deferred []string
	for i := 0; i < len(l); i++ {
		st := l[i]
		if e.isLockOp(st) {
			continue
		}
		if e.deferSeen {
			mgPanic("statement at line %d follows a deferred destination call (only lock operations may)", line(st.Pos()))
		}
		switch v := st.(type) {
		case *ast.ReturnStmt:
			if len(v.Results) != 0 {
				mgPanic("return with a value at line %d", line(v.Pos()))
			}
			if len(deferred) > 0 {
				mgPanic("return after a defer at line %d", line(v.Pos()))
			}
			return mgSeq(parts), true
		case *ast.ExprStmt:
			c, ok := v.X.(*ast.CallExpr)
			if !ok {
				mgPanic("statement at line %d", line(v.Pos()))
			}
			if s, ok := e.emit(c); ok {
				parts = append(parts, s)
				continue
			}
			if _, arg, ok := mgAtomic(c, "Store"); ok && len(c.Args) == 2 {
				parts = append(parts, e.assign(arg, c.Args[1], v.Pos()))
				continue
			}
			if _, arg, ok := mgAtomic(c, "Add"); ok && len(c.Args) == 2 {
				parts = append(parts, e.addTo(arg, c.Args[1], v.Pos()))
				continue
			}
			if id, ok := c.Fun.(*ast.Ident); ok && e.helpers[id.Name] != nil && len(c.Args) == 0 {
				if e.inlining[id.Name] {
					mgPanic("recursive local closure %s at line %d", id.Name, line(v.Pos()))
				}
				e.inlining[id.Name] = true
				body, ret := e.block(e.helpers[id.Name].Body.List)
				delete(e.inlining, id.Name)
				_ = ret // a `return` inside the helper only ends the helper
				parts = append(parts, body)
				continue
			}
			if sub, add, ok := e.nestedSubscribe(c); ok {
				parts = append(parts, sub, add)
				continue
			}
			mgPanic("call at line %d outside the fragment", line(v.Pos()))
		case *ast.DeferStmt:
			s, ok := e.emit(v.Call)
			if !ok {
				mgPanic("defer at line %d is not a destination call", line(v.Pos()))
			}
			deferred = append([]string{s}, deferred...)
			e.deferSeen = true
			// only lock operations may follow in this block
			for _, rest := range l[i+1:] {
				if !e.isLockOp(rest) {
					mgPanic("statement at line %d follows a deferred destination call", line(rest.Pos()))
				}
			}
			return mgSeq(append(parts, deferred...)), false
		case *ast.AssignStmt:
			if len(v.Lhs) != 1 || len(v.Rhs) != 1 {
				mgPanic("assignment at line %d", line(v.Pos()))
			}
			id, ok := v.Lhs[0].(*ast.Ident)
			if !ok {
				mgPanic("assignment at line %d", line(v.Pos()))
			}
			switch v.Tok {
			case token.ASSIGN:
				parts = append(parts, e.assign(id.Name, v.Rhs[0], v.Pos()))
			case token.DEFINE:
				if c, ok := v.Rhs[0].(*ast.CallExpr); ok {
					if _, arg, ok := mgAtomic(c, "Add"); ok && len(c.Args) == 2 {
						// y := atomic.AddXxx(&x, k): the new value of x
						parts = append(parts, e.addTo(arg, c.Args[1], v.Pos()))
						e.locals[id.Name] = "s." + mgField(arg)
						e.lreads[id.Name] = []string{arg}
						continue
					}
				}
				s, reads := e.expr(v.Rhs[0])
				e.locals[id.Name] = s
				e.lreads[id.Name] = reads
			default:
				mgPanic("assignment at line %d", line(v.Pos()))
			}
		case *ast.IfStmt:
			if v.Init != nil {
				mgPanic("if with an init statement at line %d", line(v.Pos()))
			}
			c, pre := e.cond(v.Cond)
			saveDefer := e.deferSeen
			th, thRet := e.block(v.Body.List)
			thDefer := e.deferSeen
			e.deferSeen = saveDefer
			if pre != "" {
				th = mgSeq([]string{pre, th})
			}
			el, elRet, elDefer := ".skip", false, false
			if v.Else != nil {
				eb, ok := v.Else.(*ast.BlockStmt)
				if !ok {
					mgPanic("else-if at line %d", line(v.Pos()))
				}
				el, elRet = e.block(eb.List)
				elDefer = e.deferSeen
				e.deferSeen = saveDefer
			}
			if thRet && !elRet && v.Else == nil {
				// if c { …; return }; rest   ==>   if c then … else rest
				rest, restRet := e.block(l[i+1:])
				parts = append(parts, fmt.Sprintf("(.ite (fun s => %s) %s %s)", c, th, rest))
				_ = restRet
				return mgSeq(parts), false
			}
			if thRet || elRet {
				mgPanic("return inside an if/else at line %d", line(v.Pos()))
			}
			parts = append(parts, fmt.Sprintf("(.ite (fun s => %s) %s %s)", c, th, el))
			if thDefer || elDefer {
				e.deferSeen = true
			}
		default:
			mgPanic("statement at line %d outside the fragment", line(st.Pos()))
		}
	}
	return mgSeq(parts), false
}

// one callback -> (parameter names, body)
func (e *mgEnv) callback(x ast.Expr, kind string) ([]string, string) {
	canon := map[string][]string{"next": {"ctx", "value"}, "error": {"ctx", "err"}, "complete": {"ctx"}}[kind]
	if se, ok := x.(*ast.SelectorExpr); ok && isIdent(se.X, "destination") {
		want := map[string]string{"next": "NextWithContext", "error": "ErrorWithContext", "complete": "CompleteWithContext"}[kind]
		if se.Sel.Name != want {
			mgPanic("callback at line %d: destination.%s in the %s position", line(x.Pos()), se.Sel.Name, kind)
		}
		switch kind {
		case "next":
			return canon, "(.emit (fun s => .next ctx value))"
		case "error":
			return canon, "(.emit (fun s => .error ctx err))"
		}
		return canon, "(.emit (fun s => .complete ctx))"
	}
	fl, ok := x.(*ast.FuncLit)
	if !ok {
		mgPanic("callback at line %d is neither a function literal nor a method of destination", line(x.Pos()))
	}
	var names []string
	obsP := map[string]bool{}
	for _, f := range fl.Type.Params.List {
		isObs := false
		if ix, ok := f.Type.(*ast.IndexExpr); ok && isIdent(ix.X, "Observable") {
			isObs = true
		}
		for _, n := range f.Names {
			names = append(names, mgIdent(n.Name))
			if isObs {
				obsP[n.Name] = true
			}
		}
	}
	if len(names) != len(canon) {
		mgPanic("callback at line %d: %d parameters in the %s position", line(x.Pos()), len(names), kind)
	}
	e.params = map[string]bool{}
	for _, n := range names {
		e.params[n] = true
	}
	e.locals, e.lreads = map[string]string{}, map[string][]string{}
	e.deferSeen = false
	e.assigned = map[string]bool{}
	e.obsParams = obsP
	body, _ := e.block(fl.Body.List)
	return names, body
}

func mgObsCall(x ast.Expr) (*ast.CallExpr, string) {
	c, ok := x.(*ast.CallExpr)
	if !ok {
		return nil, ""
	}
	fn := c.Fun
	if ix, ok := fn.(*ast.IndexExpr); ok {
		fn = ix.X
	}
	if il, ok := fn.(*ast.IndexListExpr); ok {
		fn = il.X
	}
	if id, ok := fn.(*ast.Ident); ok {
		return c, id.Name
	}
	return nil, ""
}

func mgTranslate(fd *ast.FuncDecl) string {
	e := &mgEnv{op: fd.Name.Name, isVar: map[string]bool{}, mutexes: map[string]bool{}, sources: map[string]int{},
		helpers: map[string]*ast.FuncLit{}, inlining: map[string]bool{}}
	// outer parameters: observables only
	n := 1
	for _, f := range fd.Type.Params.List {
		ix, ok := f.Type.(*ast.IndexExpr)
		if !ok || !isIdent(ix.X, "Observable") {
			mgPanic("parameter of a type other than Observable[..]")
		}
		for _, nm := range f.Names {
			e.sources[nm.Name] = n
			n++
		}
	}
	nsrc := n
	// unwrap: return func(source Observable[T]) Observable[T] { return NewObservableWithContext(func(subscriberCtx, destination) Teardown {…}) }
	if len(fd.Body.List) != 1 {
		mgPanic("outer function body is not a single return")
	}
	ret, ok := fd.Body.List[0].(*ast.ReturnStmt)
	if !ok || len(ret.Results) != 1 {
		mgPanic("outer function body is not a single return")
	}
	inner, ok := ret.Results[0].(*ast.FuncLit)
	if !ok || len(inner.Type.Params.List) != 1 || len(inner.Type.Params.List[0].Names) != 1 || len(inner.Body.List) != 1 {
		mgPanic("the returned operator is not `func(source Observable[T]) Observable[T] { return … }`")
	}
	if _, dup := e.sources[inner.Type.Params.List[0].Names[0].Name]; dup {
		mgPanic("the piped source shadows a parameter")
	}
	e.sources[inner.Type.Params.List[0].Names[0].Name] = 0
	ret2, ok := inner.Body.List[0].(*ast.ReturnStmt)
	if !ok || len(ret2.Results) != 1 {
		mgPanic("the operator does not return a constructor call")
	}
	ctor, ok := ret2.Results[0].(*ast.CallExpr)
	if !ok || len(ctor.Args) != 1 || calleeName(ctor) != "NewObservableWithContext" {
		mgPanic("the operator is not built with NewObservableWithContext (the safe constructor)")
	}
	fl, ok := ctor.Args[0].(*ast.FuncLit)
	if !ok {
		mgPanic("constructor argument is not a function literal")
	}
	var pn []string
	for _, f := range fl.Type.Params.List {
		for _, nm := range f.Names {
			pn = append(pn, nm.Name)
		}
	}
	if len(pn) != 2 || pn[0] != "subscriberCtx" || pn[1] != "destination" {
		mgPanic("subscribe function parameters are not (subscriberCtx, destination)")
	}
	body := fl.Body.List
	// declarations
	i := 0
	mgFieldOf = map[string]string{}
	addVar := func(name, ty, zero string) {
		mgFieldOf[name] = fmt.Sprintf("v%d", len(e.vars))
		e.vars = append(e.vars, mgVar{name, ty, zero})
		e.isVar[name] = true
	}
	tyOf := func(t ast.Expr) (string, string, bool) {
		switch x := t.(type) {
		case *ast.Ident:
			switch x.Name {
			case "uint32", "uint64":
				return "Nat", "0", true
			case "int32", "int64", "int":
				return "Int", "0", true
			case "bool":
				return "Bool", "false", true
			}
		case *ast.SelectorExpr:
			if isIdent(x.X, "context") && x.Sel.Name == "Context" {
				return "Ctx", "Ctx.nil", true
			}
		case *ast.IndexListExpr:
			if se, ok := x.X.(*ast.SelectorExpr); ok && isIdent(se.X, "lo") && se.Sel.Name == "Tuple2" && len(x.Indices) == 2 {
				if s0, ok := x.Indices[0].(*ast.SelectorExpr); ok && isIdent(s0.X, "context") && s0.Sel.Name == "Context" && isIdent(x.Indices[1], "T") {
					e.poly = true
					return "Ctx × α", "(Ctx.nil, default)", true
				}
			}
		}
		return "", "", false
	}
decls:
	for ; i < len(body); i++ {
		switch v := body[i].(type) {
		case *ast.DeclStmt:
			gd, ok := v.Decl.(*ast.GenDecl)
			if !ok || gd.Tok != token.VAR {
				mgPanic("declaration at line %d", line(v.Pos()))
			}
			for _, sp := range gd.Specs {
				vs := sp.(*ast.ValueSpec)
				if len(vs.Values) != 0 || vs.Type == nil {
					mgPanic("declaration at line %d has an initialiser", line(v.Pos()))
				}
				if se, ok := vs.Type.(*ast.SelectorExpr); ok && isIdent(se.X, "sync") && (se.Sel.Name == "Mutex" || se.Sel.Name == "RWMutex") {
					for _, nm := range vs.Names {
						e.mutexes[nm.Name] = true
					}
					continue
				}
				ty, zero, ok := tyOf(vs.Type)
				if !ok {
					mgPanic("local of a type outside the fragment at line %d", line(v.Pos()))
				}
				for _, nm := range vs.Names {
					addVar(nm.Name, ty, zero)
				}
			}
		case *ast.AssignStmt:
			if v.Tok != token.DEFINE || len(v.Lhs) != 1 || len(v.Rhs) != 1 {
				mgPanic("statement at line %d", line(v.Pos()))
			}
			name := v.Lhs[0].(*ast.Ident).Name
			if c, fn := mgObsCall(v.Rhs[0]); c != nil && fn == "NewSubscription" {
				if len(c.Args) != 1 || !isIdent(c.Args[0], "nil") {
					mgPanic("NewSubscription with a teardown at line %d", line(v.Pos()))
				}
				if e.comp != "" {
					mgPanic("a second composite subscription at line %d", line(v.Pos()))
				}
				e.comp = name
				mgFieldOf[name] = "comp"
				continue
			}
			if hl, ok := v.Rhs[0].(*ast.FuncLit); ok && (hl.Type.Params == nil || len(hl.Type.Params.List) == 0) && (hl.Type.Results == nil || len(hl.Type.Results.List) == 0) {
				e.helpers[name] = hl
				continue
			}
			if c, ok := v.Rhs[0].(*ast.CallExpr); ok {
				if se, ok := c.Fun.(*ast.SelectorExpr); ok && isIdent(se.X, "xsync") && strings.HasPrefix(se.Sel.Name, "NewMutex") {
					e.mutexes[name] = true
					continue
				}
				if id, ok := c.Fun.(*ast.Ident); ok && len(c.Args) == 1 {
					if ty, _, ok := tyOf(id); ok {
						if lit, ok := mgLit(c.Args[0]); ok {
							addVar(name, ty, lit)
							continue
						}
					}
				}
			}
			mgPanic("local declaration at line %d outside the fragment", line(v.Pos()))
		case *ast.ExprStmt:
			c, ok := v.X.(*ast.CallExpr)
			if ok {
				if se, ok := c.Fun.(*ast.SelectorExpr); ok && e.comp != "" && isIdent(se.X, e.comp) {
					break decls // the first subscription
				}
				if _, arg, ok := mgAtomic(c, "Store"); ok && len(c.Args) == 2 && e.isVar[arg] {
					if lit, ok := mgLit(c.Args[1]); ok {
						for k := range e.vars {
							if e.vars[k].name == arg {
								e.vars[k].zero = lit
							}
						}
						continue
					}
				}
			}
			mgPanic("statement at line %d before the composite subscription", line(v.Pos()))
		default:
			mgPanic("statement at line %d before the composite subscription", line(body[i].Pos()))
		}
	}
	if e.comp == "" {
		mgPanic("no `subscriptions := NewSubscription(nil)`")
	}
	if e.isVar[e.comp] {
		mgPanic("composite subscription shadows a local")
	}
	// subscriptions
	type react = mgReact
	reacts := map[int]map[string]react{}
	var boot []string
	for ; i < len(body)-1; i++ {
		es, ok := body[i].(*ast.ExprStmt)
		if !ok {
			mgPanic("statement at line %d: expected %s.AddUnsubscribable(X.SubscribeWithContext(..))", line(body[i].Pos()), e.comp)
		}
		c, ok := es.X.(*ast.CallExpr)
		if !ok {
			mgPanic("statement at line %d", line(es.Pos()))
		}
		se, ok := c.Fun.(*ast.SelectorExpr)
		if !ok || !isIdent(se.X, e.comp) || (se.Sel.Name != "AddUnsubscribable" && se.Sel.Name != "Add") || len(c.Args) != 1 {
			mgPanic("statement at line %d: expected %s.AddUnsubscribable(..)", line(es.Pos()), e.comp)
		}
		if se.Sel.Name == "Add" {
			mgPanic("statement at line %d: %s.Add of something else than a subscription", line(es.Pos()), e.comp)
		}
		sc, ok := c.Args[0].(*ast.CallExpr)
		if !ok {
			mgPanic("statement at line %d", line(es.Pos()))
		}
		sse, ok := sc.Fun.(*ast.SelectorExpr)
		if !ok || sse.Sel.Name != "SubscribeWithContext" || len(sc.Args) != 2 {
			mgPanic("statement at line %d: not a SubscribeWithContext call", line(es.Pos()))
		}
		sid, ok := sse.X.(*ast.Ident)
		k, known := 0, false
		if ok {
			k, known = e.sources[sid.Name]
		}
		if !known {
			mgPanic("statement at line %d subscribes something else than a source parameter", line(es.Pos()))
		}
		if _, dup := reacts[k]; dup {
			mgPanic("source %d is subscribed twice", k)
		}
		if !isIdent(sc.Args[0], "subscriberCtx") {
			mgPanic("source %d is not subscribed with subscriberCtx", k)
		}
		oc, fn := mgObsCall(sc.Args[1])
		r := map[string]react{}
		switch {
		case oc != nil && fn == "NewObserverWithContext" && len(oc.Args) == 3:
			for j, kind := range []string{"next", "error", "complete"} {
				names, b := e.callback(oc.Args[j], kind)
				r[kind] = react{names, b}
			}
		case oc != nil && fn == "OnNextWithContext" && len(oc.Args) == 1:
			names, b := e.callback(oc.Args[0], "next")
			r["next"] = react{names, b}
			r["error"] = react{[]string{"_", "_"}, ".skip"}
			r["complete"] = react{[]string{"_"}, ".skip"}
		default:
			mgPanic("observer of source %d at line %d outside the fragment", k, line(sc.Args[1].Pos()))
		}
		reacts[k] = r
		boot = append(boot, fmt.Sprintf("(.sub (fun s => %d) (fun s => subscriberCtx))", k), fmt.Sprintf("(.add %s (fun s => %d))", e.lensName(), k))
	}
	if len(reacts) != nsrc {
		mgPanic("%d of %d sources are subscribed", len(reacts), nsrc)
	}
	// return S.Unsubscribe
	last, ok := body[len(body)-1].(*ast.ReturnStmt)
	okRet := false
	if ok && len(last.Results) == 1 {
		if se, ok := last.Results[0].(*ast.SelectorExpr); ok && isIdent(se.X, e.comp) && se.Sel.Name == "Unsubscribe" {
			okRet = true
		}
	}
	if !okRet {
		mgPanic("the subscribe function does not end with `return %s.Unsubscribe`", e.comp)
	}
	// print
	var sb strings.Builder
	tparam, targ := "", ""
	if e.poly {
		tparam, targ = " (α : Type)", " α"
	}
	sb.WriteString(fmt.Sprintf("/-- the locals of %s's subscribe function (%s:%d) -/\nstructure %s%s where\n", e.op, filepath.Base(fset.Position(fd.Pos()).Filename), line(fd.Pos()), e.stName(), tparam))
	for _, v := range e.vars {
		sb.WriteString(fmt.Sprintf("  %s : %s\n", mgField(v.name), v.ty))
	}
	sb.WriteString(fmt.Sprintf("  %s : Comp\n", mgField(e.comp)))
	sb.WriteString("-- @names")
	for _, v := range e.vars {
		sb.WriteString(fmt.Sprintf(" %s=%s", mgField(v.name), v.name))
	}
	sb.WriteString(fmt.Sprintf(" comp=%s\n\n", e.comp))
	inh := ""
	if e.poly {
		inh = " [Inhabited α]"
	}
	lensImp := ""
	if e.poly {
		lensImp = " {α : Type}"
	}
	sb.WriteString(fmt.Sprintf("def %s%s : CompLens (%s%s) := ⟨fun s => s.%s, fun s c => { s with %s := c }⟩\n\n", e.lensName(), lensImp, e.stName(), targ, mgField(e.comp), mgField(e.comp)))
	idxP := ""
	if e.needIdx {
		idxP = " (idx : α → Nat)" // which inner source a value of the outer observable stands for
	}
	sb.WriteString(fmt.Sprintf("def %sG {α : Type}%s%s : MMachine (%s%s) α α := build\n  { ", lowerFirstMG(e.op), inh, idxP, e.stName(), targ))
	for _, v := range e.vars {
		sb.WriteString(fmt.Sprintf("%s := %s, ", mgField(v.name), v.zero))
	}
	sb.WriteString(fmt.Sprintf("%s := {} }\n", mgField(e.comp)))
	sb.WriteString("  (fun subscriberCtx => " + mgSeq(boot) + ")\n  (fun k n => match k, n with\n")
	ks := make([]int, 0, len(reacts))
	for k := range reacts {
		ks = append(ks, k)
	}
	sort.Ints(ks)
	for _, k := range ks {
		pat := fmt.Sprint(k)
		if k == nsrc-1 && e.dyn == nil {
			pat = "_"
		}
		r := reacts[k]
		sb.WriteString(fmt.Sprintf("    | %s, .next %s => %s\n", pat, strings.Join(r["next"].names, " "), r["next"].body))
		sb.WriteString(fmt.Sprintf("    | %s, .error %s => %s\n", pat, strings.Join(r["error"].names, " "), r["error"].body))
		sb.WriteString(fmt.Sprintf("    | %s, .complete %s => %s\n", pat, strings.Join(r["complete"].names, " "), r["complete"].body))
	}
	if e.dyn != nil {
		r := e.dyn
		sb.WriteString(fmt.Sprintf("    | _, .next %s => %s\n", strings.Join(r["next"].names, " "), r["next"].body))
		sb.WriteString(fmt.Sprintf("    | _, .error %s => %s\n", strings.Join(r["error"].names, " "), r["error"].body))
		sb.WriteString(fmt.Sprintf("    | _, .complete %s => %s\n", strings.Join(r["complete"].names, " "), r["complete"].body))
	}
	sb.WriteString(fmt.Sprintf("  )\n  (unsubAll %s)\n", e.lensName()))
	return sb.String()
}

func extractMultiGen(repo, out string) {
	var sb strings.Builder
	sb.WriteString("-- GENERATED by go/extract (multigen.go) from the repository under check. Do not edit.\nimport RoModel.Multi.GenStm\nset_option linter.unusedVariables false\nnamespace RoGen.Multi\nopen Ro Ro.Multi Ro.Multi.GenB\n\n")
	var skipped [][2]string
	var done []string
	files := map[string]*ast.File{}
	for _, op := range mgOps {
		f, seen := files[op.file]
		if !seen {
			var err error
			f, err = parser.ParseFile(fset, filepath.Join(repo, op.file), nil, 0)
			if err != nil {
				f = nil
			}
			files[op.file] = f
		}
		var fd *ast.FuncDecl
		if f != nil {
			for _, d := range f.Decls {
				if x, ok := d.(*ast.FuncDecl); ok && x.Body != nil && x.Recv == nil && x.Name.Name == op.name {
					fd = x
				}
			}
		}
		if fd == nil {
			skipped = append(skipped, [2]string{op.name, "function not found in " + op.file})
			continue
		}
		func() {
			defer func() {
				if r := recover(); r != nil {
					if f, ok := r.(mgFail); ok {
						skipped = append(skipped, [2]string{op.name, f.why})
						return
					}
					panic(r)
				}
			}()
			txt := mgTranslate(fd)
			sb.WriteString("-- @gen " + op.name + "\n" + txt + "\n")
			done = append(done, op.name)
		}()
	}
	sb.WriteString("-- @end\n\ndef translated : List String := [" + strings.Join(mapStr(done, leanStr), ", ") + "]\n\ndef skipped : List (String × String) := [")
	for i, s := range skipped {
		if i > 0 {
			sb.WriteString(", ")
		}
		sb.WriteString("(" + leanStr(s[0]) + ", " + leanStr(s[1]) + ")")
	}
	sb.WriteString("]\n\nend RoGen.Multi\n")
	if out != "" {
		writeIfChanged(filepath.Join(out, "MultiGen.lean"), sb.String())
	} else {
		fmt.Print(sb.String())
	}
}

package main

// extract: regenerates the fact tables lean/RoGen/*.lean (and a JSON copy for diagnostics) from
// the Go sources of the repository under check. The tables record *semantic attributes of how
// the source is written* that no finite amount of running can settle (constructor mode,
// pass-through, emission contexts, context provenance, state placement, blocking in Subscribe,
// recovered goroutines). Anything not recognised becomes an explicit "unknown" value, which the
// Lean predicates reject.

import (
	"encoding/json"
	"flag"
	"fmt"
	"go/ast"
	"go/parser"
	"go/token"
	"os"
	"path/filepath"
	"sort"
	"strings"
)

type GoFact struct {
	Line      int
	Recovered bool
	CallsUser bool
	Emits     bool
	Kind      string // "go" | "afterfunc"
}

type CtxRow struct {
	Line int
	Kind string // next | error | complete | subscribe
	Prov string // param | subscriber | derived | stored | lastSeen | background | todo | unknown
}

type StateRow struct {
	Var        string
	DeclScope  string // construction | application
	WriteScope string // application | subscription
	Line       int
}

type OpFact struct {
	Name           string
	File           string
	Line           int
	Ctor           string // safe | unsafe | eventuallySafe | unknown
	PassThrough    bool
	Feeders        int
	AsyncEmit      bool
	SubBodyEmits   bool
	Waits          int  // .Wait() calls reachable without crossing a go statement
	RecvOutsideGo  bool // channel receive / select / range over channel outside go bodies
	Sleeps         bool
	Returns        string // unsub | composite | closure | nil | mixed | other
	Discarded      int    // SubscribeWithContext results not kept / not added to a subscription
	SubscribeSites int
	GoStmts        []GoFact
	CtxRows        []CtxRow
	StateRows      []StateRow
}

var fset = token.NewFileSet()

// further tables, one generator per file of this package (registered from init)

func line(p token.Pos) int { return fset.Position(p).Line }

func isCtorName(n string) (string, bool) {
	switch n {
	case "NewUnsafeObservableWithContext", "NewUnsafeObservable":
		return "unsafe", true
	case "NewObservableWithContext", "NewObservable", "NewSafeObservableWithContext", "NewSafeObservable":
		return "safe", true
	case "NewEventuallySafeObservableWithContext", "NewEventuallySafeObservable":
		return "eventuallySafe", true
	case "NewObservableWithConcurrencyMode":
		return "unknown", true
	}
	return "", false
}

func calleeName(c *ast.CallExpr) string {
	switch f := c.Fun.(type) {
	case *ast.Ident:
		return f.Name
	case *ast.SelectorExpr:
		return f.Sel.Name
	case *ast.IndexExpr:
		if id, ok := f.X.(*ast.Ident); ok {
			return id.Name
		}
		if s, ok := f.X.(*ast.SelectorExpr); ok {
			return s.Sel.Name
		}
	case *ast.IndexListExpr:
		if id, ok := f.X.(*ast.Ident); ok {
			return id.Name
		}
	}
	return ""
}

func isDestMethod(e ast.Expr) (string, bool) {
	s, ok := e.(*ast.SelectorExpr)
	if !ok {
		return "", false
	}
	id, ok := s.X.(*ast.Ident)
	if !ok || id.Name != "destination" {
		return "", false
	}
	switch s.Sel.Name {
	case "NextWithContext", "Next":
		return "next", true
	case "ErrorWithContext", "Error":
		return "error", true
	case "CompleteWithContext", "Complete":
		return "complete", true
	}
	return "", false
}

// parents: child node -> parent node, for one function
type parents map[ast.Node]ast.Node

func buildParents(root ast.Node) parents {
	p := parents{}
	var stack []ast.Node
	ast.Inspect(root, func(n ast.Node) bool {
		if n == nil {
			stack = stack[:len(stack)-1]
			return true
		}
		if len(stack) > 0 {
			p[n] = stack[len(stack)-1]
		}
		stack = append(stack, n)
		return true
	})
	return p
}

func (p parents) enclosingFuncs(n ast.Node) []ast.Node { // innermost first
	var out []ast.Node
	for cur := p[n]; cur != nil; cur = p[cur] {
		switch cur.(type) {
		case *ast.FuncLit, *ast.FuncDecl:
			out = append(out, cur)
		}
	}
	return out
}

func (p parents) insideGo(n ast.Node, stop ast.Node) bool {
	for cur := p[n]; cur != nil && cur != stop; cur = p[cur] {
		if _, ok := cur.(*ast.GoStmt); ok {
			return true
		}
		if c, ok := cur.(*ast.CallExpr); ok && calleeName(c) == "AfterFunc" {
			return true
		}
	}
	return false
}

func (p parents) insideLoop(n ast.Node, stop ast.Node) bool {
	for cur := p[n]; cur != nil && cur != stop; cur = p[cur] {
		switch cur.(type) {
		case *ast.ForStmt, *ast.RangeStmt:
			return true
		}
	}
	return false
}

func funcType(n ast.Node) *ast.FuncType {
	switch f := n.(type) {
	case *ast.FuncLit:
		return f.Type
	case *ast.FuncDecl:
		return f.Type
	}
	return nil
}

func isCtxType(e ast.Expr) bool {
	s, ok := e.(*ast.SelectorExpr)
	if !ok {
		return false
	}
	id, ok := s.X.(*ast.Ident)
	return ok && id.Name == "context" && s.Sel.Name == "Context"
}

func ctxParams(ft *ast.FuncType) map[string]bool {
	out := map[string]bool{}
	if ft == nil || ft.Params == nil {
		return out
	}
	for _, f := range ft.Params.List {
		if isCtxType(f.Type) {
			for _, n := range f.Names {
				out[n.Name] = true
			}
		}
	}
	return out
}

type analyzer struct {
	decl    *ast.FuncDecl
	par     parents
	subFn   *ast.FuncLit // the subscribe closure
	appFn   *ast.FuncLit // func(source) Observable, may be nil
	userFns map[string]bool
	fact    *OpFact
	emitsFn map[*ast.FuncLit]bool
	localFn map[string]*ast.FuncLit // local closures by variable name
}

func (a *analyzer) within(n, outer ast.Node) bool {
	if outer == nil {
		return false
	}
	return n.Pos() >= outer.Pos() && n.End() <= outer.End()
}

// provenance of a context expression used at node `at`
func (a *analyzer) prov(e ast.Expr, at ast.Node, depth int) string {
	if depth > 4 {
		return "unknown"
	}
	switch x := e.(type) {
	case *ast.Ident:
		if x.Name == "nil" {
			return "nil"
		}
		// parameter of an enclosing function?
		for _, f := range a.par.enclosingFuncs(at) {
			if ctxParams(funcType(f))[x.Name] {
				if f == ast.Node(a.subFn) {
					return "subscriber"
				}
				if a.within(f, a.subFn) {
					// if this parameter was re-assigned inside the callback from a call, it is derived
					return a.reassigned(x.Name, f, "param", depth)
				}
				return "outer"
			}
		}
		// local variable: look at how it is assigned
		return a.localProv(x, at, depth)
	case *ast.SelectorExpr:
		if x.Sel.Name == "A" {
			return "stored"
		}
		return "unknown"
	case *ast.TypeAssertExpr:
		// lastCtx.Load().(context.Context): an atomic holder written from callback contexts
		if c, ok := x.X.(*ast.CallExpr); ok && calleeName(c) == "Load" {
			return "lastSeen"
		}
		return "unknown"
	case *ast.CallExpr:
		name := calleeName(x)
		if id, ok := x.Fun.(*ast.Ident); ok && a.userFns[id.Name] {
			// the result of a user callback applied to a well-provenanced context
			for _, arg := range x.Args {
				p := a.prov(arg, at, depth+1)
				if p == "param" || p == "subscriber" || p == "derived" || p == "stored" {
					return "derived"
				}
			}
			return "unknown"
		}
		if s, ok := x.Fun.(*ast.SelectorExpr); ok {
			if id, ok := s.X.(*ast.Ident); ok && id.Name == "context" {
				switch name {
				case "Background":
					return "background"
				case "TODO":
					return "todo"
				case "WithValue", "WithTimeout", "WithDeadline", "WithCancel", "WithoutCancel", "WithCancelCause", "WithTimeoutCause", "WithDeadlineCause":
					if len(x.Args) > 0 {
						p := a.prov(x.Args[0], at, depth+1)
						if p == "param" || p == "subscriber" || p == "derived" || p == "stored" {
							return "derived"
						}
						return p
					}
				}
			}
		}
		return "unknown"
	}
	return "unknown"
}

// was parameter `name` of function f re-assigned inside f (ctx, ok := predicate(ctx, …))?
func (a *analyzer) reassigned(name string, f ast.Node, dflt string, depth int) string {
	res := dflt
	ast.Inspect(f, func(n ast.Node) bool {
		as, ok := n.(*ast.AssignStmt)
		if !ok {
			return true
		}
		for _, l := range as.Lhs {
			if id, ok := l.(*ast.Ident); ok && id.Name == name && id.Obj != nil && id.Obj.Kind == ast.Var {
				// assigned from a call taking the same context → derived
				if len(as.Rhs) == 1 {
					if c, ok := as.Rhs[0].(*ast.CallExpr); ok && callTakes(c, name) {
						res = "derived"
						continue
					}
				}
				if as.Tok == token.ASSIGN {
					res = "unknown"
				}
			}
		}
		return true
	})
	return res
}

func callTakes(c *ast.CallExpr, name string) bool {
	for _, arg := range c.Args {
		if id, ok := arg.(*ast.Ident); ok && id.Name == name {
			return true
		}
	}
	return false
}

func (a *analyzer) localProv(x *ast.Ident, at ast.Node, depth int) string {
	if x.Obj == nil || x.Obj.Decl == nil {
		return "unknown"
	}
	switch d := x.Obj.Decl.(type) {
	case *ast.AssignStmt: // x, ok := call(ctx, …)
		if len(d.Rhs) == 1 {
			if c, ok := d.Rhs[0].(*ast.CallExpr); ok {
				for _, arg := range c.Args {
					p := a.prov(arg, d, depth+1)
					if p == "param" || p == "subscriber" || p == "derived" || p == "stored" {
						return "derived"
					}
				}
				if name := calleeName(c); name == "Background" || name == "TODO" {
					return a.prov(c, d, depth+1)
				}
			}
			if len(d.Lhs) == 1 {
				return a.prov(d.Rhs[0], d, depth+1)
			}
		}
		return "unknown"
	case *ast.ValueSpec: // var lastCtx context.Context  (zero value = nil until first assignment)
		if len(d.Values) == 0 {
			return "lastSeen"
		}
		return a.prov(d.Values[0], d, depth+1)
	case *ast.Field:
		return "outer"
	}
	return "unknown"
}

func (a *analyzer) computeEmits() {
	// local closures: name := func(...) {...}  /  var name = func
	a.localFn = map[string]*ast.FuncLit{}
	ast.Inspect(a.subFn, func(n ast.Node) bool {
		if as, ok := n.(*ast.AssignStmt); ok && len(as.Lhs) == 1 && len(as.Rhs) == 1 {
			if id, ok := as.Lhs[0].(*ast.Ident); ok {
				if fl, ok := as.Rhs[0].(*ast.FuncLit); ok {
					a.localFn[id.Name] = fl
				}
			}
		}
		return true
	})
	a.emitsFn = map[*ast.FuncLit]bool{}
	var lits []*ast.FuncLit
	ast.Inspect(a.subFn, func(n ast.Node) bool {
		if fl, ok := n.(*ast.FuncLit); ok {
			lits = append(lits, fl)
		}
		return true
	})
	changed := true
	for changed {
		changed = false
		for _, fl := range lits {
			if a.emitsFn[fl] {
				continue
			}
			if a.nodeEmits(fl.Body, fl) {
				a.emitsFn[fl] = true
				changed = true
			}
		}
	}
}

// does node n (excluding nested FuncLits other than via calls to local closures) emit downstream?
func (a *analyzer) nodeEmits(n ast.Node, self *ast.FuncLit) bool {
	found := false
	ast.Inspect(n, func(m ast.Node) bool {
		if found {
			return false
		}
		switch x := m.(type) {
		case *ast.FuncLit:
			if x != self {
				// a nested literal counts only if it is invoked/handed over right here: observer
				// callbacks are accounted for at their subscribe site
				return false
			}
		case *ast.SelectorExpr:
			if _, ok := isDestMethod(x); ok {
				found = true
			}
		case *ast.CallExpr:
			if id, ok := x.Fun.(*ast.Ident); ok {
				if fl, ok := a.localFn[id.Name]; ok && a.emitsFn[fl] {
					found = true
				}
			}
			for _, arg := range x.Args {
				if id, ok := arg.(*ast.Ident); ok && id.Name == "destination" {
					found = true
				}
			}
		}
		return true
	})
	return found
}

func (a *analyzer) exprEmits(e ast.Expr) bool {
	switch x := e.(type) {
	case *ast.Ident:
		if x.Name == "destination" {
			return true
		}
		if fl, ok := a.localFn[x.Name]; ok {
			return a.emitsFn[fl]
		}
	case *ast.FuncLit:
		return a.emitsFn[x]
	case *ast.SelectorExpr:
		_, ok := isDestMethod(x)
		return ok
	case *ast.CallExpr: // NewObserverWithContext(f, g, h), OnNextWithContext(f), …
		for _, arg := range x.Args {
			if a.exprEmits(arg) {
				return true
			}
		}
	}
	return false
}

func (a *analyzer) run() {
	f := a.fact
	a.computeEmits()
	subBody := a.subFn.Body

	// ---- subscribe sites, feeders, pass-through, discarded results
	ast.Inspect(subBody, func(n ast.Node) bool {
		c, ok := n.(*ast.CallExpr)
		if !ok {
			return true
		}
		name := calleeName(c)
		if name == "SubscribeWithContext" || name == "Subscribe" {
			if _, isSel := c.Fun.(*ast.SelectorExpr); !isSel {
				return true
			}
			f.SubscribeSites++
			obsArg := c.Args[len(c.Args)-1]
			if name == "SubscribeWithContext" && len(c.Args) == 2 {
				f.CtxRows = append(f.CtxRows, CtxRow{line(c.Pos()), "subscribe", a.prov(c.Args[0], c, 0)})
			}
			if id, ok := obsArg.(*ast.Ident); ok && id.Name == "destination" {
				f.PassThrough = true
			}
			if a.exprEmits(obsArg) {
				w := 1
				encl := a.par.enclosingFuncs(c)
				nested := len(encl) > 0 && encl[0] != ast.Node(a.subFn)
				switch {
				case nested && a.isTerminalCallback(encl[0]):
					// subscribed from the Error/Complete-position callback of another observer: a
					// successor that starts after that source has terminated, not a concurrent feeder
					w = 0
					if f.Feeders == 0 {
						w = 1
					}
				case nested && a.isNextCallback(encl[0]) && a.waitsNear(c):
					// subscribed from a Next callback that waits for it (ConcatAll): serialised inside
					// the parent's callback
					w = 0
				case nested && a.isNextCallback(encl[0]):
					w = 2 // one live inner subscription per outer value
				case a.par.insideLoop(c, a.subFn) && !a.waitsNear(c):
					w = 2
				}
				f.Feeders += w
			}
			// is the result kept?
			if p, ok := a.par[c].(*ast.ExprStmt); ok && p != nil {
				f.Discarded++
			}
		}
		if name == "Wait" {
			if s, ok := c.Fun.(*ast.SelectorExpr); ok && len(c.Args) == 0 && s.Sel.Name == "Wait" {
				if !a.par.insideGo(c, a.subFn) {
					f.Waits++
				}
			}
		}
		if name == "Sleep" {
			if !a.par.insideGo(c, a.subFn) {
				f.Sleeps = true
			}
		}
		if name == "AfterFunc" && len(c.Args) == 2 {
			g := GoFact{Line: line(c.Pos()), Kind: "afterfunc", Recovered: false}
			g.Emits = a.exprEmits(c.Args[1])
			g.CallsUser = a.callsUser(c.Args[1])
			f.GoStmts = append(f.GoStmts, g)
			if g.Emits {
				f.AsyncEmit = true
				f.Feeders++
			}
		}
		// destination.X(ctx, …) calls
		if kind, ok := isDestMethod(c.Fun); ok {
			if strings.HasSuffix(calleeName(c), "WithContext") && len(c.Args) >= 1 {
				f.CtxRows = append(f.CtxRows, CtxRow{line(c.Pos()), kind, a.prov(c.Args[0], c, 0)})
			} else {
				f.CtxRows = append(f.CtxRows, CtxRow{line(c.Pos()), kind, "background"})
			}
			encl := a.par.enclosingFuncs(c)
			if len(encl) > 0 && encl[0] == ast.Node(a.subFn) && !a.par.insideGo(c, a.subFn) {
				f.SubBodyEmits = true
			}
		}
		return true
	})
	// method values handed over as callbacks forward their context parameter unchanged
	ast.Inspect(subBody, func(n ast.Node) bool {
		c, ok := n.(*ast.CallExpr)
		if !ok {
			return true
		}
		for _, arg := range c.Args {
			if kind, ok := isDestMethod(arg); ok {
				f.CtxRows = append(f.CtxRows, CtxRow{line(arg.Pos()), kind, "param"})
			}
		}
		return true
	})

	// ---- go statements
	ast.Inspect(subBody, func(n ast.Node) bool {
		g, ok := n.(*ast.GoStmt)
		if !ok {
			return true
		}
		gf := GoFact{Line: line(g.Pos()), Kind: "go"}
		if calleeName(g.Call) == "recoverUnhandledError" {
			gf.Recovered = true
		}
		gf.Emits = a.nodeEmitsDeep(g)
		gf.CallsUser = a.callsUser(g)
		f.GoStmts = append(f.GoStmts, gf)
		if gf.Emits {
			f.AsyncEmit = true
			f.Feeders++
		}
		return true
	})

	// ---- blocking receives outside go bodies (directly, or through a local closure called there)
	chanVars := map[string]bool{}
	ast.Inspect(a.decl, func(n ast.Node) bool {
		if as, ok := n.(*ast.AssignStmt); ok && len(as.Lhs) == 1 && len(as.Rhs) == 1 {
			if c, ok := as.Rhs[0].(*ast.CallExpr); ok && calleeName(c) == "make" && len(c.Args) > 0 {
				if _, ok := c.Args[0].(*ast.ChanType); ok {
					if id, ok := as.Lhs[0].(*ast.Ident); ok {
						chanVars[id.Name] = true
					}
				}
			}
		}
		return true
	})
	blocksHere := func(n ast.Node) bool {
		switch x := n.(type) {
		case *ast.UnaryExpr:
			return x.Op == token.ARROW
		case *ast.SelectStmt:
			return true
		case *ast.RangeStmt:
			if id, ok := x.X.(*ast.Ident); ok && chanVars[id.Name] {
				return true
			}
		}
		return false
	}
	blocksFn := map[*ast.FuncLit]bool{}
	for changed := true; changed; {
		changed = false
		for _, fl := range a.localFn {
			if blocksFn[fl] {
				continue
			}
			ast.Inspect(fl.Body, func(n ast.Node) bool {
				if n == nil || blocksFn[fl] {
					return false
				}
				if g, ok := n.(*ast.GoStmt); ok && g != nil {
					return false
				}
				if blocksHere(n) {
					blocksFn[fl] = true
					changed = true
					return false
				}
				if c, ok := n.(*ast.CallExpr); ok {
					if id, ok := c.Fun.(*ast.Ident); ok {
						if g, ok := a.localFn[id.Name]; ok && blocksFn[g] {
							blocksFn[fl] = true
							changed = true
							return false
						}
					}
				}
				return true
			})
		}
	}
	ast.Inspect(subBody, func(n ast.Node) bool {
		if n == nil {
			return false
		}
		if a.par.insideGo(n, a.subFn) {
			return true
		}
		if blocksHere(n) {
			// inside a local closure only counts where that closure is called (below)
			encl := a.par.enclosingFuncs(n)
			if len(encl) > 0 {
				if fl, ok := encl[0].(*ast.FuncLit); ok {
					for _, g := range a.localFn {
						if g == fl {
							return true
						}
					}
				}
			}
			f.RecvOutsideGo = true
		}
		if c, ok := n.(*ast.CallExpr); ok {
			if id, ok := c.Fun.(*ast.Ident); ok {
				if g, ok := a.localFn[id.Name]; ok && blocksFn[g] {
					// called on the subscribing goroutine (not from inside another non-invoked literal)
					encl := a.par.enclosingFuncs(c)
					if len(encl) > 0 && encl[0] == ast.Node(a.subFn) {
						f.RecvOutsideGo = true
					}
				}
			}
		}
		return true
	})

	// ---- what the subscribe closure returns
	rets := map[string]bool{}
	ast.Inspect(subBody, func(n ast.Node) bool {
		if fl, ok := n.(*ast.FuncLit); ok && fl != a.subFn {
			return false
		}
		r, ok := n.(*ast.ReturnStmt)
		if !ok || len(r.Results) != 1 {
			return true
		}
		switch x := r.Results[0].(type) {
		case *ast.Ident:
			if x.Name == "nil" {
				rets["nil"] = true
			} else {
				rets["other"] = true
			}
		case *ast.SelectorExpr:
			if x.Sel.Name == "Unsubscribe" {
				if id, ok := x.X.(*ast.Ident); ok && (strings.HasPrefix(id.Name, "subscriptions") || id.Name == "subs") {
					rets["composite"] = true
				} else {
					rets["unsub"] = true
				}
			} else {
				rets["other"] = true
			}
		case *ast.FuncLit:
			calls := false
			ast.Inspect(x, func(m ast.Node) bool {
				if c, ok := m.(*ast.CallExpr); ok && calleeName(c) == "Unsubscribe" {
					calls = true
				}
				return true
			})
			if calls {
				rets["closure"] = true
			} else {
				rets["closure-nounsub"] = true
			}
		default:
			rets["other"] = true
		}
		return true
	})
	var rs []string
	for k := range rets {
		rs = append(rs, k)
	}
	sort.Strings(rs)
	f.Returns = strings.Join(rs, "+")
	if f.Returns == "" {
		f.Returns = "none"
	}

	// ---- state placement: writes to variables declared outside the subscribe closure
	a.statePlacement()

	sort.Slice(f.CtxRows, func(i, j int) bool {
		if f.CtxRows[i].Line != f.CtxRows[j].Line {
			return f.CtxRows[i].Line < f.CtxRows[j].Line
		}
		return f.CtxRows[i].Kind < f.CtxRows[j].Kind
	})
}

// is f the first (Next-position) callback argument of an observer constructor?
func (a *analyzer) isNextCallback(f ast.Node) bool {
	fl, ok := f.(*ast.FuncLit)
	if !ok {
		return false
	}
	c, ok := a.par[fl].(*ast.CallExpr)
	if !ok {
		return false
	}
	name := calleeName(c)
	if name == "OnNextWithContext" || name == "OnNext" {
		return true
	}
	if (name == "NewObserverWithContext" || name == "NewObserver") && len(c.Args) > 0 && c.Args[0] == ast.Expr(fl) {
		return true
	}
	return false
}

// is f the Error- or Complete-position callback argument of an observer constructor?
func (a *analyzer) isTerminalCallback(f ast.Node) bool {
	fl, ok := f.(*ast.FuncLit)
	if !ok {
		return false
	}
	c, ok := a.par[fl].(*ast.CallExpr)
	if !ok {
		return false
	}
	name := calleeName(c)
	if name == "OnErrorWithContext" || name == "OnError" || name == "OnCompleteWithContext" || name == "OnComplete" {
		return true
	}
	if (name == "NewObserverWithContext" || name == "NewObserver") && len(c.Args) == 3 && (c.Args[1] == ast.Expr(fl) || c.Args[2] == ast.Expr(fl)) {
		return true
	}
	return false
}

// does the enclosing callback wait for the subscription it has just made (ConcatAll style)?
func (a *analyzer) waitsNear(c *ast.CallExpr) bool {
	encl := a.par.enclosingFuncs(c)
	if len(encl) == 0 {
		return false
	}
	waits := false
	ast.Inspect(encl[0], func(n ast.Node) bool {
		if cc, ok := n.(*ast.CallExpr); ok && calleeName(cc) == "Wait" {
			waits = true
		}
		return true
	})
	return waits
}

func (a *analyzer) nodeEmitsDeep(n ast.Node) bool {
	found := false
	ast.Inspect(n, func(m ast.Node) bool {
		switch x := m.(type) {
		case *ast.SelectorExpr:
			if _, ok := isDestMethod(x); ok {
				found = true
			}
		case *ast.CallExpr:
			if id, ok := x.Fun.(*ast.Ident); ok {
				if fl, ok := a.localFn[id.Name]; ok && a.emitsFn[fl] {
					found = true
				}
			}
		}
		return true
	})
	return found
}

func (a *analyzer) callsUser(n ast.Node) bool {
	found := false
	ast.Inspect(n, func(m ast.Node) bool {
		if c, ok := m.(*ast.CallExpr); ok {
			if id, ok := c.Fun.(*ast.Ident); ok && a.userFns[id.Name] {
				found = true
			}
		}
		return true
	})
	return found
}

func (a *analyzer) scopeOf(pos token.Pos) string {
	if a.subFn != nil && pos >= a.subFn.Pos() && pos < a.subFn.End() {
		return "subscription"
	}
	if a.appFn != nil && pos >= a.appFn.Pos() && pos < a.appFn.End() {
		return "application"
	}
	return "construction"
}

func rootIdent(e ast.Expr) *ast.Ident {
	for {
		switch x := e.(type) {
		case *ast.Ident:
			return x
		case *ast.IndexExpr:
			e = x.X
		case *ast.SelectorExpr:
			e = x.X
		case *ast.StarExpr:
			e = x.X
		case *ast.ParenExpr:
			e = x.X
		default:
			return nil
		}
	}
}

func (a *analyzer) statePlacement() {
	record := func(lhs ast.Expr, at ast.Node) {
		id := rootIdent(lhs)
		if id == nil || id.Obj == nil || id.Obj.Kind != ast.Var || id.Name == "_" {
			return
		}
		declPos := id.Obj.Pos()
		if declPos < a.decl.Pos() || declPos >= a.decl.End() {
			return // package-level: not ours
		}
		ds, ws := a.scopeOf(declPos), a.scopeOf(at.Pos())
		if ds == ws || ds == "subscription" {
			return
		}
		a.fact.StateRows = append(a.fact.StateRows, StateRow{id.Name, ds, ws, line(at.Pos())})
	}
	ast.Inspect(a.decl, func(n ast.Node) bool {
		switch x := n.(type) {
		case *ast.AssignStmt:
			if x.Tok == token.DEFINE {
				// := may still re-assign an existing outer variable in a mixed define; the parser
				// resolves those to the outer object only when they are not new, handled below
				for _, l := range x.Lhs {
					if id, ok := l.(*ast.Ident); ok && id.Obj != nil && id.Obj.Decl != ast.Node(x) {
						record(l, x)
					}
				}
				return true
			}
			for _, l := range x.Lhs {
				record(l, x)
			}
		case *ast.IncDecStmt:
			record(x.X, x)
		case *ast.CallExpr:
			// a write the assignment scan does not see: a method call on / delete / clear / copy of a captured
			// object that was created as a fresh mutable value in an outer scope (closures.go)
			if id, _ := mutatedByCall(x); id != nil {
				record(id, x)
			}
		}
		return true
	})
}

var factoryTable []FactoryRow

func analyzeFile(path, rel string, out *[]OpFact) error {
	file, err := parser.ParseFile(fset, path, nil, parser.ParseComments)
	if err != nil {
		return err
	}
	factoryFiles = append(factoryFiles, file)
	for _, d := range file.Decls {
		fd, ok := d.(*ast.FuncDecl)
		if ok && fd.Body != nil && fd.Recv != nil && !hasCtorCall(fd) {
			factoryTable = append(factoryTable, factoryRows(fd)...) // methods that return closures (precisionRoundMode)
		}
		if !ok || fd.Body == nil || fd.Recv != nil {
			continue
		}
		if !hasCtorCall(fd) {
			factoryTable = append(factoryTable, factoryRows(fd)...)
			continue
		}
		// every constructor call inside this function is one operator body
		par := buildParents(fd)
		userFns := map[string]bool{}
		for _, fld := range fd.Type.Params.List {
			if _, ok := fld.Type.(*ast.FuncType); ok {
				for _, n := range fld.Names {
					userFns[n.Name] = true
				}
			}
		}
		idx := 0
		ast.Inspect(fd, func(n ast.Node) bool {
			c, ok := n.(*ast.CallExpr)
			if !ok {
				return true
			}
			ctor, ok := isCtorName(calleeName(c))
			if !ok || len(c.Args) < 1 {
				return true
			}
			sub, ok := c.Args[0].(*ast.FuncLit)
			if !ok {
				return true
			}
			name := fd.Name.Name
			if idx > 0 {
				name = fmt.Sprintf("%s#%d", name, idx)
			}
			idx++
			fact := OpFact{Name: name, File: rel, Line: line(c.Pos()), Ctor: ctor}
			a := &analyzer{decl: fd, par: par, subFn: sub, userFns: userFns, fact: &fact}
			// application closure: the innermost FuncLit enclosing the constructor call
			for _, f := range par.enclosingFuncs(c) {
				if fl, ok := f.(*ast.FuncLit); ok {
					a.appFn = fl
				}
			}
			a.run()
			*out = append(*out, fact)
			return true
		})
	}
	return nil
}

// ---------------------------------------------------------------- Lean output

func leanStr(s string) string { return "\"" + strings.ReplaceAll(s, "\"", "\\\"") + "\"" }
func leanBool(b bool) string {
	if b {
		return "true"
	}
	return "false"
}

func writeIfChanged(path, content string) {
	old, err := os.ReadFile(path)
	if err == nil && string(old) == content {
		return
	}
	os.WriteFile(path, []byte(content), 0o644)
}

func main() {
	repo := flag.String("repo", "/repo", "repository root")
	out := flag.String("out", "", "directory for RoGen/*.lean")
	opsOnly := flag.Bool("opgen", false, "print the translated operator machines (OpsGen.lean) to stdout and exit")
	flag.Parse()
	if *opsOnly {
		if err := runOpgen(*repo, ""); err != nil {
			fmt.Fprintln(os.Stderr, "opgen:", err)
			os.Exit(1)
		}
		return
	}
	var facts []OpFact
	files, _ := filepath.Glob(filepath.Join(*repo, "operator_*.go"))
	sort.Strings(files)
	for _, p := range files {
		if strings.HasSuffix(p, "_test.go") {
			continue
		}
		if err := analyzeFile(p, filepath.Base(p), &facts); err != nil {
			fmt.Fprintln(os.Stderr, "parse error:", err)
			os.Exit(1)
		}
	}
	var sb strings.Builder
	sb.WriteString("-- GENERATED by go/extract from the repository under check. Do not edit.\nimport RoModel.Facts\nnamespace RoGen.Catalogue\nopen Ro.Facts\n\n")
	sb.WriteString("def table : List OpFact := [\n")
	for i, f := range facts {
		var gos, ctxs, sts []string
		for _, g := range f.GoStmts {
			gos = append(gos, fmt.Sprintf("{ line := %d, kind := %s, recovered := %s, callsUser := %s, emits := %s }", g.Line, leanStr(g.Kind), leanBool(g.Recovered), leanBool(g.CallsUser), leanBool(g.Emits)))
		}
		for _, c := range f.CtxRows {
			ctxs = append(ctxs, fmt.Sprintf("{ line := %d, kind := %s, prov := .%s }", c.Line, leanStr(c.Kind), provCtor(c.Prov)))
		}
		for _, s := range f.StateRows {
			sts = append(sts, fmt.Sprintf("{ var := %s, declScope := %s, writeScope := %s, line := %d }", leanStr(s.Var), leanStr(s.DeclScope), leanStr(s.WriteScope), s.Line))
		}
		sb.WriteString(fmt.Sprintf("  { name := %s, file := %s, ctor := .%s, passThrough := %s, feeders := %d, asyncEmit := %s, subBodyEmits := %s,\n    waits := %d, recvOutsideGo := %s, sleeps := %s, returns := %s, discarded := %d, subscribeSites := %d,\n    goStmts := [%s],\n    ctxRows := [%s],\n    stateRows := [%s] }",
			leanStr(f.Name), leanStr(f.File), ctorName(f.Ctor), leanBool(f.PassThrough), f.Feeders, leanBool(f.AsyncEmit), leanBool(f.SubBodyEmits),
			f.Waits, leanBool(f.RecvOutsideGo), leanBool(f.Sleeps), leanStr(f.Returns), f.Discarded, f.SubscribeSites,
			strings.Join(gos, ", "), strings.Join(ctxs, ", "), strings.Join(sts, ", ")))
		if i+1 < len(facts) {
			sb.WriteString(",\n")
		} else {
			sb.WriteString("\n")
		}
	}
	sb.WriteString("]\n\n/-- closures.go: writes, by a function literal that a helper function returns, to a variable declared in the helper's\n    body (state shared by every use of the returned function): (helper, variable, how, line) -/\ndef factoryStateRows : List (String × String × String × Nat) := [\n")
	perSub := perSubscriptionHelpers()
	var shared []FactoryRow
	for _, r := range factoryTable {
		if !perSub[r.Fn] {
			shared = append(shared, r)
		}
	}
	factoryTable = shared
	for i, r := range factoryTable {
		sep := ","
		if i+1 == len(factoryTable) {
			sep = ""
		}
		sb.WriteString(fmt.Sprintf("  (%s, %s, %s, %d)%s\n", leanStr(r.Fn), leanStr(r.Var), leanStr(r.How), r.Line, sep))
	}
	sb.WriteString("]\n\nend RoGen.Catalogue\n")
	if *out != "" {
		os.MkdirAll(*out, 0o755)
	}
	for _, t := range extraTables {
		t(*repo, *out)
	}
	if *out != "" {
		writeIfChanged(filepath.Join(*out, "Catalogue.lean"), sb.String())
		emitDelegation(*repo, *out) // delegation.go
		emitPipe(*repo, *out)       // pipe.go
		emitKernel(*repo, *out)
		js, _ := json.MarshalIndent(facts, "", " ")
		writeIfChanged(filepath.Join(*out, "catalogue.json"), string(js)+"\n")
		if err := emitPlugins(*repo, *out); err != nil {
			fmt.Fprintln(os.Stderr, "plugins table:", err)
			os.Exit(1)
		}
		writeIfChanged(filepath.Join(*out, "ChanShape.lean"), chanShapeLean(chanShapes(*repo)))
		// the operator translator (opgen.go): lean/RoGen/OpsGen.lean
		if err := runOpgen(*repo, *out); err != nil {
			fmt.Fprintln(os.Stderr, "opgen:", err)
			os.Exit(1)
		}
		writeFaultFacts(*repo, *out)
	} else {
		js, _ := json.MarshalIndent(facts, "", " ")
		fmt.Println(string(js))
	}
}

func ctorName(c string) string {
	switch c {
	case "safe":
		return "safeC"
	case "unsafe":
		return "unsafeC"
	case "eventuallySafe":
		return "evSafeC"
	}
	return "unknownC"
}

func provCtor(p string) string {
	switch p {
	case "param", "subscriber", "derived", "stored", "lastSeen", "background", "todo", "outer":
		return p
	case "nil":
		return "nilCtx"
	}
	return "unknown"
}

package main

// buildtime.go — what an operator does BEFORE anybody subscribes (property C12: "a pipeline is a reusable recipe: building
// it does nothing, every subscription starts from scratch").
//
// One row per call / composite literal, in a non-test operator_*.go file, that reads ambient state or creates an object
// with identity OUTSIDE every subscribe function (a function literal with a parameter named `destination`, or a literal
// nested in one) — i.e. when the operator value is constructed or when it is applied to its source, once for all
// subscriptions of the resulting observable:
//
//   clock / randomness   time.Now Since Until After Tick NewTimer NewTicker AfterFunc, rand.* , xrand.*
//   identity objects     make(chan …), sync.X{} / &sync.X{} / new(sync.X) / `var x sync.X`, xsync.New*(…), NewSubscription(…),
//                        New*Subject(…), context.With*(…), atomic.*(…)
//
// A deadline computed from `time.Now()` at application time, a `sync.Once` or a channel created per observable value, a
// subject created per operator value: each is state shared by every subscription, visible only from the second
// subscription on (or after time has passed). Rows of functions that are hot by definition (Share*, the connectable
// observable) are listed as known in lean/RoModel/BuildTimeFacts.lean; everything else must be empty
// (RoProps/C12.buildtime_rows, decided by the kernel on the regenerated table).
//
// Output: lean/RoGen/BuildTime.lean (+ buildtime.json for the diagnosis in tools/checks/C12.py).

import (
	"encoding/json"
	"fmt"
	"go/ast"
	"go/parser"
	"go/token"
	"os"
	"path/filepath"
	"sort"
	"strings"
)

func init() { extraTables = append(extraTables, extractBuildTime) }

type BuildRow struct {
	Fn, File, What, Scope string
	Line                  int
}

func btSelector(e ast.Expr) (string, string, bool) {
	se, ok := e.(*ast.SelectorExpr)
	if !ok {
		return "", "", false
	}
	id, ok := se.X.(*ast.Ident)
	if !ok {
		return "", "", false
	}
	return id.Name, se.Sel.Name, true
}

func btTypeName(e ast.Expr) string {
	if p, n, ok := btSelector(e); ok {
		return p + "." + n
	}
	return ""
}

func btCall(c *ast.CallExpr) string {
	fn := c.Fun
	if ix, ok := fn.(*ast.IndexExpr); ok {
		fn = ix.X
	}
	if ix, ok := fn.(*ast.IndexListExpr); ok {
		fn = ix.X
	}
	if pkg, name, ok := btSelector(fn); ok {
		switch pkg {
		case "time":
			switch name {
			case "Now", "Since", "Until", "After", "Tick", "NewTimer", "NewTicker", "AfterFunc":
				return "time." + name
			}
		case "rand", "xrand":
			return pkg + "." + name
		case "xsync":
			if strings.HasPrefix(name, "New") {
				return "xsync." + name
			}
		case "context":
			if strings.HasPrefix(name, "With") {
				return "context." + name
			}
		case "atomic":
			return "atomic." + name
		case "ro":
			// plugins: a hot construct of the core created per operator value / per application is shared by every
			// subscription (and every pipeline) built from it
			if strings.HasPrefix(name, "Share") || strings.HasPrefix(name, "NewConnectable") || name == "Connectable" ||
				(strings.HasPrefix(name, "New") && strings.HasSuffix(name, "Subject")) {
				return "ro." + name
			}
		}
	}
	if id, ok := fn.(*ast.Ident); ok {
		switch {
		case id.Name == "make" && len(c.Args) > 0:
			if _, isChan := c.Args[0].(*ast.ChanType); isChan {
				return "make(chan)"
			}
		case id.Name == "new" && len(c.Args) == 1:
			if t := btTypeName(c.Args[0]); strings.HasPrefix(t, "sync.") {
				return "new(" + t + ")"
			}
		case id.Name == "NewSubscription":
			return "NewSubscription"
		case strings.HasPrefix(id.Name, "New") && strings.HasSuffix(id.Name, "Subject"):
			return id.Name
		}
	}
	return ""
}

func extractBuildTime(repo, out string) {
	files, _ := filepath.Glob(filepath.Join(repo, "operator_*.go"))
	// the plugins' operators (compositions of core operators, in packages of their own)
	for _, pat := range []string{"plugins/*/operator*.go", "plugins/*/*/operator*.go", "ee/plugins/*/operator*.go"} {
		more, _ := filepath.Glob(filepath.Join(repo, pat))
		files = append(files, more...)
	}
	sort.Strings(files)
	var rows []BuildRow
	for _, path := range files {
		if strings.HasSuffix(path, "_test.go") {
			continue
		}
		file, err := parser.ParseFile(fset, path, nil, 0)
		if err != nil {
			continue
		}
		rel, rerr := filepath.Rel(repo, path)
		if rerr != nil {
			rel = filepath.Base(path)
		}
		for _, d := range file.Decls {
			fd, ok := d.(*ast.FuncDecl)
			if !ok || fd.Body == nil {
				continue
			}
			if strings.Contains(rel, "/") {
				// a plugin file: only operator constructors (functions that return the operator, a function value); helpers that
				// run per item are not construction-time code
				isCtor := fd.Type.Results != nil && len(fd.Type.Results.List) == 1
				if isCtor {
					_, isCtor = fd.Type.Results.List[0].Type.(*ast.FuncType)
				}
				if !isCtor {
					continue
				}
			}
			// a top-level function that itself takes `destination` runs per subscription (helper of a subscribe function)
			perSub := false
			for _, f := range fd.Type.Params.List {
				for _, n := range f.Names {
					if n.Name == "destination" {
						perSub = true
					}
				}
			}
			if perSub {
				continue
			}
			var walk func(n ast.Node, scope string)
			walk = func(n ast.Node, scope string) {
				ast.Inspect(n, func(x ast.Node) bool {
					switch v := x.(type) {
					case *ast.FuncLit:
						if v == n {
							return true
						}
						isSub := false
						for _, f := range v.Type.Params.List {
							for _, nm := range f.Names {
								if nm.Name == "destination" {
									isSub = true
								}
							}
						}
						if isSub {
							return false // per subscription: fine
						}
						// a literal that takes the source (`func(source Observable[T])`) runs at application time; any other
						// literal outside a subscribe function (a callback, a helper closure) is not executed at build time
						// by itself: only literals of the application shape are followed
						app := len(v.Type.Params.List) == 1 && v.Type.Results != nil && len(v.Type.Results.List) == 1
						if app {
							if ix, ok := v.Type.Params.List[0].Type.(*ast.IndexExpr); ok {
								if id, ok := ix.X.(*ast.Ident); ok && id.Name == "Observable" {
									walk(v.Body, "application")
								}
							}
						}
						return false
					case *ast.CallExpr:
						if w := btCall(v); w != "" && !(strings.Contains(rel, "/") && (strings.HasPrefix(w, "xrand.") || strings.HasPrefix(w, "rand."))) {
							// (the random-string helpers of plugins/strings and plugins/bytes return per-item functions: their
							// reads of the random source happen per item)
							rows = append(rows, BuildRow{fd.Name.Name, rel, w, scope, line(v.Pos())})
						}
					case *ast.CompositeLit:
						if t := btTypeName(v.Type); strings.HasPrefix(t, "sync.") {
							rows = append(rows, BuildRow{fd.Name.Name, rel, t + "{}", scope, line(v.Pos())})
						}
					case *ast.DeclStmt:
						if gd, ok := v.Decl.(*ast.GenDecl); ok && gd.Tok == token.VAR {
							for _, sp := range gd.Specs {
								if vs, ok := sp.(*ast.ValueSpec); ok && vs.Type != nil {
									if t := btTypeName(vs.Type); strings.HasPrefix(t, "sync.") {
										rows = append(rows, BuildRow{fd.Name.Name, rel, "var " + t, scope, line(v.Pos())})
									}
								}
							}
						}
					}
					return true
				})
			}
			walk(fd.Body, "construction")
		}
	}
	var sb strings.Builder
	sb.WriteString("-- GENERATED by go/extract (buildtime.go) from the repository under check. Do not edit.\nimport RoModel.BuildTimeFacts\nnamespace RoGen.BuildTime\nopen Ro\n\n")
	sb.WriteString("/-- ambient reads and identity objects outside every subscribe function of operator_*.go: (function, what, scope, file, line) -/\ndef rows : List BuildRow := [\n")
	for i, r := range rows {
		sep := ","
		if i+1 == len(rows) {
			sep = ""
		}
		sb.WriteString(fmt.Sprintf("  { fn := %s, what := %s, scope := %s, file := %s, line := %d }%s\n", leanStr(r.Fn), leanStr(r.What), leanStr(r.Scope), leanStr(r.File), r.Line, sep))
	}
	sb.WriteString("]\n\nend RoGen.BuildTime\n")
	if out != "" {
		writeIfChanged(filepath.Join(out, "BuildTime.lean"), sb.String())
		js, _ := json.MarshalIndent(rows, "", " ")
		writeIfChanged(filepath.Join(out, "buildtime.json"), string(js)+"\n")
	} else {
		fmt.Fprint(os.Stdout, sb.String())
	}
}

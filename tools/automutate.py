#!/usr/bin/env python3
"""Automatic mutation sweep (self-validation; not part of any registered command).

   automutate.py gen  <dir> [--max N] [--seed S] [--files a.go,b.go]      generate mutants with go/mutgen
   automutate.py run  <dir> --lane k --of n [--out results.jsonl]         run lane k of n

For each mutant: scratch worktree of /repo (outside /repo and /verif), the mutated file copied in, then
  1. `go build ./...` of the module           (does not compile  -> discarded: 'nocompile')
  2. the pinned baseline of that module       (fails             -> 'killed-by-suite': not a realistic change)
  3. the checks that own the file, one after the other through VERIF_REPO, until one exits non-zero
     ('detected', with the check and its first message) — or none does ('SURVIVED').
Results are appended as JSON lines. Survivors are either equivalent mutants or gaps; they are triaged by hand.
"""
import json, os, subprocess, sys, time
VERIF = os.path.dirname(os.path.dirname(os.path.abspath(__file__)))
ENV = dict(os.environ, GOFLAGS='', GOPROXY='off', GOSUMDB='off', GOTOOLCHAIN='local')

# which checks look at a file, most specific first
OWNERS = [
    (('subscriber.go', 'subscription.go', 'observer.go'), ['C01', 'C06', 'C03', 'C02', 'C07']),
    (('observable.go',), ['C01', 'C11', 'C07', 'C06', 'C17', 'C03', 'C13']),
    (('errors.go', 'ro.go'), ['C07', 'C01', 'C04', 'C17']),
    (('subject_',), ['C10', 'C01', 'C02', 'C13']),
    (('operator_connectable.go',), ['C11', 'C14', 'C13']),
    (('operator_combining.go',), ['C05', 'C04', 'C09', 'C14', 'C03', 'C12', 'C13']),
    (('operator_creation.go',), ['C04', 'C12', 'C16', 'C09', 'C14', 'C03', 'C07']),
    (('operator_error_handling.go',), ['C15', 'C04', 'C09', 'C14', 'C12', 'C07']),
    (('operator_sink.go',), ['C17', 'C04', 'C08', 'C09', 'C12']),
    (('operator_utility.go',), ['C16', 'C04', 'C08', 'C09', 'C14', 'C03', 'C17', 'C13']),
    (('operator_transformations.go',), ['C04', 'C05', 'C09', 'C16', 'C14', 'C12', 'C08', 'C13']),
    (('operator_filter.go',), ['C04', 'C05', 'C09', 'C14', 'C12']),
    (('operator_context.go',), ['C09', 'C04', 'C14', 'C03']),
    (('operator_',), ['C04', 'C09', 'C14', 'C12']),
    (('pipe', 'observer', 'notification'), ['C04', 'C01']),
]


def owners(f):
    b = os.path.basename(f)
    for pats, checks in OWNERS:
        if any(b.startswith(p) or b == p for p in pats):
            return checks
    return ['C04', 'C01']


def sh(cmd, cwd, env=ENV, timeout=3600):
    p = subprocess.run(cmd, cwd=cwd, env=env, capture_output=True, text=True, timeout=timeout)
    return p.returncode, p.stdout + p.stderr


def main():
    a = sys.argv[1:]
    if a[0] == 'gen':
        d = a[1]
        extra = a[2:]
        mg = os.path.join(VERIF, 'go', 'bin', 'mutgen')
        if not os.path.exists(mg):
            rc, o = sh(['go', 'build', '-o', mg, '.'], os.path.join(VERIF, 'go', 'mutgen'), env=dict(ENV, GOFLAGS='-mod=mod', GOWORK='off'))
            if rc:
                sys.exit(o)
        cmd = [mg, '-repo', '/repo', '-out', d]
        for k in ('--max', '--seed', '--files'):
            if k in extra:
                cmd += ['-' + k[2:], extra[extra.index(k) + 1]]
        print(sh(cmd, VERIF)[1])
        return
    d = a[1]
    lane, of = int(a[a.index('--lane') + 1]), int(a[a.index('--of') + 1])
    out = a[a.index('--out') + 1] if '--out' in a else os.path.join(d, f'results-{lane}.jsonl')
    done = set()
    if os.path.exists(out):
        done = {json.loads(l)['id'] for l in open(out) if l.strip()}
    ids = sorted(x for x in os.listdir(d) if x.startswith('m') and os.path.isdir(os.path.join(d, x)))
    mine = [x for i, x in enumerate(ids) if i % of == lane and x not in done]
    rw = f'/tmp/rw/am-{os.getpid()}'
    for mid in mine:
        meta = json.load(open(os.path.join(d, mid, 'meta.json')))
        res = dict(id=mid, **meta)
        t0 = time.time()
        subprocess.run(['git', '-C', '/repo', 'worktree', 'add', '--detach', '-q', rw, 'HEAD'], check=True)
        try:
            subprocess.run(['cp', os.path.join(d, mid, 'file'), os.path.join(rw, meta['file'])], check=True)
            rc, o = sh(['go', 'build', './...'], rw)
            if rc:
                res['verdict'] = 'nocompile'
            else:
                rc, o = sh(['go', 'vet', '.'], rw)   # a change that vet rejects would not be committed either (only new complaints about the touched file)
                rc, o = sh(['python3', os.path.join(VERIF, 'tools', 'baseline_check.py'), rw, '.'], rw, timeout=3000)
                if rc:
                    res['verdict'] = 'killed-by-suite'
                    res['why'] = o.strip().splitlines()[-1][:200] if o.strip() else ''
                else:
                    res['verdict'] = 'SURVIVED'
                    res['checked'] = []
                    for chk in owners(meta['file']):
                        r = subprocess.run([os.path.join(VERIF, 'check'), chk, 'quick'], cwd=VERIF, env=dict(os.environ, VERIF_REPO=rw), capture_output=True, text=True)
                        res['checked'].append(chk)
                        if r.returncode != 0:
                            why = [l[2:] for l in r.stdout.splitlines() if l.startswith('# ')]
                            nofail = all('no-failing-input-found' in l for l in r.stdout.splitlines() if l.startswith('VIOLATION'))
                            res.update(verdict='detected', by=chk, why=(why[0][:240] if why else r.stdout[-200:]), no_failing_input=nofail)
                            break
        except Exception as e:
            res['verdict'] = 'tool-error'
            res['why'] = repr(e)[:200]
        finally:
            subprocess.run(['git', '-C', '/repo', 'worktree', 'remove', '--force', rw])
        res['secs'] = round(time.time() - t0)
        with open(out, 'a') as f:
            f.write(json.dumps(res) + '\n')
        print(json.dumps(res)[:300], flush=True)
    subprocess.run(['python3', '-c', 'import sys; sys.path.insert(0, "%s/tools"); import runner; runner.write_gowork()' % VERIF])


if __name__ == '__main__':
    main()

#!/usr/bin/env python3
"""Mutation self-test of the C18 check (NOT part of ./check): applies realistic single edits to a scratch
worktree of /repo, runs `VERIF_REPO=<scratch> ./check C18 quick`, expects exit 1, restores the file.
usage: tools/dev/c18_mutations.py [name ...]"""
import os, subprocess, sys
VERIF = os.path.dirname(os.path.dirname(os.path.dirname(os.path.abspath(__file__))))
SCRATCH = '/tmp/rw/C18m'
MUT = {
 'strconv-base-const': ('plugins/strconv/operator.go', 'return strconv.FormatInt(v, base)', 'return strconv.FormatInt(v, 10)'),
 'strconv-parseint-swap': ('plugins/strconv/operator.go', 'return strconv.ParseInt(string(v), base, bitSize)', 'return strconv.ParseInt(string(v), bitSize, base)'),
 'strconv-sibling': ('plugins/strconv/operator.go', 'return ro.Map(strconv.Quote)', 'return ro.Map(strconv.QuoteToASCII)'),
 'base64-maperr-to-map': ('plugins/encoding/base64/operator.go',
    'return ro.MapErr(func(v T) ([]byte, error) {\n\t\treturn encoder.DecodeString(string(v))\n\t})',
    'return ro.Map(func(v T) []byte {\n\t\tb, _ := encoder.DecodeString(string(v))\n\t\treturn b\n\t})'),
 'base64-wrong-encoding': ('plugins/encoding/base64/operator.go', 'return encoder.EncodeToString([]byte(v))', 'return base64.StdEncoding.EncodeToString([]byte(v))'),
 'regexp-drop-n': ('plugins/regexp/operator.go', 'return pattern.FindAllString(string(v), n)', 'return pattern.FindAllString(string(v), -1)'),
 'time-swap-args': ('plugins/time/operator_parse.go', 'return time.ParseInLocation(layout, string(value), loc)', 'return time.ParseInLocation(string(value), layout, loc)'),
 'strings-ellipsis-off-by-one': ('plugins/strings/operator_ellipsis.go', 'return strings.TrimSpace(str[0:length-3]) + "..."', 'return strings.TrimSpace(str[0:length-2]) + "..."'),
 'sort-reversed': ('plugins/sort/operator.go', 'return cmp(values[i], values[j]) < 0', 'return cmp(values[i], values[j]) > 0'),
 'linereader-no-copy': ('plugins/stdio/source.go', '\t\t\toutput := make([]byte, len(lines))\n\t\t\tcopy(output, lines)\n\t\t\tdestination.NextWithContext(ctx, output)', '\t\t\tdestination.NextWithContext(ctx, lines)'),
 'csv-swallow-error': ('plugins/encoding/csv/source.go', 'destination.ErrorWithContext(ctx, err)', 'destination.CompleteWithContext(ctx)'),
 'json-marshal-indent': ('plugins/encoding/json/operator.go', 'return json.Marshal(v)', 'return json.MarshalIndent(v, "", " ")'),
 'template-drop-data': ('plugins/template/operator.go', 'err := tpl.Execute(&buf, v)', 'err := tpl.Execute(&buf, nil)'),
 'iowriter-miscount': ('plugins/stdio/sink.go', 'count += n', 'count += n + 1'),
 # visible in the fact table only (the Std* aliases read os.Stdin and are not run): expects `no-failing-input-found`
 'stdreader-sibling': ('plugins/stdio/source.go', 'return NewIOReader(os.Stdin)', 'return NewIOReaderLine(os.Stdin)'),
}
def sh(*a, **k): return subprocess.run(*a, **k)
if not os.path.isdir(SCRATCH):
    sh(['git', '-C', '/repo', 'worktree', 'add', '-f', SCRATCH, 'HEAD'], check=True, capture_output=True)
names = sys.argv[1:] or list(MUT)
results = {}
for name in names:
    path, old, new = MUT[name]
    full = os.path.join(SCRATCH, path)
    src = open(full).read()
    assert old in src, (name, 'pattern not found')
    open(full, 'w').write(src.replace(old, new, 1))
    try:
        p = sh([os.path.join(VERIF, 'check'), 'C18', 'quick'], cwd=VERIF, env=dict(os.environ, VERIF_REPO=SCRATCH), capture_output=True, text=True)
        viol = [l for l in p.stdout.splitlines() if l.startswith(('VIOLATION', '# ', 'ERROR'))]
        results[name] = p.returncode
        print(f'== {name}: exit {p.returncode}')
        for l in viol[:6]: print('   ', l[:220])
    finally:
        open(full, 'w').write(src)
print({k: ('caught' if v == 1 else 'MISSED exit=%s' % v) for k, v in results.items()})
sys.exit(0 if all(v == 1 for v in results.values()) else 1)

#!/usr/bin/env python3
"""Maintenance helper for lean/RoProps/C18Expected.lean (NOT run by ./check): prints the file from
an extraction of the pinned tree and an extraction of the repaired tree, for a human to review
and commit.   usage: c18_expected.py <pinned Plugins.lean> <repaired Plugins.lean> > lean/RoProps/C18Expected.lean"""
import re, sys
pin = open(sys.argv[1]).read()
fix = open(sys.argv[2]).read()

def section(s, name):
    i = s.index('def %s :' % name); j = s.index('\n]\n', i)
    return s[i:j + 3]

def split_rows(block):
    return re.findall(r'^  \{ .*?\}(?=,\n  \{ |\n\])', block, flags=re.S | re.M)

ptab, ftab = split_rows(section(pin, 'table')), split_rows(section(fix, 'table'))
phel, fhel = split_rows(section(pin, 'helpers')), split_rows(section(fix, 'helpers'))
assert len(ptab) == len(ftab) and len(phel) == len(fhel)
rep = [f for p, f in zip(ptab, ftab) if p != f]

def norm_of(h):
    name = re.search(r'name := txt% "([^"]+)"', h).group(1); pkg = re.search(r'pkg := txt% "([^"]+)"', h).group(1)
    norm = h[h.index('norm := ') + 8:].rstrip().rstrip('}').rstrip()
    return pkg, name, norm

def diffs(hel):
    d = {}
    for h in hel:
        pkg, name, norm = norm_of(h); d.setdefault(name, {})[pkg] = norm
    return {n: v for n, v in d.items() if v['strings'] != v['bytes']}

pd, fd = diffs(phel), diffs(fhel)
out = ['''/-
  RoProps.C18Expected — the EXPECTED `Plugins` table (hand-maintained; reviewed against
  /repo/plugins/** at the pinned commit, row by row): for every exported function of the data
  plugins its lift kind and the normalised body of what it lifts — which library function, which
  operator parameter at which argument position, which constants.  `RoProps/C18.lean` decides
  that the table go/extract regenerates from the working tree matches this one.
  (`txt% "…"` is the text as a number, see RoModel/PluginFacts.lean.)

  `repaired`: the rows as they read after repo_fixes/C18-sort-stable.patch and
  repo_fixes/C18-stdio-reader.patch; a regenerated row may be the pinned one or its repaired
  form, nothing else.  `helperDiffs`: the only helper pairs of plugins/strings vs plugins/bytes
  whose flavour-erased bodies are allowed to differ, with the exact bodies (pinned and repaired).
  (tools/dev/c18_expected.py prints this file from two extractions, for review.)
-/
import RoModel.PluginFacts
namespace Ro.C18.Expected
open Ro.PluginFacts

def table : List Row := [
''']
out.append(',\n'.join(ptab) + '\n]\n\n')
out.append('def repaired : List Row := [\n' + ',\n'.join(rep) + '\n]\n\n')
out.append('/-- (helper name, flavour-erased body in plugins/strings, flavour-erased body in plugins/bytes) -/\ndef helperDiffs : List (Txt × List Txt × List Txt) := [\n')
ent = []
for tag, d in (('pinned', pd), ('repaired', fd)):
    for n, v in d.items():
        ent.append('  -- %s\n  (txt%% "%s",\n    %s,\n    %s)' % (tag, n, v['strings'], v['bytes']))
out.append(',\n'.join(ent) + '\n]\n\nend Ro.C18.Expected\n')
sys.stdout.write(''.join(out))

#!/usr/bin/env python3
"""Maintenance helper for lean/RoProps/C18Expected.lean (NOT run by ./check): prints the file from an
extraction of the reviewed tree, for a human to review and commit.
usage: c18_expected.py lean/RoGen/Plugins.lean > lean/RoProps/C18Expected.lean"""
import re, sys
pin = open(sys.argv[1]).read()

def section(s, name):
    i = s.index('def %s :' % name); j = s.index('\n]\n', i)
    return s[i:j + 3]

def split_rows(block):
    return re.findall(r'^  \{ .*?\}(?=,\n  \{ |\n\])', block, flags=re.S | re.M)

ptab = split_rows(section(pin, 'table'))
phel = split_rows(section(pin, 'helpers'))

def norm_of(h):
    name = re.search(r'name := txt% "([^"]+)"', h).group(1); pkg = re.search(r'pkg := txt% "([^"]+)"', h).group(1)
    norm = h[h.index('norm := ') + 8:].rstrip().rstrip('}').rstrip()
    return pkg, name, norm

d = {}
for h in phel:
    pkg, name, norm = norm_of(h); d.setdefault(name, {})[pkg] = norm
pd = {n: v for n, v in d.items() if v['strings'] != v['bytes']}
out = ['''/-
  RoProps.C18Expected — the EXPECTED `Plugins` table (hand-maintained; reviewed against
  /repo/plugins/** row by row): for every exported function of the data plugins its lift kind and
  the normalised body of what it lifts — which library function, which operator parameter at
  which argument position, which constants.  `RoProps/C18.lean` decides that the table go/extract
  regenerates from the working tree EQUALS this one.
  (`txt% "…"` is the text as a number, see RoModel/PluginFacts.lean.)

  The rows of `sort.SortStableFunc` (sort.SliceStable) and `stdio.NewIOReader` (one fresh chunk per
  read, data before the error) are the rows after the fix commits f5a4b6b and ef635f4 of /repo; the
  earlier forms (sort.Slice; `buf[:n]` handed out) are no longer accepted.
  `helperDiffs`: the only helper pairs of plugins/strings vs plugins/bytes whose flavour-erased
  bodies are allowed to differ, with the exact bodies (after 740a09d: the byte `ellipsis` copies
  before appending; after 214bd3e: the byte `words` decodes valid UTF-8 sequences).
  (tools/dev/c18_expected.py prints this file from an extraction, for review.)
-/
import RoModel.PluginFacts
namespace Ro.C18.Expected
open Ro.PluginFacts

def table : List Row := [
''']
out.append(',\n'.join(ptab) + '\n]\n\n')
out.append('/-- (helper name, flavour-erased body in plugins/strings, flavour-erased body in plugins/bytes) -/\ndef helperDiffs : List (Txt × List Txt × List Txt) := [\n')
ent = []
for n, v in pd.items():
    ent.append('  (txt%% "%s",\n    %s,\n    %s)' % (n, v['strings'], v['bytes']))
out.append(',\n'.join(ent) + '\n]\n\nend Ro.C18.Expected\n')
sys.stdout.write(''.join(out))

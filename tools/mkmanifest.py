#!/usr/bin/env python3
"""Writes MANIFEST.json from the table below (kept as code so that it always validates)."""
import json, os, re
VERIF = os.path.dirname(os.path.dirname(os.path.abspath(__file__)))
LEVEL_NOTE = ("Trusted: Lean 4.33 kernel (axioms propext, Classical.choice, Quot.sound only; audited by #print axioms each run); "
              "the Go fact extractor (go/extract) and the differential harness + Lean driver that tie the hand-written model to /repo's working tree; "
              "Go's sync/atomic/channels/timers and context are modelled with textbook semantics.")
import sys, importlib
sys.path.insert(0, os.path.join(VERIF, 'tools'))
sys.path.insert(0, os.path.join(VERIF, 'tools', 'checks'))
CLAIMED = {}
for fn in sorted(os.listdir(os.path.join(VERIF, 'tools', 'checks'))):
    if re.fullmatch(r'C\d\d\.py', fn):  # Cxx_part.py modules are helpers of a Cxx.py
        mod = importlib.import_module(fn[:-3])
        if getattr(mod, 'DISABLED', None):
            continue
        CLAIMED[fn[:-3]] = mod.MANIFEST
NOT_YET = {}
props = [json.loads(l) for l in open(os.path.join(VERIF, 'properties.jsonl'))]
checks, na = [], []
for p in props:
    i = p['id']
    if i in CLAIMED:
        c = CLAIMED[i]
        checks.append({
            'property_id': i, 'quick_cmd': f'./check {i} quick', 'thorough_cmd': f'./check {i} thorough',
            'evidence_file': f'evidence/{i}.json', 'replay_cmd_template': f'./check {i} --replay {{path}}', 'engine': 'lean-proofs+go-harness',
            'level_claimed': {'category': 'proof', 'text': c['text'], 'design_ref': 'DESIGN.md section ' + c['ref']},
            'level_note': LEVEL_NOTE, 'technique': c['technique'],
        })
    else:
        na.append({'property_id': i, 'reason': NOT_YET.get(i, 'check under construction in this round: the Lean model/theorems and the correspondence for this property are not registered yet (not a statement that the technique cannot apply)')})
m = {
 'version': 1,
 'setup_cmd': './setup.sh',
 'hooks': {'guard': 'verif', 'enable': 'go build -tags verif (the harness is built with this tag against /repo through go/go.work)',
           'baseline_off_cmd': 'python3 tools/baseline_check.py /repo', 'source_commits': ['e3a91674445f8de0d6690e492ec57a5debbe6e24', '6186357351027602cdfdac25fca998629bf80a67'], 'add_only': True},
 'engines': [
   {'name': 'lean-proofs', 'path': 'lean/', 'serves_properties': sorted(CLAIMED), 'kind_free_text': 'Lean 4 model (RoModel), proofs (RoProofs), property theorems (RoProps), regenerated fact tables (RoGen), driver executable'},
   {'name': 'go-extractor', 'path': 'go/extract', 'serves_properties': sorted(CLAIMED), 'kind_free_text': 'go/ast fact extractor regenerating lean/RoGen from /repo on every run'},
   {'name': 'go-harness', 'path': 'go/harness', 'serves_properties': sorted(CLAIMED), 'kind_free_text': 'differential harness: runs cases on the real library, same case lines go to the Lean driver'},
 ],
 'checks': checks,
 'not_applicable': na,
 'notes': 'Machine-checked proof in Lean 4 over a hand-written executable model tied to /repo by regenerated fact tables and differential correspondence; see DESIGN.md.',
}
json.dump(m, open(os.path.join(VERIF, 'MANIFEST.json'), 'w'), indent=1)
print('claimed', sorted(CLAIMED), 'not_applicable', len(na))

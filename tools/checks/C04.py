import runner as R
from props import *
import C04_more, C04_gen, C04_create
import symmetry_part

LEAN_MODULES = ['C04', 'C05gen', 'C05b', 'C15'] + C04_more.LEAN_MODULES_EXTRA + C04_gen.LEAN_MODULES + C04_create.LEAN_MODULES + symmetry_part.LEAN_MODULES

MANIFEST = dict(
    text="One Lean theorem per operator machine: for all parameters, raw scripts and source modes, delivered trace = the documented list function (Spec.*) of the source's values and ending; "
         "chains = composition (seq_out). Tie: exhaustive small-scope + seeded differential runs of every machine against the real operator (values, kinds, order). "
         "Deviations of the pinned tree are proved as witness theorems and listed as known findings."
         ' RangeWithStep (integral bounds and steps): every start +- i*step of [start:end), ceil(|end-start|/step) values (C04d.rangeWithStep), tied by kind=create and by the generator regenerated from the source (C04create.rangeWithStepG_gen).'
         " SequenceEqual (RoModel/Ops/SeqEq.lean: what the code computes for every pair; `_partial` = documented function on equal lengths; deviation witnessed and listed), FloorWithPrecision / CeilWithPrecision on exactly representable inputs (integer n of n/10^places compared, never a float), the delivered values of the multi-source runs and of the re-subscribing operators' runs are read through C04's projection (C05gen, C05b, C15 among its modules); every recorder claims the spare capacity of the slices it is handed and checks at the end that it was not overwritten or delivered again (a delivered value belongs to its receiver).",
    technique="Lean 4 proof (machine = list-function specification, induction on the value list) + differential correspondence",
    ref='5/C04')


def check(ctx):
    rows = R.run_kind(ctx, 'ops')
    R.compare(ctx, rows, proj_values, 'C04 delivered values and terminal', nontrivial=nontrivial_op)
    rows = R.run_kind(ctx, 'chains')
    R.compare(ctx, rows, proj_values, 'C04 chains = composition of the parts (Machine.seq)', nontrivial=lambda c, gd: gd.get('trace', '-') != '-')
    # the multi-source operators' VALUES (the machines, specifications and every-interleaving theorems are C05's, incl. the machines
    # regenerated from the source — RoProps/C05gen): C04 reads the delivered values and terminal of the same runs
    rows = R.run_kind(ctx, 'multi')
    R.compare(ctx, rows, proj_values, 'C04 multi-source operators (TakeUntil, SkipUntil, SampleWhen, ThrottleWhen, Merge*, Race*): delivered values and terminal',
              nontrivial=lambda c, gd: gd.get('trace', '-') != '-', max_report=2)
    # ... and of the higher-order / combining operators of kind=multib (Zip*, CombineLatest*, Concat*, FlatMap, BufferWhen, WindowWhen,
    # GroupBy; machines and every-interleaving theorems: RoProps/C05b): delivered values and terminal, plus the harness oracle that the
    # spare capacity of a delivered slice is still the receiver's at the end of the run
    rows = R.run_kind(ctx, 'multib', shards=min(R.NCPU, 8))
    R.compare(ctx, rows, lambda d: (flag(d), d.get('trace')), 'C04 higher-order / combining operators (multib): delivered values and terminal',
              nontrivial=lambda c, gd: gd.get('trace', '-') != '-', max_report=2)
    # ... and of the re-subscribing operators (Retry*, RepeatWith, While*, DoWhile*, Catch, OnErrorResumeNextWith, Concat): the values of
    # exactly the attempts the configuration dictates, in order, and the defined terminal - the delivered trace of the kind=resub runs
    # (loops = closed forms: RoProps/C15), read through C04's projection
    rows = R.run_kind(ctx, 'resub')
    R.compare(ctx, rows, lambda d: (flag(d), strip_ctx(d.get('trace'))), 'C04 re-subscribing operators: delivered values and terminal',
              nontrivial=lambda c, gd: gd.get('trace', '-') != '-', max_report=2)
    # SequenceEqual over two synchronous sources: the model of the code (RoModel/Ops/SeqEq.lean) with equality; the documented
    # function outside the known class (built on Zip2: blind to what lies beyond the shorter sequence)
    rows = R.run_kind(ctx, 'seqeq', shards=2)
    R.compare(ctx, rows, lambda d: (flag(d), d.get('out')), 'C04 SequenceEqual (model of the code)', nontrivial=lambda c, gd: True, max_report=2)
    sq_known, sq_bad = 0, []
    for c, g, l in rows:
        gd, ld = R.parse_res(g), R.parse_res(l)
        if gd.get('out') == ld.get('spec'):
            continue
        f = dict(kv.split('=', 1) for kv in c.split()[2:] if '=' in kv)
        la = 0 if f.get('a', '-') == '-' else len(f['a'].split(','))
        lb = 0 if f.get('b', '-') == '-' else len(f['b'].split(','))
        if la != lb or (f.get('endb', 'C') != 'C' and lb >= la and f.get('enda', 'C') == 'C'):
            sq_known += 1
        else:
            sq_bad.append((c, g, l))
    # (the known class itself is listed in known_findings.jsonl with its witness: key op=SequenceEqual length)
    ctx.notes.append(f'SequenceEqual: {sq_known} cases of this run fall in the known class (lengths differ / late error of the second source)')
    if sq_bad:
        c, g, l = sq_bad[0]
        ctx.violation(f'C04 SequenceEqual: the result differs from the documented function outside the known class ({len(sq_bad)} cases)', f'{c}\n# implementation: {g}\n# model / documented: {l}\n')
    # FloorWithPrecision / CeilWithPrecision over exactly representable inputs: the integer n of result = n / 10^places
    rows = R.run_kind(ctx, 'precision', shards=2)
    R.compare(ctx, rows, proj_all, 'C04 FloorWithPrecision / CeilWithPrecision: n with result = n / 10^places (integers compared)', nontrivial=lambda c, gd: True, max_report=2)
    # Average over narrow integer element types (int8 ... uint32): the exact mean of the values, no wrap-around in the element type
    rows = R.run_kind(ctx, 'numtype', shards=1)
    R.compare(ctx, rows, proj_all, 'C04 Average over narrow integer element types: the exact mean (integers compared)', nontrivial=lambda c, gd: True, max_report=2)
    more_rule = C04_more.parts(ctx)
    gen = C04_gen.parts(ctx)
    cre = C04_create.parts(ctx)
    return dict(search=combine_search(gen['search'], cre['search'], C04_more.search, symmetry_part.search), assumptions=['the translator go/extract/opgen.go is faithful on the fragment it accepts (docs/opgen.md); its output is checked against the hand-written machines by the kernel'],
                rule=gen['rule_part'] + '; ' + cre['rule_part'] + '; ' + more_rule + '; ' + 'random chains of 2-5 int->int operators (sync/hot, cuts) + ' + 'every catalogue operator x parameters (boundaries) x four variants x named callbacks x raw scripts (exhaustive to length 2/3 over '
                     '{-1,0,2,3} x three endings x illegal suffixes; seeded longer scripts) x {sync, hot}; compared: delivered values, kinds and order; '
                     'non-trivial = script has a value and something was delivered or dropped')

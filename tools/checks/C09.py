import runner as R
from props import *
import C04_more

LEAN_MODULES = ['C09', 'C09m', 'C15']

MANIFEST = dict(
    text="Proved in Lean: a machine holding a CtxSafe certificate (invariant: every stored context is derived from the subscription context; every reaction emits only derived contexts) delivers, "
         "for every raw script and source mode, only contexts derived from the subscription context, never nil (CtxSafe.run); one certificate per catalogue operator machine under the contract of "
         "context-returning callbacks; per-item provenance is part of the C04 specifications (contexts are in the specs) and of the *_ctx_exact theorems. That the machines forward what the Go code forwards is the "
         "regenerated CtxFlow fact (provenance of every context expression handed downstream/upstream), decided by the kernel on every run. Tie: every catalogue operator and random chains with a marker at "
         "subscription, per item, and added by WithContext callbacks: the marker list of every delivered notification equals the model's; oracle: no delivered context is nil / lacks the subscription marker "
         "except the listed known findings (Max on empty: nil; DefaultIfEmpty: Background); ToChannel's context.TODO() was repaired."
         ' Time-driven and hand-off operators (kind=ctxpair): under bursts with racing timers every notification is delivered with its own context through Delay, DelayEach, Timeout, ThrottleTime, SampleTime, ObserveOn, SubscribeOn and Serialize.'
         " Share / ShareReplay: every subscriber is delivered the values with the context of the subscriber whose Subscribe created the generation (field uctx of kind=share / sharet; Gen.creator in the model). Delay: the delivered payloads are, in order, a prefix of the queued ones whatever the timers do (delay_keeps_context, delay_kth, delay_model_is_instance) - a notification is never delivered with another one's context."
         " The re-subscribing operators: context of every value of every attempt, of the last error and of the cancellation error Retry delivers (kind=resub runs read through C09's projection; C15 among the modules).",
    technique="Lean 4 proof (per-machine context invariant + generic run theorem) + kernel-decided CtxFlow table regenerated from source + differential correspondence of context markers",
    ref='5/C09')


def proj_ctx(d):
    return (flag(d), ctx_of(d.get('trace')))


def oracle_ctx(case, gd):
    """direct check on the implementation: every delivered context carries the subscription marker and is not nil,
    except for the operators listed as known findings"""
    op = re.search(r'\bop=(\S+)', case)
    opn = op.group(1) if op else ''
    ops = re.search(r'\bops=(\S+)', case)
    names = [opn] if opn else [s.split('/')[0] for s in ops.group(1).split('|')] if ops else []
    sub = re.search(r'\bsub=(\S+)', case)
    subm = sub.group(1).split('.')[0] if sub and sub.group(1) != '-' else None
    for cx in ctx_of(gd.get('trace')):
        if cx == 'nil':
            if 'Max' in names:
                continue
            return 'nil context delivered'
        if subm and subm not in cx.split('.'):
            if any(n in ('DefaultIfEmpty', 'DefaultIfEmptyWithContext') for n in names):
                continue
            return 'subscription marker lost'
    return None


def check(ctx):
    rows = R.run_kind(ctx, 'ops')
    R.compare(ctx, rows, proj_ctx, 'C09 context markers of every delivered notification (single operators)', oracle=oracle_ctx, nontrivial=nontrivial_op)
    rows = R.run_kind(ctx, 'chains')
    R.compare(ctx, rows, proj_ctx, 'C09 context markers through chains', oracle=oracle_ctx, nontrivial=lambda c, gd: gd.get('trace', '-') != '-')
    C04_more.parts_C09(ctx)
    # FloorWithPrecision / CeilWithPrecision for every magnitude of `places` (moderate, the chunked big.Float paths beyond 308, the
    # infinite ones) and inputs whose result overflows: every value comes out with the context it was sent with (kind=precision ctxrun=1)
    prows = [r for r in R.run_kind(ctx, 'precision', shards=2) if ' ctxrun=1' in r[0]]
    R.compare(ctx, prows, proj_all, 'C09 contexts through FloorWithPrecision / CeilWithPrecision (all magnitudes of places)', nontrivial=lambda c, gd: True, max_report=2)
    # the re-subscribing operators (Retry*, RepeatWith, While*, DoWhile*, Catch, OnErrorResumeNextWith, Concat): the context of every
    # delivered notification - the values of each attempt, the last error, and the cancellation error Retry delivers when the subscription
    # context is cancelled before / during an attempt / during the delay (it carries the SUBSCRIPTION context) - over the runs of
    # kind=resub (loops and closed forms: RoProps/C15), read through C09's projection
    rows = R.run_kind(ctx, 'resub')
    R.compare(ctx, rows, lambda d: (flag(d), d.get('trace')), 'C09 context markers of every notification delivered by the re-subscribing operators',
              nontrivial=lambda c, gd: gd.get('trace', '-') != '-', max_report=2)
    rows = R.run_kind(ctx, 'multi')
    R.compare(ctx, rows, lambda d: (flag(d), ctx_of(d.get('trace')), d.get('sctx')), 'C09 context markers through multi-source operators (delivered contexts; context each source is subscribed with)', nontrivial=lambda c, gd: gd.get('trace', '-') != '-', max_report=2)
    # Share: every upstream subscription is made with the context of the subscriber that creates the generation (subscriber i
    # carries the marker 70+i) — also for the generations that follow a reset (the C11 sequences; field uctx)
    for kind in ('share', 'sharet'):
        rows = R.run_kind(ctx, kind)
        R.compare(ctx, rows, lambda d: (flag(d), d.get('uctx')), f'C09 context each upstream subscription of a shared observable is made with ({kind})',
                  nontrivial=lambda c, gd: gd.get('uctx', '-') != '-', max_report=2)
    # time-driven and hand-off operators: a burst of values with one marker each, timers / goroutines racing — every
    # notification is delivered with ITS OWN context (kind=ctxpair)
    rows = R.run_kind(ctx, 'ctxpair', shards=8)
    R.compare(ctx, rows, proj_all, 'C09 every notification keeps its own context through Delay / DelayEach / Timeout / ThrottleTime / SampleTime / ObserveOn / SubscribeOn / Serialize (burst, racing timers)',
              nontrivial=lambda c, gd: True, recheck=1)
    return dict(rule='kind=ctxpair: 8 time-driven / hand-off operators x bursts of 4 and 12 values x {complete, error}, one marker per notification; every catalogue operator x variants (the WithContext variants add a marker in the callback) x raw scripts with a marker at subscription and one per item, '
                     'and random chains; compared: marker list of every delivered notification; oracle on the implementation: never nil, subscription marker present; '
                     'non-trivial = something delivered or dropped',
                search=table_search('C09'))

"""C03, concurrent-kernel half (docs/kernel.md): subscriberImpl / subscriptionImpl under concurrent calls; theorems
RoProps/C03.lean (+ RoProps/KernelTie.lean). `parts(ctx)` is called by tools/checks/C03.py; `check`/`MANIFEST` allow
`./check C03_kernel quick` stand-alone."""
import os, sys
import runner as R
from props import *
sys.path.insert(0, os.path.dirname(os.path.dirname(os.path.abspath(__file__))))
import kernel_part as K

LEAN_MODULES = ['C03']

MANIFEST = dict(
    text="Kernel part: proved in Lean for every mode, threads, scripts (each finalizer id used once) and schedule: no finalizer runs twice "
         "(kernel_finalizer_at_most_once, token-conservation invariant); in every terminal state with done set every stored finalizer has run exactly once and "
         "nothing is left in finalizers / taken lists (kernel_finalizers_exactly_once_at_end, kernel_nothing_left_at_end); nothing runs before done; a teardown is "
         "stored only while not done, and once done every later Add runs it inside the call, holding subMu (kernel_add_after_done_not_stored, "
         "kernel_add_returns_consumed, kernel_runNow_holds_subMu); the joined panic is raised after the loop (kernel_raise_after_loop). "
         "Tie: program equality (F) + one-thread logs exact + stress (K). Operator release is a separate slice.",
    technique="Lean 4 proof (counting invariant over an interpreter of extracted programs) + regenerated program table + differential/stress harness",
    ref='5/C03')


def parts(ctx):
    return K.kernel_part(ctx, 'C03')


def check(ctx):
    return parts(ctx)

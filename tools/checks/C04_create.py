"""C04 (generated creation operators): RoProps/C04create proves every script generator regenerated from
operator_creation.go (go/extract/gengen.go -> lean/RoGen/GenGen.lean: Of/Just, Start, Range, RangeWithStep, Repeat, FromSlice, Empty,
Throw) EQUAL, for all parameters, to the hand-written generator of RoModel/Ops/Create.lean that the C04 creation
theorems are about. When `lake build RoProps.C04create` fails, `search` names the generator that changed (diff against
the committed snapshot lean/RoGen/GenGen.snapshot) and points kind=create at that operator (thorough generator)."""
import difflib, os, re
import runner as R
from props import *

LEAN_MODULES = ['C04create']
GEN = os.path.join(R.LEAN, 'RoGen', 'GenGen.lean')
SNAP = os.path.join(R.LEAN, 'RoGen', 'GenGen.snapshot')

MANIFEST = dict(
    text="The synchronous creation operators Of/Just, Start, Range, RangeWithStep, Repeat, FromSlice, Empty, Throw are re-translated from operator_creation.go into Lean script generators on every run and proved equal, for all parameters (Range: for every fuel that covers |end - start|), to the hand-written generators the C04 creation theorems are about.",
    technique="program translation (Go AST -> Lean definitions over statement combinators) + kernel-checked equality with the hand-written model",
    ref='5/C04')


def parse_gen(text):
    blocks = {}
    for m in re.finditer(r'^-- @gen (\S+)\n(.*?)(?=^-- @gen |^-- @end)', text, flags=re.S | re.M):
        blocks[m.group(1)] = re.sub(r'/-- operator_creation\.go:\d+ -/\n', '', m.group(2)).strip('\n')
    skipped = dict(re.findall(r'\("([^"]+)", "((?:[^"\\]|\\.)*)"\)', text.split('def skipped', 1)[-1]))
    return blocks, skipped


def changed():
    if not (os.path.exists(GEN) and os.path.exists(SNAP)):
        return None
    nb, ns = parse_gen(open(GEN).read())
    ob, _ = parse_gen(open(SNAP).read())
    out = []
    for op in list(ob) + [o for o in nb if o not in ob]:
        old, new = ob.get(op), nb.get(op)
        if old == new:
            continue
        if new is None:
            out.append((op, 'no longer translated: ' + ns.get(op, 'function gone'), ['- ' + l for l in old.splitlines()]))
        elif old is None:
            out.append((op, 'newly translated; no equality theorem covers it', ['+ ' + l for l in new.splitlines()]))
        else:
            out.append((op, 'regenerated generator differs from the snapshot',
                        [l for l in difflib.unified_diff(old.splitlines(), new.splitlines(), 'snapshot', 'regenerated', lineterm='', n=1) if not l.startswith(('---', '+++'))]))
    return out


def search(ctx, out):
    if 'C04create' not in out:
        return False
    ch = changed()
    if not ch:
        return False
    import C04_more
    errs = sorted(set(re.findall(r'error: (\S*C04create\.lean:\d+:\d+)', out)))
    for op, why, diff in ch[:4]:
        head = (f'# the script generator regenerated from the Go source of `{op}` is no longer equal to the hand-written generator the C04 creation theorems are about\n'
                f'# (lake build RoProps.C04create fails: {", ".join(errs) or "see evidence notes"})\n# {op} — {why}\n' + '\n'.join('#   ' + l for l in diff) + '\n')
        before = len(ctx.violations)
        rows = R.run_kind(ctx, 'create', extra=['-only', op], tier='thorough')
        if op == 'Of':
            rows += R.run_kind(ctx, 'create', extra=['-only', 'Just'], tier='thorough')
        if rows:
            R.compare(ctx, rows, proj_all, f'C04 creation operator {op} (regenerated generator changed; thorough generator)', nontrivial=lambda c, gd: True)
        if len(ctx.violations) > before:
            msg, path, no_input = ctx.violations[-1]
            with open(os.path.join(R.VERIF, path), 'a') as f:
                f.write(head)
        else:
            ctx.violation(f'C04create: regenerated generator of {op} is not equal to the model any more ({why}); ' +
                          ('the correspondence run of this operator shows no behavioural difference' if rows else 'no harness case for this operator'), head, no_input=True)
    return True


def parts(ctx):
    ch = changed()
    if ch is None:
        ctx.violation('C04create: lean/RoGen/GenGen.lean or its snapshot is missing', 'missing ' + GEN + ' or ' + SNAP + '\n', no_input=True)
    elif ch and not getattr(ctx, 'lake_failed', None):
        ctx.notes.append('GenGen.lean differs from its snapshot for ' + ', '.join(o for o, _, _ in ch) + ' but all equalities still hold (run tools/opgen_snapshot.py)')
    return dict(rule_part='8 creation-operator script generators regenerated from operator_creation.go and proved equal to the hand-written generators (all parameters)', search=search)


def check(ctx):
    p = parts(ctx)
    return dict(rule=p['rule_part'], search=p['search'], assumptions=['the translator go/extract/gengen.go is faithful on the fragment it accepts (its header); its output is checked against the hand-written generators by the kernel'])

import os, re, itertools
import runner as R
from props import *

MANIFEST = dict(
    text="Lean theorems over multi-source machines read line by line from the Go code (events tagged by source, per-source subscriber gates, "
         "subscribe/unsubscribe control, downstream gate, synchronous nesting): for every tuple of source scripts and EVERY interleaving, "
         "delivered trace = the definition's output for that arrival order (merge, race, takeUntil, skipUntil, sampleWhen, throttleWhen), "
         "per-source order kept, nothing lost or duplicated, completion exactly when defined, error ends at once, every source released when the output ends. "
         "Tie: kind=multi differential runs on hot/synchronous probe sources, each notification processed to quiescence — delivered trace, drops, "
         "per-step emissions, per-source subscriptions / teardown counters / subscription contexts EQUAL on both sides; the definition's output "
         "(Spec) is evaluated next to the implementation on every hot case; free-running goroutine runs are matched against SOME interleaving (search only). "
         "TakeUntil's two atomic actions are modelled at micro-step level: every schedule is explained by an arrival order (theorem), tied by a parked-signal replay. "
         "Deviation (TakeUntil/SkipUntil drop the signal's error, pinned by tests) is proved as witness + _partial theorems and replayed as a known finding."
         ' TakeUntil, SkipUntil, SampleWhen, ThrottleWhen and MergeAll (Merge / MergeWith* / MergeMap*) are re-translated from the Go source on every run (go/extract/multigen.go -> RoGen/MultiGen.lean) and proved to refine the hand-written machines (MMachine.Sim, RoProps/C05gen: indistinguishable runs for every configuration of sources, subscription context, interleaving and cut); the C05 theorems are restated for the regenerated machines. A GroupBy group / WindowWhen window keeps its source order while a late subscriber is replayed the backlog (kind=nextret scen=groupby|window, deterministic schedule; premise RoProps/C10 subjects_wellLocked over the regenerated lock skeletons).'
         " One multi-source operator VALUE applied to several sources before anything is subscribed: every result consumes its own sources (the kind=reusemulti runs read through C05's projection).",
    technique="Lean 4 proof (induction over arbitrary event sequences with machine invariants; generic emit-only refinement theorem) + differential correspondence of the executable model against the implementation",
    ref='5/C05')

MERGE_OPS = ('Merge', 'MergeWith', 'MergeWithN', 'MergeAll', 'MergeMap')
RACE_OPS = ('Race', 'RaceWith', 'Amb')


def cfield(case, key, default='-'):
    m = re.search(r'\b' + key + r'=(\S+)', case)
    return m.group(1) if m else default


def proj_multi(d):
    """everything both sides print"""
    return {k: v for k, v in d.items() if (not k.startswith('_') or k == '_flag') and k != 'spec'}


def nontrivial_multi(case, gd):
    return gd.get('trace', '-') != '-' and cfield(case, 'order') != '-'


def ints(s):
    return [] if s in ('-', '', None) else [int(x) for x in s.split(',')]


# ------------------------------------------------------------------ part A: Merge*, Race*, Take/SkipUntil, Sample/ThrottleWhen

def oracle_release(case, gd):
    """direct oracles on the implementation result (no model involved):
    grammar; teardown of a probe at most once per subscription; and the release clause: once the output has
    ended (terminal delivered, or the final subscription was unsubscribed) every subscribed probe has been torn down."""
    if flag(gd):
        return f'harness flag {flag(gd)}'
    if not grammar_ok(gd.get('trace')):
        return 'grammar: a notification was delivered after a terminal'
    subs, rel = ints(gd.get('subs')), ints(gd.get('rel'))
    for s, r in zip(subs, rel):
        if r > s:
            return 'teardown: a probe was torn down more often than it was subscribed'
    ended = (kinds(gd.get('trace')) or ['-'])[-1] in ('E', 'C') or cfield(case, 'cut') != '-'
    if ended:
        for k, (s, r) in enumerate(zip(subs, rel)):
            if s > 0 and r < s:
                return 'release: a source is still subscribed after the output has ended'
    return None


def known_class(case, gd, ld):
    """which known-finding class (if any) explains implementation != definition on this case"""
    op = cfield(case, 'op')
    if op in ('TakeUntil', 'SkipUntil'):
        srcs = cfield(case, 'srcs').split(';')
        if len(srcs) > 1 and 'E' in srcs[1]:
            return 'until-signal-error'
    return None


def part_a(ctx):
    rows = R.run_kind(ctx, 'multi')
    R.compare(ctx, rows, proj_multi, 'C05 multi-source operators, every interleaving (trace, drops, per-step emissions, per-source subs/teardown/contexts)',
              oracle=oracle_release, nontrivial=nontrivial_multi)
    # implementation against the definition (Spec) on every hot case without external cut
    spec_checked = spec_known = 0
    bad = {}
    per_op = {}
    # second pass of the Lean driver over the hot, uncut cases: the definition's output (`want=spec`)
    hot = [c for c, g, l in rows if cfield(c, 'cut') == '-' and '1' not in cfield(c, 'sync').split(',')]
    sp_in, sp_out = os.path.join(ctx.work, 'spec.cases'), os.path.join(ctx.work, 'spec.lean')
    open(sp_in, 'w').write(''.join(c + ' want=spec\n' for c in hot))
    R.run_driver(sp_in, sp_out)
    spec_of = {}
    for c, l in zip(hot, open(sp_out).read().splitlines()):
        spec_of[c] = R.parse_res(l).get('spec')
    for c, g, l in rows:
        gd, ld = R.parse_res(g), R.parse_res(l)
        op = cfield(c, 'op')
        per_op[op] = per_op.get(op, 0) + 1
        sp = spec_of.get(c)
        if sp not in (None, 'n/a') and not flag(gd):
            spec_checked += 1
            if gd.get('trace') != sp:
                if known_class(c, gd, ld):
                    spec_known += 1
                else:
                    bad.setdefault(op, []).append((c, g, sp))
    for op, lst in list(bad.items())[:3]:
        c, g, sp = min(lst, key=lambda t: len(t[0]))
        ctx.violation(f'C05: implementation differs from the definition (Spec) for {op} ({len(lst)} cases) outside the known-finding classes',
                      f'# the delivered trace is not the one the definition assigns to this arrival order\n{c}\n# implementation: {g}\n# definition:     trace={sp}\n')
    conc = conc_search(ctx)
    park = park_replay(ctx)
    return dict(
        rule='kind=multi: ops {Merge, MergeWith, MergeWithN, MergeAll(Just), MergeMapIWithContext, Race, RaceWith, Amb, TakeUntil, SkipUntil, SampleWhen, ThrottleWhen}; '
             'quick: 2 probes x legal scripts (<=2 values x {none,C,E}) x ALL interleavings; cold(sync) masks + illegal suffixes (<=1 value) x ALL interleavings; 3 probes (<=1 value) exhaustive + 6000 sampled '
             '(3-4 probes, <=3 values, cold probes, suffixes); MergeMap outer x 2 inner exhaustive (<=1 value) + 8000 sampled; random external cut on ~1/5. '
             'thorough: 2 probes <=3 values exhaustive, cold masks + suffixes exhaustive, 3 probes <=2 values exhaustive (<=1680 interleavings per tuple), 40k/60k sampled. '
             'compared: trace (with contexts), drops, per-step emission counts, per-probe subscriptions, teardown counters, subscription contexts; '
             'oracles on the implementation: Grammar, teardown<=subscriptions, release-after-end, trace = Spec on hot cases; non-trivial = something delivered and at least one hot notification',
        assumptions=['logical semantics: each notification is processed to quiescence before the next one is issued (sources are hot probes pushed by the harness, or cold probes that play inside Subscribe); '
                     'the free-running goroutine runs are a search, not a proof; the micro-step (atomic-action) model exists for TakeUntil only (the one operator of this half whose callback is more than one atomic action before/after the destination call)',
                     'the Lean theorems are about hot sources (arbitrary arrival orders); runs with synchronous (cold) sources - Merge/Race over cold sources, sources that terminate inside Subscribe - are covered by the differential correspondence, the grammar theorem and the release oracle only',
                     'MergeAll/MergeMap* theorem: the outer source never names the same inner source twice (a probe subscribed twice is outside the probe model)'],
        extra=dict(part_a=dict(cases_per_op=per_op, spec_oracle_cases=spec_checked, spec_known_class_hits=spec_known,
                               concurrent_search=conc, park_replay=park)))


PARK_CASES = [
    'N11@1,N12@2,E1@3;N21@1', 'N11@1,N12@2,C@3;N21@1', 'N11@1,E1@2;N21@1,N22@2', 'N11@1,C@2;N21@1,C@2',
    'N11@1,N12@2,N13@3,E1@4;N21@1,E2@2', 'N11@1,N12@2;N21@1',
]


def park_replay(ctx):
    """TakeUntil with the signal parked inside its callback (kind=multipark): the delivered trace must be the trace of
    some interleaving; the Lean side answers by theorem (C05a.takeUntil_concurrent). Deterministic detector of the
    flag-before-completion order that fix 3e5361a removed."""
    lines = [f'case park{i} kind=multipark op=TakeUntil sub=7 srcs={s} sync=0,0' for i, s in enumerate(PARK_CASES)]
    rows = R.replay_cases(ctx, lines)
    bad = [(c, g, l) for c, g, l in rows if proj_multi(R.parse_res(g)) != proj_multi(R.parse_res(l))]
    ctx.evaluations += len(rows)
    ctx.traces_validated += len(rows) - len(bad)
    if bad:   # not shrunk: the scripts are the witness
        c, g, l = bad[0]
        ctx.violation(f'C05 TakeUntil under true concurrency: with the signal parked inside its callback while the source goes on, the delivered trace is the trace of no interleaving ({len(bad)} of {len(rows)} cases)',
                      f'# TakeUntil, source and signal on different goroutines: the output must be the definition\'s output for SOME arrival order (C05a.takeUntil_concurrent)\n{c}\n# implementation: {g}\n# model/spec:     {l}\n# replay: ./check C05 --replay <this file>\n')
    return dict(cases=len(rows), unexplained=len(bad))


def multiset_perms(counts):
    """all interleavings of sources with the given numbers of notifications"""
    total = sum(counts)
    rem = list(counts)
    cur = []
    def rec():
        if len(cur) == total:
            yield tuple(cur)
            return
        for k in range(len(rem)):
            if rem[k] > 0:
                rem[k] -= 1
                cur.append(k)
                yield from rec()
                cur.pop()
                rem[k] += 1
    yield from rec()


def conc_search(ctx):
    """free-running goroutines with seeded jitter: the delivered trace must be the model's trace for SOME interleaving
    compatible with the scripts (search / validation only)."""
    cp = os.path.join(ctx.work, 'conc.cases')
    gp = os.path.join(ctx.work, 'conc.go')
    rc, o, e = R.sh([os.path.join(R.GO, 'bin', 'harness'), 'multiconc', '-tier', ctx.tier, '-seed', str(ctx.seed), '-cases', cp, '-res', gp],
                    cwd=ctx.work, env=R.GOENV, timeout=1200)
    if rc != 0:
        ctx.violation('multiconc: harness-failed', 'multiconc harness failed\n' + (o + e)[-2000:], no_input=True)
        return {}
    cases = open(cp).read().splitlines()
    gos = open(gp).read().splitlines()
    exp = []
    owner = []
    for i, c in enumerate(cases):
        scripts = cfield(c, 'srcs').split(';')
        counts = [0 if s == '-' else len(s.split(',')) for s in scripts]
        for perm in multiset_perms(counts) if sum(counts) <= 9 else []:
            order = ','.join(map(str, perm)) if perm else '-'
            exp.append(f"case {len(exp)} kind=multi op={cfield(c, 'op')} sub={cfield(c, 'sub')} srcs={cfield(c, 'srcs')} sync={cfield(c, 'sync')} order={order} cut=-")
            owner.append(i)
    ep = os.path.join(ctx.work, 'conc.expanded')
    lp = os.path.join(ctx.work, 'conc.lean')
    open(ep, 'w').write('\n'.join(exp) + '\n')
    ok, err = R.run_driver(ep, lp)
    allowed = {}
    for i, l in zip(owner, open(lp).read().splitlines()):
        allowed.setdefault(i, set()).add(R.parse_res(l).get('trace'))
    missed = []
    for i, (c, g) in enumerate(zip(cases, gos)):
        gd = R.parse_res(g)
        if flag(gd) or gd.get('trace') not in allowed.get(i, set()):
            missed.append((c, g, sorted(allowed.get(i, set()))[:6]))
    for c, g, al in missed[:2]:
        ctx.violation(f'C05 (search): a free-running run of {cfield(c, "op")} delivered a trace that no compatible interleaving explains ({len(missed)} runs)',
                      f'# goroutine-driven probes with seeded jitter; the trace is none of the model traces of the compatible interleavings\n{c}\n# implementation: {g}\n# some allowed traces: {al}\n')
    return dict(runs=len(cases), interleavings_evaluated=len(exp), unexplained=len(missed))


# one entry per half of the family; each returns dict(rule=, assumptions=[...], extra={...})
import C05b
import symmetry_part
import C05_gen

LEAN_MODULES = ['C05', 'C05b'] + symmetry_part.LEAN_MODULES + C05_gen.LEAN_MODULES + ['C10']

PARTS = [part_a, C05b.parts]


def check(ctx):
    rules, assumptions, extra = [], [], {}
    for part in PARTS:
        info = part(ctx) or {}
        if info.get('rule'):
            rules.append(info['rule'])
        assumptions += info.get('assumptions', [])
        extra.update(info.get('extra', {}))
    # a group of GroupBy / a window of WindowWhen keeps its source's order also while a late consumer is still being replayed the
    # backlog: a value the source sends meanwhile is delivered after the backlog, and the producer waits for it (kind=nextret; the
    # premise — Subscribe and its replay are one critical section of the unicast subject — is RoProps/C10 subjects_wellLocked)
    nrows = [r for r in R.run_kind(ctx, 'nextret', shards=2) if 'scen=groupby' in r[0] or 'scen=window' in r[0] or 'scen=unicast' in r[0]]
    R.compare(ctx, nrows, lambda d: (flag(d), d.get('order'), d.get('delivered')), 'C05 a group / window keeps its source order while a late subscriber is replayed the backlog',
              nontrivial=lambda c, gd: True, recheck=1)
    rules.append('kind=nextret (unicast, groupby, window): backlog 1, 2, 5 x repetitions; a value sent during the replay is delivered after the backlog')
    # an operator VALUE that captures other observables (MergeWith, ConcatWith, CombineLatestWith, ZipWith, RaceWith, TakeUntil, SkipUntil,
    # SampleWhen, BufferWhen, MergeMap, FlatMap ...) applied to two or three sources before any result is subscribed: each resulting
    # observable consumes ITS OWN sources (kind=reusemulti: equal to fresh operator values on the same sources; nothing subscribed at
    # construction; the statement it leans on is C12's reapply theorems: an operator is a function of its source)
    rrows = R.run_kind(ctx, 'reusemulti', shards=4)
    R.compare(ctx, rrows, lambda d: (flag(d), d.get('same'), d.get('built')), 'C05 one multi-source operator value applied to several sources: every result consumes its own sources',
              nontrivial=lambda c, gd: True, max_report=2)
    rules.append('kind=reusemulti: operator values capturing observables x 2-3 scripted sources, subscribed in reverse order and once more, compared with fresh operator values')
    sym = symmetry_part.parts(ctx)
    rules.append(sym['rule_part'])
    gen = C05_gen.parts(ctx)
    rules.append(gen['rule_part'])
    assumptions += gen['assumptions']
    return dict(rule=' || '.join(rules), assumptions=assumptions, extra=extra, search=combine_search(gen['search'], sym['search']))

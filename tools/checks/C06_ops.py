"""C06, operator-level half: Unsubscribe from inside the observer / from another goroutine mid-callback
through every operator and chain (kind `cutin`), and Collect (kind `collect`); theorems RoProps/C06op.
`parts(ctx)` is called by tools/checks/C06.py; `check`/`MANIFEST` allow `./check C06_ops quick` stand-alone."""
import re
import runner as R
from props import *

LEAN_MODULES = ['C06op']

MANIFEST = dict(
    text="Operator-level half. Proved in Lean for every machine (hence every chain: Machine.seq), subscription context, raw script and k>=1: an observer that calls Unsubscribe on its own "
         "subscription during its k-th callback - or another goroutine doing so while that callback is in progress - receives exactly the first k notifications of the undisturbed run "
         "(cut_in_out), the subscription is closed and the hot source released before the callback returns (cut_in_released), the rest of the same reaction is refused downstream and every later "
         "input upstream (cut_in_refuses_later, cut_in_stable), and an observer that never reaches k disturbs nothing (cut_in_unchanged); external Unsubscribe between inputs (cut_between). "
         "Collect equals the specification (values in order, terminal's error and context) applied to the gated trace for every machine, mode and script (collect_spec, collect_exact), is the same for "
         "synchronous and asynchronous sources (collect_sync_async) and returns exactly when the trace has a terminal (collect_returns_iff). "
         "Tie: every catalogue operator and random chains over hot probes with self-unsubscribing observers at every k in 1..len+1 (ready-made Subscriber and returned handle; same goroutine and "
         "another goroutine mid-callback): trace, refused notifications, raw teardown count, closed flag EQUAL to the model; ro.CollectWithContext over synchronous and goroutine-driven probes: "
         "returned values, error class, terminal context, and return/no-return EQUAL to the model; the same through Subscription.Wait with a terminal callback that blocks (Wait has not returned while it is in progress).",
    technique="Lean 4 proof (simulation between the undisturbed run and the cut-in run; fold lemma for the Collect observer) + differential correspondence of the executable model against the implementation",
    ref='5/C06')


def k_of(case):
    m = re.search(r'\bk=(\d+)', case)
    return int(m.group(1)) if m else 0


def oracle_cutin(case, gd):
    """C06 itself on the implementation result, without the model"""
    if flag(gd):
        return f'harness flag {flag(gd)}'
    n = len(toks(gd.get('trace')))
    if not grammar_ok(gd.get('trace')):
        return 'grammar: a notification was delivered after a terminal'
    k = k_of(case)
    if 'handle=ready' in case and k > 0:
        if n > k:
            return f'delivered-after-unsubscribe: {n} notifications delivered, Unsubscribe was called during callback {k}'
        if n == k and gd.get('closed') != '1':
            return 'not-closed: Unsubscribe returned inside the callback but the subscription does not report closed'
    if int(gd.get('rel', '0')) > 1:
        return f"teardown-twice: the source's teardown ran {gd.get('rel')} times"
    return None


def parts(ctx):
    rows = R.run_kind(ctx, 'cutin')
    R.compare(ctx, rows, proj_all, 'C06 Unsubscribe from inside a callback / from another goroutine mid-callback (operators and chains)',
              oracle=oracle_cutin, oracle_is_property=True, nontrivial=lambda c, gd: gd.get('trace', '-') != '-' and k_of(c) <= len(toks(gd.get('trace'))))
    rows = R.run_kind(ctx, 'collect')
    R.compare(ctx, rows, proj_all, 'C06 Collect over every operator and chains (synchronous and goroutine-driven source)',
              nontrivial=lambda c, gd: gd.get('ret') == '1' and gd.get('vals') not in ('[]', '-'))
    return dict(rule_part='cutin: every catalogue operator x parameters x variants x callbacks x scripts (3 endings + an illegal continuation) and random chains of 2-5 operators over a hot probe, '
                          'k = 1..(trace length + 1), {self, other goroutine mid-callback} x {ready-made Subscriber, returned handle}: trace, refused notifications (single operators), raw teardown count, closed; '
                          'oracle on the implementation: at most k delivered, closed once k delivered, teardown at most once. '
                          'collect: every catalogue operator and random chains x {sync probe, goroutine-driven probe}: returned slice, error class, terminal context; returns within the deadline iff the '
                          'delivered trace has a terminal (a further Complete offered to the source subscriber tells a slow return from a rightly blocked call); mode=wait: sub.Wait() from a second goroutine against '
                          'an observer whose terminal callback blocks: early=0')


def check(ctx):
    info = parts(ctx)
    return dict(rule=info['rule_part'])

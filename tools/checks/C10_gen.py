"""C10 (generated subject methods): RoProps/C10gen proves every clause of the hand-written subject
step functions (RoModel/Subjects.lean — what the C10 / C01(c) theorems are about) EQUAL, for every
state and argument, to the definition regenerated from subject_*.go on this run
(go/extract/subjgen.go -> lean/RoGen/SubjGen.lean), and the model's runs equal to the regenerated
code's runs (`run_gen`).

Nothing dynamic is needed on the unchanged tree. When `lake build RoProps.C10gen` fails,
`search` names the method whose regenerated definition changed (diff against the committed snapshot
lean/RoGen/SubjGen.snapshot, refreshed by tools/opgen_snapshot.py — never at check time) and points
the sequential correspondence at that subject kind with the thorough generator to obtain a concrete
operation sequence.   Stand-alone: ./check C10_gen quick
"""
import difflib, os, re
import runner as R
from props import *

LEAN_MODULES = ['C10gen']

MANIFEST = dict(
    text="The four operations, the broadcast helpers, unsubscribeAll, the constructor and the five state queries of every subject implementation are re-translated from subject_*.go into Lean definitions on every run "
         "(go/extract/subjgen.go -> RoGen/SubjGen.lean) and proved EQUAL, for every state and argument, to the corresponding clause of the hand-written step functions that the C10 theorems are about "
         "(under the representation invariants of `last` / `hasValue,value`, proved for every reachable state); run_gen: the model's runs are the regenerated code's runs. Methods the translator cannot read are listed and the list is proved empty.",
    technique="program translation (Go AST -> Lean definitions) + kernel-checked equality with the hand-written model",
    ref='5/C10')

GEN = os.path.join(R.LEAN, 'RoGen', 'SubjGen.lean')
SNAP = os.path.join(R.LEAN, 'RoGen', 'SubjGen.snapshot')
KINDS = ('publish', 'behavior', 'replay', 'async', 'unicast')


def parse_gen(text):
    blocks = {}
    for m in re.finditer(r'^-- @def (\S+)\n(.*?)(?=^-- @def |^-- @end)', text, flags=re.S | re.M):
        blocks[m.group(1)] = m.group(2).strip('\n')
    skipped = dict(re.findall(r'^\s*\("([^"]+)", "((?:[^"\\]|\\.)*)"\),?$', text.split('def skipped', 1)[-1], flags=re.M))
    return blocks, skipped


def changed_defs():
    if not (os.path.exists(GEN) and os.path.exists(SNAP)):
        return None
    nb, ns = parse_gen(open(GEN).read())
    ob, _ = parse_gen(open(SNAP).read())
    out = []
    for d in list(ob) + [x for x in nb if x not in ob]:
        old, new = ob.get(d), nb.get(d)
        strip = lambda t: re.sub(r'/-- subject_\w+\.go:\d+ -/\n', '', t or '')     # line numbers move with any edit above
        if strip(old) == strip(new):
            continue
        if new is None:
            out.append((d, 'no longer translated: ' + ns.get(d, 'the method is gone'), ['- ' + l for l in old.splitlines()]))
        elif old is None:
            out.append((d, 'newly translated; no equality theorem covers it', ['+ ' + l for l in new.splitlines()]))
        else:
            diff = [l for l in difflib.unified_diff(old.splitlines(), new.splitlines(), 'snapshot', 'regenerated', lineterm='', n=1) if not l.startswith(('---', '+++'))]
            out.append((d, 'regenerated definition differs from the snapshot', diff))
    return out


def search(ctx, out):
    ch = changed_defs()
    if not ch:
        return False
    import C10
    errs = sorted(set(re.findall(r'error: (\S*C10gen\.lean:\d+:\d+)', out)))
    kinds = []
    for d, _, _ in ch:
        k = d.split('_')[0]
        if k in KINDS and k not in kinds:
            kinds.append(k)
    head = ('# the definition regenerated from subject_*.go is no longer equal to the clause of the hand-written step function the C10 theorems are about\n'
            f'# (lake build RoProps.C10gen fails: {", ".join(errs) or "see evidence notes"})\n' +
            ''.join(f'# {d} — {why}\n' + '\n'.join('#   ' + l for l in diff) + '\n' for d, why, diff in ch[:6]))
    before = len(ctx.violations)
    ran = False
    for k in kinds[:3]:
        rows = R.run_kind(ctx, 'subject', extra=['-only', k], tier='thorough')
        if rows:
            ran = True
            R.compare(ctx, rows, C10.proj_seq, f'C10 sequential: real {k} subject vs step function (regenerated method changed; thorough generator)',
                      oracle=C10.oracle_seq, nontrivial=C10.nontrivial_seq)
        if len(ctx.violations) > before:
            break
    if len(ctx.violations) > before:
        ctx.notes.append(head)
        msg, path, no_input = ctx.violations[-1]
        with open(os.path.join(R.VERIF, path), 'a') as f:
            f.write(head)
        return True
    ctx.violation('C10gen: regenerated subject method(s) ' + ', '.join(d for d, _, _ in ch[:6]) + ' no longer equal the model; ' +
                  ('the sequential correspondence (thorough generator) shows no behavioural difference' if ran else 'no subject kind to run'),
                  head + ('# correspondence (kind=subject, thorough generator) agrees on every generated sequence\n' if ran else ''), no_input=True)
    return True


def parts(ctx):
    ch = changed_defs()
    if ch is None:
        ctx.violation('C10gen: lean/RoGen/SubjGen.lean or its snapshot is missing', 'missing ' + GEN + ' or ' + SNAP + '\n', no_input=True)
    elif ch and not getattr(ctx, 'lake_failed', None):
        ctx.notes.append('SubjGen.lean differs from its snapshot for ' + ', '.join(d for d, _, _ in ch) + ' but all equalities still hold (run tools/opgen_snapshot.py)')
    blocks = parse_gen(open(GEN).read())[0] if os.path.exists(GEN) else {}
    return dict(rule_part=f'{len(blocks)} subject definitions regenerated from subject_*.go and proved equal to the clauses of the hand-written step functions (all states, all arguments; run_gen for all operation sequences); '
                          'on a failed equality: snapshot diff names the method, kind=subject -only <kind> with the thorough generator searches a failing sequence',
                search=search)


def check(ctx):
    p = parts(ctx)
    return dict(rule=p['rule_part'], search=p['search'],
                assumptions=['the translator go/extract/subjgen.go is faithful on the statement forms it accepts (its header lists them and the field encoding); its output is checked against the independently hand-written step functions by the kernel'])

"""C04 (generated machines): RoProps/C04gen proves every machine regenerated from the Go source
(lean/RoGen/OpsGen.lean, written by go/extract/opgen.go on every run) EQUAL to the hand-written
machine the C04 theorems are about — or, where the Go code's own state encoding differs from the
hand-written one (ring buffer, counters, zero values, floats), to SIMULATE it (Machine.Sim: same
trace, drops and steps for every raw script).

Nothing dynamic is needed on the unchanged tree (the equalities are theorems). When
`lake build RoProps.C04gen` fails, `parts(ctx)` supplies the search that says WHICH operator's
regenerated machine changed (diff against the committed snapshot lean/RoGen/OpsGen.snapshot, kept
up to date by tools/opgen_snapshot.py — never at check time) and points the C04 correspondence at
that operator to obtain a concrete failing input.

Wiring into C04.py (not done here):
    import C04_gen
    LEAN_MODULES = ['C04'] + C04_gen.LEAN_MODULES
    def check(ctx):
        ...                       # as before
        g = C04_gen.parts(ctx)
        return dict(rule=... + '; ' + g['rule_part'], search=g['search'])
Stand-alone during development:  ./check C04_gen quick
"""
import difflib, os, re
import runner as R
from props import *

LEAN_MODULES = ['C04gen']

MANIFEST = dict(
    text="Every single-source template operator is re-translated from its Go source into a Lean Machine on every run (go/extract/opgen.go -> RoGen/OpsGen.lean) "
         "and proved EQUAL, for all parameters, to the hand-written machine that the C04 specification theorems are about (or, where the state encodings differ, proved to simulate it: same trace, drops, steps for every script); operators outside the translated fragment "
         "are listed (RoGen.Ops.skipped) and the list is checked. A changed operator breaks its equality at lake build and is named; the correspondence run supplies the input.",
    technique="program translation (Go AST -> Lean definitions) + kernel-checked equality / simulation with the hand-written model",
    ref='5/C04')

GEN = os.path.join(R.LEAN, 'RoGen', 'OpsGen.lean')
SNAP = os.path.join(R.LEAN, 'RoGen', 'OpsGen.snapshot')

# Go function name -> operator name of the `ops` harness kind (go/harness/ops.go); default: the
# name without its `IWithContext` / `WithContext` suffix
HARNESS_NAME = {'DefaultIfEmptyWithContext': 'DefaultIfEmptyWithContext', 'TapOnSubscribeWithContext': 'TapOnSubscribe'}


def proj_trace(d):
    """what a machine determines: the delivered notifications in order, values AND contexts
    (the C04 specifications carry the contexts; C09 compares them on the unchanged tree)"""
    return (flag(d), toks(d.get('trace')))


def harness_names(op):
    out = [HARNESS_NAME[op]] if op in HARNESS_NAME else []
    for suf in ('IWithContext', 'WithContext', ''):
        n = op[:-len(suf)] if suf and op.endswith(suf) else op
        if n not in out:
            out.append(n)
    return out


def parse_gen(text):
    """OpsGen.lean -> ({operator: block text}, {operator: skip reason}, {operator: guards text})"""
    blocks = {}
    for m in re.finditer(r'^-- @op (\S+)\n(.*?)(?=^-- @op |^-- @end)', text, flags=re.S | re.M):
        blocks[m.group(1)] = m.group(2).strip('\n')
    skipped = dict(re.findall(r'^\s*\("([^"]+)", "((?:[^"\\]|\\.)*)"\),?$', text.split('def skipped', 1)[-1].split('def guards', 1)[0], flags=re.M))
    guards = dict(re.findall(r'^\s*\("([^"]+)", (\[.*\])\),?$', text.split('def guards', 1)[-1], flags=re.M))
    return blocks, skipped, guards


def changed_ops():
    """[(operator, what happened, [diff lines])] between the committed snapshot and the regenerated file"""
    if not (os.path.exists(GEN) and os.path.exists(SNAP)):
        return None
    nb, ns, ng = parse_gen(open(GEN).read())
    ob, os_, og = parse_gen(open(SNAP).read())
    out = []
    for op in list(ob) + [o for o in nb if o not in ob]:
        old, new = ob.get(op), nb.get(op)
        if old == new and og.get(op) == ng.get(op):
            continue
        if new is None:
            why = f'no longer translated: {ns.get(op, "the function is gone or is no longer a pipeable operator body")}'
            diff = ['- ' + l for l in old.splitlines()]
        elif old is None:
            why = 'newly translated (was: ' + os_.get(op, 'not present') + '); no equality theorem covers it'
            diff = ['+ ' + l for l in new.splitlines()]
        else:
            why = 'regenerated machine differs from the snapshot'
            diff = [l for l in difflib.unified_diff(old.splitlines(), new.splitlines(), 'snapshot', 'regenerated', lineterm='', n=1) if not l.startswith(('---', '+++'))]
            if og.get(op) != ng.get(op):
                diff += [f'- guards {og.get(op)}', f'+ guards {ng.get(op)}']
        out.append((op, why, diff))
    # operators that moved in or out of `skipped` without ever being translated
    for op in sorted(set(os_) ^ set(ns)):
        if op not in ob and op not in nb:
            out.append((op, ('appeared in' if op in ns else 'disappeared from') + ' the list of operator bodies outside the fragment', [ns.get(op, os_.get(op, ''))]))
    return out


def search(ctx, out):
    """lake build RoProps.C04gen failed: name the operator(s) whose regenerated machine changed and
    look for a concrete failing input with the C04 correspondence restricted to each of them"""
    ch = changed_ops()
    if not ch:
        return False      # nothing regenerated differs: not ours (hand-written Lean edited, stale snapshot …)
    errs = sorted(set(re.findall(r'error: (\S*C04gen\.lean:\d+:\d+)', out)))
    for op, why, diff in ch[:4]:
        head = (f'# the machine regenerated from the Go source of `{op}` is no longer equal to (or a refinement of) the hand-written machine the C04 theorems are about\n'
                f'# (lake build RoProps.C04gen fails: {", ".join(errs) or "see evidence notes"})\n'
                f'# operator: {op} — {why}\n# changed lines of lean/RoGen/OpsGen.lean (snapshot -> regenerated):\n' + '\n'.join('#   ' + l for l in diff) + '\n')
        before = len(ctx.violations)
        ran = False
        for hn in harness_names(op):
            rows = R.run_kind(ctx, 'ops', extra=['-only', hn])
            if rows:
                ran = True
                R.compare(ctx, rows, proj_trace, f'C04 delivered notifications, values and contexts ({op}: regenerated machine changed)', nontrivial=nontrivial_op)
                break
        if len(ctx.violations) > before:
            # a concrete failing input was written by R.compare; add the naming replay next to it
            ctx.notes.append(head)
            msg, path, no_input = ctx.violations[-1]
            with open(os.path.join(R.VERIF, path), 'a') as f:
                f.write(head)
            continue
        ctx.violation(f'C04gen: regenerated machine of {op} is not equal to the model any more ({why}); ' +
                      ('the correspondence run of this operator shows no behavioural difference' if ran else 'no harness operator of this name to run'),
                      head + ('# correspondence (kind=ops, -only) agrees on every generated case: behaviour unchanged on the sampled inputs\n' if ran else ''),
                      no_input=True)
    return True


def parts(ctx):
    ch = changed_ops()
    if ch is None:
        ctx.violation('C04gen: lean/RoGen/OpsGen.lean or its snapshot is missing', 'missing ' + GEN + ' or ' + SNAP + '\n', no_input=True)
    elif ch and not getattr(ctx, 'lake_failed', None):
        # the text changed but every equality still checks: a harmless rewrite; refresh the snapshot off-line
        ctx.notes.append('OpsGen.lean differs from its snapshot for ' + ', '.join(o for o, _, _ in ch) + ' but all equalities still hold (run tools/opgen_snapshot.py)')
    blocks = parse_gen(open(GEN).read())[0] if os.path.exists(GEN) else {}
    return dict(rule_part=f'{len(blocks)} operator machines regenerated from the Go source and proved equal to / simulating the hand-written machines (all parameters, all scripts); '
                          'on a failed equality: snapshot diff names the operator, kind=ops -only <operator> searches a failing input',
                search=search)


def check(ctx):
    p = parts(ctx)
    return dict(rule=p['rule_part'], search=p['search'],
                assumptions=['the translator go/extract/opgen.go is faithful on the fragment it accepts (docs/opgen.md); its output is checked against the independently hand-written machines by the kernel'])

"""C05 (generated multi-source machines): RoProps/C05gen proves every machine regenerated from the Go source of
TakeUntil, SkipUntil (operator_filter.go), SampleWhen, ThrottleWhen (operator_transformations.go), MergeAll (operator_combining.go;
Merge / MergeWith* / MergeMap* are MergeAll over a synchronous or projected outer observable) — go/extract/multigen.go
-> lean/RoGen/MultiGen.lean — to REFINE the hand-written machine of RoModel/Multi/OpsA.lean that the C05 theorems are
about (MMachine.Sim; RoProofs/MultiSim.lean: indistinguishable runs for every source configuration, subscription
context, interleaving and cut). When `lake build RoProps.C05gen` fails, `search` names the operator whose regenerated
machine changed (diff against the committed snapshot lean/RoGen/MultiGen.snapshot) and points kind=multi at that
operator with the thorough generator."""
import difflib, os, re
import runner as R
from props import *

LEAN_MODULES = ['C05gen']
GEN = os.path.join(R.LEAN, 'RoGen', 'MultiGen.lean')
SNAP = os.path.join(R.LEAN, 'RoGen', 'MultiGen.snapshot')
# the harness operators (kind=multi) that run a translated Go body
HARNESS_OPS = {'MergeAll': ['MergeAll', 'Merge', 'MergeWith', 'MergeWithN', 'MergeMap']}


def parse_gen(text):
    blocks = {}
    for m in re.finditer(r'^-- @gen (\S+)\n(.*?)(?=^-- @gen |^-- @end)', text, flags=re.S | re.M):
        body = re.sub(r'/-- the locals of .*? -/\n', '', m.group(2))
        body = re.sub(r'^-- @names.*\n', '', body, flags=re.M)
        blocks[m.group(1)] = body.strip('\n')
    skipped = dict(re.findall(r'\("([^"]+)", "((?:[^"\\]|\\.)*)"\)', text.split('def skipped', 1)[-1]))
    return blocks, skipped


def changed():
    if not (os.path.exists(GEN) and os.path.exists(SNAP)):
        return None
    nb, ns = parse_gen(open(GEN).read())
    ob, _ = parse_gen(open(SNAP).read())
    out = []
    for op in list(ob) + [o for o in nb if o not in ob]:
        old, new = ob.get(op), nb.get(op)
        if old == new:
            continue
        if new is None:
            out.append((op, 'no longer translated: ' + ns.get(op, 'function gone'), ['- ' + l for l in old.splitlines()]))
        elif old is None:
            out.append((op, 'newly translated; no refinement theorem covers it', ['+ ' + l for l in new.splitlines()]))
        else:
            out.append((op, 'regenerated machine differs from the snapshot',
                        [l for l in difflib.unified_diff(old.splitlines(), new.splitlines(), 'snapshot', 'regenerated', lineterm='', n=1) if not l.startswith(('---', '+++'))]))
    return out


def search(ctx, out):
    if 'C05gen' not in out:
        return False
    ch = changed()
    if not ch:
        return False
    import C05
    errs = sorted(set(re.findall(r'error: (\S*C05gen\.lean:\d+:\d+)', out)))
    for op, why, diff in ch[:4]:
        head = (f'# the machine regenerated from the Go source of `{op}` no longer refines the hand-written machine the C05 theorems are about\n'
                f'# (lake build RoProps.C05gen fails: {", ".join(errs) or "see evidence notes"})\n# {op} — {why}\n' + '\n'.join('#   ' + l for l in diff) + '\n')
        before = len(ctx.violations)
        rows = []
        for hop in HARNESS_OPS.get(op, [op]):
            rows += R.run_kind(ctx, 'multi', extra=['-only', hop], tier='thorough')
        if rows:
            R.compare(ctx, rows, C05.proj_multi, f'C05 {op}, every interleaving (regenerated machine changed; thorough generator)',
                      oracle=C05.oracle_release, nontrivial=lambda c, gd: True)
        if len(ctx.violations) > before:
            msg, path, no_input = ctx.violations[-1]
            with open(os.path.join(R.VERIF, path), 'a') as f:
                f.write(head)
        else:
            ctx.violation(f'C05gen: the regenerated machine of {op} no longer refines the model ({why}); ' +
                          ('the logical (one notification at a time) correspondence of this operator shows no behavioural difference — the change may only show between goroutines'
                           if rows else 'no harness case for this operator'), head, no_input=True)
    return True


def parts(ctx):
    ch = changed()
    if ch is None:
        ctx.violation('C05gen: lean/RoGen/MultiGen.lean or its snapshot is missing', 'missing ' + GEN + ' or ' + SNAP + '\n', no_input=True)
    elif ch and not getattr(ctx, 'lake_failed', None):
        ctx.notes.append('MultiGen.lean differs from its snapshot for ' + ', '.join(o for o, _, _ in ch) + ' but all refinements still hold (run tools/opgen_snapshot.py)')
    return dict(rule_part='5 multi-source machines (TakeUntil, SkipUntil, SampleWhen, ThrottleWhen, MergeAll) regenerated from the Go source and proved to refine the hand-written machines (MMachine.Sim: all configurations, interleavings, cuts)',
                search=search,
                assumptions=['the translator go/extract/multigen.go is faithful on the fragment it accepts (its header; mutex operations dropped, atomics sequential, deferred destination calls made last); its output is checked against the hand-written machines by the kernel'])

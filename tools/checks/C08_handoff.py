"""Hand-off half of C08 (queues are bounded FIFO): ObserveOn / SubscribeOn / ToChannel.
The integrator's C08.py calls `parts(ctx)` next to its synchronous part; theorems: RoProps/C08.lean
section "hand-off" (audited with the rest of that file)."""
import runner as R
from props import *
import chan_common as CC

TEXT = ("Hand-off (ObserveOn, SubscribeOn, ToChannel): proved in Lean for every capacity, raw script, source mode and schedule of producer, consumer and unsubscriber "
        "(RoModel/Chan.lean `Pipe`, invariants by induction over the schedule): entered = sent ++ failed ++ in-hand, sent = consumed ++ in-hand ++ queued, |queue| <= capacity, "
        "entered is a prefix of the gated script => consumer sees the notifications in order, none missing, terminal last; produced - consumed <= capacity + 2 at every state while nobody "
        "unsubscribed (in general + the sends thrown away on the closed channel, at most one for a registered source); channel closed at most once, exactly once after stop(); no deadlock: "
        "both ends idle => the final observer has exactly gate(script). Tie: kind=chan equality runs for ObserveOn/SubscribeOn/ToChannel + kind=chanv slow/stalled consumers with measured "
        "produced-consumed counters.")


def parts(ctx):
    CC.check_det(ctx, ('ObserveOn', 'SubscribeOn', 'ToChannel', 'Collect'), 'C08 hand-off operators (deterministic runs)')
    stats = CC.check_val(ctx, ('ObserveOn', 'SubscribeOn', 'ToChannel', 'FromChannel'), 'C08 hand-off operators under slow consumers')
    return dict(rule='hand-off: kind=chan ObserveOn/SubscribeOn x capacities {1,2,3} (ToChannel also 0) x every script and ending x {sync, hot} x Unsubscribe at every point, delivered trace with '
                     'contexts compared with equality against the model; kind=chanv slow / stalled consumer x capacities: trace == gate(script), measured max(produced - consumed) <= capacity + 2 '
                     '(counter incremented before the source emits, after the consumer callback returns), racing unsubscription: prefix, at most one failed send, no escape',
                assumptions=['Go channels and sync.Once modelled with textbook semantics (RoModel/Chan.lean header)'],
                extra=dict(handoff=stats, text=TEXT), search=CC.shape_search)

import runner as R
from props import *
import C06_ops
try:
    import C06_kernel
except ImportError:
    C06_kernel = None

import emitlock_part

# C03lock: no operator emits while holding a lock its own teardown takes (regenerated EmitLocks table) — the premise of "an Unsubscribe
# from inside a delivered callback returns" for the operators that own a lock
LEAN_MODULES = C06_ops.LEAN_MODULES + emitlock_part.LEAN_MODULES + (C06_kernel.LEAN_MODULES if C06_kernel else []) + ['C06lock']

MANIFEST = dict(
    text="Operator half, proved in Lean for every machine (chains are machines), raw script and k: Unsubscribe from inside the k-th delivered callback cuts delivery exactly there "
         "(cut_in_out: out = take k of the undisturbed trace), the run is released at once and stays silent whatever the source does (cut_in_released, cut_in_stable, cut_in_refuses_later), "
         "an external Unsubscribe between two inputs likewise (cut_between); Collect returns exactly the delivered values in order with the terminal's error, the same for synchronous and "
         "asynchronous sources, and returns iff the trace has a terminal (collect_exact, collect_sync_async, collect_returns_iff). Tie: kinds cutin (self-unsubscribe in the k-th callback, "
         "another goroutine unsubscribing while a callback is in progress, returned-handle variant; every catalogue operator and random chains), collect (synchronous and goroutine-driven probes; "
         "Wait/Collect must not return while the terminal callback is in progress) compared with equality against the model, plus independent oracles on the implementation. "
         "Kernel half (status monotone, cut under any schedule, IsClosed/Wait truthful): see the kernel part when present in this build. "
         "Teardowns run outside the producer lock, for the subscriber programs REGENERATED on this run and any schedule (C06lock.regenerated_teardowns_outside_mu, through the decidable lock-discipline "
         "checker and its soundness theorem, independent of the program-equality tie); kind=tdwait runs the 'stop the second producer and wait for it' teardown on a stream that ends by itself "
         "(plain, through Map / a chain / Merge, under Collect) and requires that nothing hangs.",
    technique="Lean 4 proof (simulation between the cut-in run and the undisturbed run; Collect as a function of the gated trace) + differential correspondence",
    ref='5/C06')


def tdwait_search(ctx, out):
    """C06lock no longer checks: the regenerated subscriber programs run a teardown (or call another method) while holding the producer lock"""
    if 'C06lock' not in out:
        return False
    bad = getattr(ctx, 'tdwait_bad', [])
    if not bad:
        rows = R.run_kind(ctx, 'tdwait', tier='thorough', shards=4)
        bad = [(c, g, l) for c, g, l in rows if g.split(None, 2)[2:] != l.split(None, 2)[2:]]
    if bad:
        c, g, l = bad[0]
        ctx.violation(f'C06: the subscriber runs its teardowns under the producer lock: a stream that ended by itself hangs in its teardown ({len(bad)} cases)',
                      'theorem Ro.C06lock.regenerated_programs_wellLocked no longer holds (RoGen.Kernel.table is rejected by the lock-discipline checker)\n'
                      f'# concrete run: two producers on a safe subscriber, teardown = stop the first and wait until it has left\n{c}\n# implementation: {g}\n# model: {l}\n')
        return True
    return False


def check(ctx):
    ctx.tdwait_bad = []
    trows = R.run_kind(ctx, 'tdwait', shards=4)
    for c, g, l in trows:
        if g.split(None, 2)[2:] != l.split(None, 2)[2:]:
            ctx.tdwait_bad.append((c, g, l))
    R.compare(ctx, trows, proj_all, 'C06 a stream that ends by itself runs its teardowns outside the producer lock (teardown stops a second producer and waits for it)', nontrivial=lambda c, gd: True, recheck=1)
    o = C06_ops.parts(ctx)
    el = emitlock_part.parts(ctx)
    rules, assumptions, searches, extra = [o['rule_part'], el['rule_part'], 'kind=tdwait: 5 pipelines x {C,E} x repetitions, equality with the constant model line (hang=0 wait=returned)'], [], [tdwait_search, o.get('search'), el['search']], {}
    if C06_kernel:
        k = C06_kernel.parts(ctx)
        rules.append(k.get('rule', ''))
        assumptions += k.get('assumptions') or []
        searches.append(k.get('search'))
        extra.update(k.get('extra') or {})
    return dict(rule='; '.join(rules), assumptions=assumptions, extra=extra, search=combine_search(*searches))

import runner as R
from props import *
import kernel_part as K

MANIFEST = dict(
    text="Kernel part: proved in Lean for every mode, threads, scripts and schedule: status is monotone; after the return event of any Unsubscribe/Error/Complete "
         "status != 0; from then on a thread between two calls (every later-called Next/Error/Complete) never reaches callback-begin under any continuation and its "
         "IsClosed answers true (kernel_unsubscribe_cuts, kernel_cut_not_armed); Unsubscribe never takes the producer lock; Wait returns only when its finalizer ran and "
         "done holds (kernel_wait_returns_when_done). Tie: program equality (F) + one-thread logs exact + stress with unsubscribers/waiters/producers (K). "
         "Collect and the unicast self-deadlock are separate slices.",
    technique="Lean 4 proof (invariants over an interpreter of extracted programs, induction on the schedule and on its continuation) + regenerated program table + differential/stress harness",
    ref='5/C06')


def check(ctx):
    return K.kernel_part(ctx, 'C06')

import runner as R
from props import *
import C06_ops
try:
    import C06_kernel
except ImportError:
    C06_kernel = None

import emitlock_part

# C03lock: no operator emits while holding a lock its own teardown takes (regenerated EmitLocks table) — the premise of "an Unsubscribe
# from inside a delivered callback returns" for the operators that own a lock
LEAN_MODULES = C06_ops.LEAN_MODULES + emitlock_part.LEAN_MODULES + (C06_kernel.LEAN_MODULES if C06_kernel else [])

MANIFEST = dict(
    text="Operator half, proved in Lean for every machine (chains are machines), raw script and k: Unsubscribe from inside the k-th delivered callback cuts delivery exactly there "
         "(cut_in_out: out = take k of the undisturbed trace), the run is released at once and stays silent whatever the source does (cut_in_released, cut_in_stable, cut_in_refuses_later), "
         "an external Unsubscribe between two inputs likewise (cut_between); Collect returns exactly the delivered values in order with the terminal's error, the same for synchronous and "
         "asynchronous sources, and returns iff the trace has a terminal (collect_exact, collect_sync_async, collect_returns_iff). Tie: kinds cutin (self-unsubscribe in the k-th callback, "
         "another goroutine unsubscribing while a callback is in progress, returned-handle variant; every catalogue operator and random chains), collect (synchronous and goroutine-driven probes; "
         "Wait/Collect must not return while the terminal callback is in progress) compared with equality against the model, plus independent oracles on the implementation. "
         "Kernel half (status monotone, cut under any schedule, IsClosed/Wait truthful): see the kernel part when present in this build.",
    technique="Lean 4 proof (simulation between the cut-in run and the undisturbed run; Collect as a function of the gated trace) + differential correspondence",
    ref='5/C06')


def check(ctx):
    o = C06_ops.parts(ctx)
    el = emitlock_part.parts(ctx)
    rules, assumptions, searches, extra = [o['rule_part'], el['rule_part']], [], [o.get('search'), el['search']], {}
    if C06_kernel:
        k = C06_kernel.parts(ctx)
        rules.append(k.get('rule', ''))
        assumptions += k.get('assumptions') or []
        searches.append(k.get('search'))
        extra.update(k.get('extra') or {})
    return dict(rule='; '.join(rules), assumptions=assumptions, extra=extra, search=combine_search(*searches))

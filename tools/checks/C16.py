import re, os
import runner as R
from props import *

MANIFEST = dict(
    text="Lean theorems on the timed model (timers and tickers may fire late, never early - the only assumption): Delay's k-th delivery is the k-th emission, no sooner than its delay later "
         "(pigeonhole over the AfterFunc callbacks) and in emission order; Interval / IntervalWithInitial / Timer / RangeWithInterval emit 0,1,2,... with value k not before k+1 periods "
         "(initial + k periods, every initial >= 0 and interval > 0); Timeout errors only after a full quiet period measured from the end of the last forwarded Next and never after a forwarded terminal; ThrottleTime's consecutive "
         "passes are more than the window apart; sampling gives at most one value per tick, always the latest; time-buffers emit only source values in source order; silence after teardown, and after context cancellation as a count (at most 8 further ticks + flush + terminal + one per late source call - a stream that keeps delivering is rejected). "
         "Tie (weaker than equality, stated honestly): the real operators are run in real time over seeded timelines and the proved acceptor (`accepts -> clause`, and `model run -> accepts`) "
         "must ACCEPT every observed timed trace - acceptance of observed traces, not equality of outputs; only lower bounds on time and order/count relations are judged, so machine load cannot raise an alarm."
         " RangeWithStepAndInterval shares the range clause with a step: value k is a +- k*step and the completion follows exactly ceil(|b-a|/step) values (accepted_range_complete, rangeCount_exact) - the acceptor rejected the pinned tree's floor (repaired, /repo 37faea0)."
         ' cut=deadline:T (context.WithDeadline) cases; RepeatWithInterval through the range clause.',
    technique="Lean 4 proof on a timed model + acceptance of real-time traces by a proved acceptor",
    ref='5/C16')

OPS = ['Delay', 'DelayEach', 'Timeout', 'Interval', 'IntervalWithInitial', 'Timer', 'RangeWithInterval', 'RangeWithStepAndInterval', 'RepeatWithInterval',
       'ThrottleTime', 'SampleTime', 'BufferWithTime', 'BufferWithTimeOrCount']


def field(case, k, d='-'):
    m = re.search(r'\b' + k + r'=(\S+)', case)
    return m.group(1) if m else d


def obs_parts(case):
    o = field(case, 'obs', '')
    p = o.split('|')
    return p if len(p) == 5 else None


def verdict(d):
    return (flag(d), d.get('accept'))


def judge(ctx, rows, stats, classes):
    """every observed trace must be accepted; returns {op: [(case, go, lean)]} of rejected ones.
    `classes`: {(op, why): finding} - rejections that fall exactly into the class of a listed known
    finding whose witness cannot be replayed on demand (a race); they are collected in ctx.class_hits."""
    bad = {}
    for c, g, l in rows:
        ctx.evaluations += 1
        gd, ld = R.parse_res(g), R.parse_res(l)
        op = field(c, 'op', '?')
        st = stats.setdefault(op, dict(cases=0, deliveries=0, cut_out=0, cut_in=0, cancel=0, slow=0, timeouts_fired=0, harness_timeout=0))
        st['cases'] += 1
        p = obs_parts(c)
        if p:
            dels = [] if p[2] == '-' else p[2].split(',')
            st['deliveries'] += len(dels)
            st['cut_out'] += p[3].startswith('u:')
            st['cut_in'] += p[3].startswith('i:')
            st['cancel'] += p[3].startswith('c:')
            st['slow'] += field(c, 'slow') != '-'
            st['timeouts_fired'] += any(x.endswith(':Eto') for x in dels)
            if dels:
                ctx.distinct.add(R.hashlib.md5(R.case_key(c).encode()).digest()[:8])
        if gd.get('hto') == '1':
            st['harness_timeout'] += 1
        if len(ctx.samples) < 4 and ctx.evaluations % 997 == 1:
            ctx.samples.append({'case': c[:600], 'impl': g, 'model': l})
        if verdict(gd) != verdict(ld) or gd.get('accept') != '1':
            k = classes.get((op, ld.get('why')))
            if k is not None and ld.get('accept') == '0' and not flag(ld):
                ctx.class_hits.setdefault(k['key'], []).append(c)
                continue
            bad.setdefault(op, []).append((c, g, l))
        elif gd.get('hto') != '1':
            ctx.traces_validated += 1
    return bad


def replay_finding(ctx, k, attempts=12):
    """a C16 finding is 'still there' when a fresh real-time run of its witness is rejected by the
    acceptor with the recorded reason (the observation differs from run to run, the verdict must not)"""
    want = k.get('expect', '')
    for _ in range(attempts):
        res = R.replay_cases(ctx, [k['witness']])
        if not res:
            continue
        got = ' '.join(res[0][2].split()[2:])
        if re.fullmatch(want, got):
            return True, got
    return False, got


def check(ctx):
    # known findings first (witness replayed on the real code, judged by the acceptor)
    classes = {}
    ctx.class_hits = {}
    for k in getattr(ctx, 'known_static', []):
        if k.get('class'):      # a race: cannot be replayed on demand; recognised by its class when it shows up
            op, why = k['class'].split('/')
            classes[(op, why)] = k
            continue
        ok, got = replay_finding(ctx, k)
        if ok:
            ctx.known.append(f"{k['key']}: {k['what']}")
        else:
            ctx.notes.append(f"known finding {k['key']} no longer reproduces (acceptor now says: {got})")

    stats = {}
    rows = R.run_kind(ctx, 'timed', shards=4)
    bad = judge(ctx, rows, stats, classes)
    for key, cs in ctx.class_hits.items():
        k = [x for x in classes.values() if x['key'] == key][0]
        ctx.known.append(f"{key}: {k['what']} [observed in this run: {len(cs)} trace(s), e.g. {min(cs, key=len)[:400]}]")
    for op, lst in list(bad.items())[:6]:
        c, g, l = min(lst, key=lambda t: len(t[0]))
        ctx.violation(f'C16 timed acceptance: {len(lst)} observed trace(s) of {op} rejected by the proved acceptor ({" ".join(l.split()[2:])})',
                      f'# C16: the real {op} produced a timed trace that the acceptor (Ro.Timed.accepts, proved sound for the clause of C16) rejects.\n'
                      f'# The case line carries the observed trace (obs=sub|emissions|deliveries|cut|flags, integer microseconds; see go/harness/timed.go).\n'
                      f'{c}\n# implementation must be: {g}\n# acceptor says:         {l}\n'
                      f'# replay (re-runs the case in real time and judges the fresh trace): ./check {ctx.prop} --replay <this file>\n')
    hto = sum(s['harness_timeout'] for s in stats.values())
    if hto:
        ctx.notes.append(f'{hto} case(s): the terminal that cancellation must produce did not arrive within the guard (harness-timeout; counted, never a pass, never a violation)')
        print(f'# C16: {hto} harness-timeout case(s) (see evidence)')
    missing = [op for op in OPS if stats.get(op, {}).get('deliveries', 0) == 0]
    if missing and not ctx.violations:
        ctx.violation('C16: no delivery observed at all for ' + ','.join(missing), 'no delivery observed for ' + ','.join(missing) + '\n', no_input=True)
    return dict(
        rule='11 time-driven operators x durations {2,3,5 ms} (thorough: 1..12 ms) x seeded timelines (bursts, gaps around the duration, short gaps, long gaps; 0..7 values, '
             'thorough 0..12) x {complete, error, no terminal} x slow consumer x cut {none, Unsubscribe from another goroutine at a random instant, Unsubscribe inside the k-th delivery, '
             'context cancellation at a random instant}; corpus of mutant-distinguishing shapes first; run in real time, all cases of a shard concurrently; '
             'judged: acceptance of the observed timed trace by Ro.Timed.accepts (lower bounds on time, order/count relations only); non-trivial = at least one delivery observed',
        assumptions=['after ctx.Done() is ready the select loop of Interval/IntervalWithInitial takes at most cancelSlack = 8 more ticks before it takes it (select chooses uniformly among ready cases: m further ticks have probability <= 2^-m) - used only for the count-based clause "silent after context cancellation"',
                     'Go timers and tickers fire no earlier than asked (timer armed at t with delay d fires at t\' >= t+d; k-th tick of a ticker not before k periods after its creation/reset)',
                     'one monotonic clock for all stamps (time.Since of one base time), truncated to integer microseconds; durations are whole microseconds',
                     'the tie is ACCEPTANCE of observed real-time traces by the proved acceptor, weaker than equality of outputs: it cannot show that the operator emits when it should, only that it never acts early, never reorders, never invents, and stops when told'],
        extra={'known_classes_armed': [k['key'] for k in classes.values()], 'level_note': 'proof on the timed model; tie = acceptance of observed timed traces (weaker than equality)', 'per_operator': stats})

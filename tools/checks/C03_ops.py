"""C03, operator-level half: the source's teardown runs exactly once when the downstream side closes
(projection of kinds `ops`, `chains`, `cutin`), library goroutines do not survive the subscription
(kind `leak`), panicking teardowns below operators (kind `teardown`); theorems RoProps/C03op.
`parts(ctx)` is called by tools/checks/C03.py; `check`/`MANIFEST` allow `./check C03_ops quick` stand-alone."""
import runner as R
from props import *

LEAN_MODULES = ['C03op']

MANIFEST = dict(
    text="Operator-level half. Proved in Lean: the finalizer loop of subscription.go:114-150 over arbitrary TREES of subscriptions (an operator's teardown is the Unsubscribe of another subscription; "
         "composite subscriptions) and arbitrary subsets of panicking teardowns runs every teardown exactly once, depth first, raises nothing when nothing panicked and otherwise raises, after the loop, "
         "a join of unsubscription errors whose root causes are exactly the panic values in run order (teardown_tree, teardown_every_subset, teardown_flat, teardown_quiet); closed downstream => source "
         "released, also when closed from inside a callback (released, released_from_inside). ObserveOn/SubscribeOn, ThrowOnContextCancel and ToChannel release their goroutine/channel in a deferred action of the teardown closure (fix 694a874): it runs although an upstream teardown panics "
         "(deferred_release); setups_isolated decides that no modelled set-up tree contains an unisolated multi-action closure. "
         "Tie: teardown log, value raised to the caller (reduced to its root causes), position of the raise, second Unsubscribe, closed flag and goroutine survival for a panicking probe (error and "
         "non-error values, every subset) below every catalogue operator, with TapOnFinalize above/below, in Merge/TakeUntil/CombineLatest set-ups and below the goroutine-owning operators: EQUAL to the model; "
         "raw teardown counts of kinds ops, chains and cutin; goroutine-leak kind.",
    technique="Lean 4 proof (mutual structural induction over the nested finalizer tree) + differential correspondence of the executable model against the implementation + goroutine-stack inspection",
    ref='5/C03')


def proj_rel(d):
    return (flag(d), d.get('rel'), d.get('subs'))


def proj_rel_closed(d):
    return (flag(d), d.get('rel'), d.get('subs'), d.get('closed'))


def oracle_once(case, gd):
    """the source's teardown never runs more often than the source was subscribed"""
    if flag(gd):
        return f'harness flag {flag(gd)}'
    try:
        rel, subs = int(gd.get('rel', '0')), int(gd.get('subs', '1'))
    except ValueError:
        return None
    if rel > subs:
        return f'teardown-twice: the source was subscribed {subs} time(s), its teardown ran {rel} times'
    return None


def oracle_teardown(case, gd):
    """C03 itself on the implementation result: no teardown twice, the raise only after all that ran"""
    if flag(gd):
        return f'harness flag {flag(gd)}'
    ran = toks(gd.get('ran'))
    if len(set(ran)) != len(ran):
        return 'teardown-twice: a teardown ran more than once'
    if gd.get('again') not in (None, '0'):
        return 'second-unsubscribe: a second Unsubscribe ran a teardown or panicked'
    if gd.get('at') not in (None, '-') and int(gd['at']) != len(ran):
        return 'raised-early: the panic was re-raised before every teardown had run'
    if gd.get('raised', '-').startswith('bad'):
        return 'raised-unwrapped: what Unsubscribe raised is not a join of unsubscription errors'
    return None


def known_local(ctx):
    """stand-alone runs (`./check C03_ops`): replay the C03 findings witnessed by a kind=teardown case"""
    if ctx.prop == 'C03':
        return   # props.replay_known does it
    for k in R.load_known('C03'):
        if k.get('status') == 'open' and 'kind=teardown' in (k.get('case') or ''):
            res = R.replay_cases(ctx, [k['case']])
            got = ' '.join(res[0][1].split()[2:]) if res else '?'
            if got == k.get('impl'):
                ctx.known.append(f"{k['key']}: {k['what']}")
            else:
                ctx.notes.append(f"known finding {k['key']} no longer reproduces (implementation now gives: {got})")


def confirm(ctx, rows, proj, tries=2):
    """kind=leak is timing-based (goroutine stacks after a grace period; ToChannel subscribes its source
    1 ms late, from a goroutine): a disagreement is kept only if it shows again when the case is replayed"""
    out = []
    for c, g, l in rows:
        if proj(R.parse_res(g)) != proj(R.parse_res(l)):
            for _ in range(tries):
                res = R.replay_cases(ctx, [c])
                if res and proj(R.parse_res(res[0][1])) == proj(R.parse_res(res[0][2])):
                    ctx.notes.append(f'timing noise, not reproduced on replay: {c} -> {g}')
                    g, l = res[0][1], res[0][2]
                    break
        out.append((c, g, l))
    return out


def parts(ctx):
    known_local(ctx)
    rows = R.run_kind(ctx, 'teardown', shards=4)
    R.compare(ctx, rows, proj_all, 'C03 panicking teardowns below operators', oracle=oracle_teardown,
              nontrivial=lambda c, gd: gd.get('raised', '-') != '-')
    rows = R.run_kind(ctx, 'ops')
    R.compare(ctx, rows, proj_rel, 'C03 the source teardown runs exactly once (single operators)', oracle=oracle_once, nontrivial=nontrivial_op)
    rows = R.run_kind(ctx, 'chains')
    R.compare(ctx, rows, proj_rel_closed, 'C03 the source teardown runs exactly once (chains)', oracle=oracle_once, nontrivial=lambda c, gd: gd.get('trace', '-') != '-')
    rows = R.run_kind(ctx, 'cutin')
    R.compare(ctx, rows, lambda d: (flag(d), d.get('rel'), d.get('closed')), 'C03 the source teardown runs exactly once (Unsubscribe from inside a callback)',
              nontrivial=lambda c, gd: gd.get('trace', '-') != '-')
    proj_leak = lambda d: (flag(d), d.get('leaked'), d.get('released'), d.get('closed'))
    rows = confirm(ctx, R.run_kind(ctx, 'leak', shards=4), proj_leak)
    R.compare(ctx, rows, proj_leak, 'C03 goroutines created by the library do not survive the subscription',
              nontrivial=lambda c, gd: True)
    return dict(rule_part='teardown: probe with a panicking teardown (error / non-error value, every subset) below every catalogue operator (ends: Unsubscribe, source completes, source errors), with '
                          'TapOnFinalize above and below, Merge(2,3)/TakeUntil/CombineLatest2 set-ups, and below the goroutine-owning operators (goroutine stacks after quiescence): log of teardown runs, '
                          'raised value, position of the raise, second Unsubscribe, closed, leaked; ops/chains/cutin: raw teardown count of the source probe vs subscriptions; leak: goroutine survival for '
                          'the three ways of ending')


def check(ctx):
    info = parts(ctx)
    return dict(rule=info['rule_part'])

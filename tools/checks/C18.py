import hashlib, os, re
import runner as R
from props import *

MANIFEST = dict(
    text="Lean: parametric lift theorems (for ANY wrapped function the Map / MapErr / Filter plugin shape delivers the function applied item by item, each result with its item's context, "
         "ending at the first error; every raw script, both source modes) instantiated per operator by the regenerated `Plugins` fact table, which is decided EQUAL (row by row: lift kind, "
         "wrapped callee with import path, which parameter at which position, constants) to a hand-maintained expectation; the helpers of plugins/strings vs plugins/bytes are decided to have "
         "the same flavour-erased body except two pinned pairs. Modelled and proved for all inputs: base64 (std/url x padded/raw) decode(encode bs) = bs, Atoi(Itoa n) = n on int64 (ErrRange outside), "
         "ParseBool(FormatBool b) = b, Ellipsis (both flavours return the same text; slice/heap model: the byte helper never writes the caller's array), "
         "Go's insertion sort (sort.Slice up to 12 elements) = the stable merge sort, every sorted permutation has the stable sort's key sequence, Sort* machines, SortStableFunc = the stable sort, NewIOReader (every script of Read results: chunks = the data of the reads, untouched later, concatenation = bytes produced). "
         "regexp, templates, JSON, gob, CSV, time, Unicode case mapping are uninterpreted parameters: for those the theorem is only that the plugin adds nothing to the wrapped function. "
         "Tie: every plugin operator is run next to the wrapped library function on boundary + seeded inputs (deep comparison, error <-> Error notification, contexts, input and delivered values re-checked "
         "at the end, string vs byte flavour), and the modelled ones are additionally diffed against the Lean model through the driver.",
    technique="Lean 4 proof (lift theorems by reduction to map_spec/mapErr_spec/filter_spec; models of base64, decimal strconv, TrimSpace/Ellipsis over a slice heap, insertion/merge sort, shared-buffer reader) "
              "+ decided fact table regenerated from plugins/** + differential correspondence of implementation, wrapped function and model",
    ref='5/C18')

WORDS_FAMILY = {'CamelCase', 'KebabCase', 'PascalCase', 'SnakeCase', 'Words'}

# class of accepted deviation -> key of the known finding that must be listed AND still reproduce
CLASS_KEY = {
    'words-invalid-utf8': 'op=bytes.Words invalid-utf8',
}


def fields_of(case):
    return dict(kv.split('=', 1) for kv in case.split()[2:] if '=' in kv)


def item_bytes(expr):
    if expr == 'e':
        return b''
    out = b''
    for t in expr.split('+'):
        if '*' in t:
            h, n = t.split('*')
            out += bytes.fromhex(h) * int(n)
        elif t:
            out += bytes.fromhex(t)
    return out


def items_of(cf):
    s = cf.get('in', '-')
    return [] if s in ('-', '') else [item_bytes(x) for x in s.split(',')]


def is_utf8(b):
    try:
        b.decode('utf-8')
        return True
    except UnicodeDecodeError:
        return False


def classify(op, cf, gd, ld):
    """returns (list of accepted-deviation classes, list of violation reasons) for one case"""
    classes, bad = [], []
    if gd.get('_flag') or 'panic' in gd:
        bad.append('harness: ' + (gd.get('_flag') or 'panic=' + gd.get('panic', '')))
        return classes, bad
    plugin, name = op.split('.', 1)
    n = int(gd.get('n', ld.get('n', '0')) or 0)
    # ---- K: implementation against the Lean model (only the modelled operators print fields)
    if ld.get('out', '~') != '~':
        for k, v in ld.items():
            if k.startswith('_'):
                continue
            if plugin == 'sort' and k == 'out' and n > 12:
                if name in ('Sort', 'SortFunc'):
                    continue        # not determined above 12 elements: keys + bag are compared (sort_keys_determined)
                if gd.get(k) != v:
                    bad.append('model: field out differs' + (' (SortStableFunc is not stable)' if gd.get('stable') == '0' else ''))
                continue
            if gd.get(k) != v:
                bad.append(f'model: field {k} differs')
    # ---- oracles on the implementation
    same = gd.get('same', '1')
    if not same.startswith('1'):
        bad.append('operator output differs from the wrapped function applied item by item (' + same + ')')
    if gd.get('mut') == '1':
        bad.append('an input item (or its backing array) was modified')
    if gd.get('late') == '1':
        bad.append('a delivered value changed after delivery')
    if gd.get('flav') == '0':
        items = items_of(cf)
        # on valid UTF-8 the flavours must agree; on text that is not valid UTF-8 the byte flavour's
        # byte-wise treatment is pinned by the existing tests (known finding)
        if name in WORDS_FAMILY and not all(is_utf8(b) for b in items):
            classes.append('words-invalid-utf8')
        else:
            bad.append('string and byte flavour disagree on the same text')
    if gd.get('concat') == '0':
        bad.append('concatenation of the emitted chunks differs from the input')
    if gd.get('written') == '0':
        bad.append('bytes written differ from the wrapped writer used directly')
    if gd.get('sorted') == '0' or gd.get('perm') == '0':
        bad.append('output is not a sorted permutation of the input')
    if gd.get('stable') == '0' and op == 'sort.SortStableFunc':
        bad.append('SortStableFunc reordered equal elements')
    if gd.get('rel') == '0':
        bad.append('source not subscribed exactly once and released')
    if gd.get('gram') == '0':
        bad.append('grammar: a notification after the terminal')
    return classes, bad


def replay_judge(case, g, l):
    """./check C18 --replay: the same verdict as the check (accepted deviation classes are reported as such)"""
    cf, gd, ld = fields_of(case), R.parse_res(g), R.parse_res(l)
    classes, reasons = classify(cf.get('op', '?'), cf, gd, ld)
    return reasons + ['known deviation class: ' + CLASS_KEY[c] for c in sorted(set(classes))]


def table_diff():
    """rows of the regenerated table that are neither the expected nor the repaired row (text level, for the report)"""
    def rows(path, name):
        s = open(path).read()
        i = s.index('def %s :' % name)
        j = s.index('\n]\n', i)
        out = {}
        for r in re.findall(r'^  \{ .*?\}(?=,\n  \{ |\n\])', s[i:j + 3], flags=re.S | re.M):
            m = re.search(r'plugin := txt% "([^"]+)", name := txt% "([^"]+)"', r)
            if m:
                out.setdefault(m.group(1) + '.' + m.group(2), []).append(re.sub(r'\s+', ' ', r))
        return out
    try:
        gen = rows(os.path.join(R.LEAN, 'RoGen', 'Plugins.lean'), 'table')
        exp = rows(os.path.join(R.LEAN, 'RoProps', 'C18Expected.lean'), 'table')
        rep = {}
    except Exception as e:      # noqa
        return ['(could not diff the tables: %s)' % e]
    out = []
    for k in sorted(set(gen) | set(exp)):
        g, e = gen.get(k), exp.get(k)
        if g is None:
            out.append(f'{k}: operator missing from the regenerated table')
        elif e is None:
            out.append(f'{k}: new operator, no expected row')
        elif g != e and g != rep.get(k):
            out.append(f'{k}:\n    regenerated: {g[0]}\n    expected:    {e[0]}')
    return out


def raise_stack_limit():
    """the Lean driver recurses over 64 KiB byte lists (trimLeftN, encode, decodeGo are structural,
    not tail recursive): give the child processes a large stack instead of the default 8 MiB"""
    try:
        import resource
        soft, hard = resource.getrlimit(resource.RLIMIT_STACK)
        want = 1 << 30
        if hard != resource.RLIM_INFINITY:
            want = min(want, hard)
        if soft == resource.RLIM_INFINITY or soft >= want:
            return
        resource.setrlimit(resource.RLIMIT_STACK, (want, hard))
    except Exception:       # noqa
        pass


def check(ctx):
    raise_stack_limit()
    rows = R.run_kind(ctx, 'plugin')
    listed = {k['key'] for k in R.load_known('C18') if k.get('status') == 'open'}
    reproduced = {key for key in listed if any(s.startswith(key + ':') for s in ctx.known)}
    bad, accepted, unlisted = {}, {}, {}
    ops = set()
    modelled = 0
    for c, g, l in rows:
        ctx.evaluations += 1
        cf, gd, ld = fields_of(c), R.parse_res(g), R.parse_res(l)
        op = cf.get('op', '?')
        ops.add(op)
        if ld.get('out', '~') != '~':
            modelled += 1
        if cf.get('in', '-') not in ('-', ''):
            ctx.distinct.add(hashlib.md5(R.case_key(c).encode()).digest()[:8])
        if len(ctx.samples) < 4 and ctx.evaluations % 3989 == 1:
            ctx.samples.append({'case': c[:400], 'impl': g[:400], 'model': l[:400]})
        classes, reasons = classify(op, cf, gd, ld)
        for cl in set(classes):
            key = CLASS_KEY[cl]
            if key in reproduced:
                accepted[cl] = accepted.get(cl, 0) + 1
            else:
                unlisted.setdefault((op, cl), []).append((c, g, l))
        for r in reasons:
            bad.setdefault((op, r), []).append((c, g, l))
        if not reasons and not classes:
            ctx.traces_validated += 1
    def shrink_items(c, g, l):
        """a stream of several items: try every single item alone, keep the first that still fails"""
        cf = fields_of(c)
        items = cf.get('in', '-').split(',')
        if len(items) <= 1 or cf.get('op', '').startswith(('sort.', 'stdio.', 'csv.')):
            return c, g, l
        cands = [re.sub(r' in=\S+', ' in=' + it, c) for it in items]
        for cc, gg, ll in R.replay_cases(ctx, cands):
            if classify(cf.get('op', '?'), fields_of(cc), R.parse_res(gg), R.parse_res(ll))[1]:
                return cc, gg, ll
        return c, g, l

    n = 0
    for (op, r), lst in sorted(bad.items(), key=lambda kv: kv[0]):
        if n >= 8:
            break
        n += 1
        c, g, l = shrink_items(*min(lst, key=lambda t: len(t[0])))
        ctx.violation(f'C18 {op}: {r} ({len(lst)} cases)',
                      f'# C18 {op}: {r}\n{c}\n# implementation: {g}\n# model:          {l}\n# replay: ./check C18 --replay <this file>\n')
    for (op, cl), lst in sorted(unlisted.items(), key=lambda kv: kv[0]):
        if n >= 12:
            break
        n += 1
        c, g, l = min(lst, key=lambda t: len(t[0]))
        ctx.violation(f'C18 {op}: deviation of class {cl} ({len(lst)} cases) but the known finding "{CLASS_KEY[cl]}" is not listed or its witness no longer reproduces',
                      f'# C18 {op}: deviation class {cl}\n{c}\n# implementation: {g}\n# model:          {l}\n')
    ctx.notes.append('accepted deviations (classes of listed, still reproducing known findings): ' + (', '.join(f'{k}={v}' for k, v in sorted(accepted.items())) or 'none'))

    def search(ctx, out):
        # the decided table no longer matches: a concrete failing input, if the differential run found one, is already reported
        diff = table_diff()
        ctx.notes.append('Plugins table rows that changed: ' + ('; '.join(d.split(':')[0] for d in diff) or '(none at text level)'))
        found = any(not no_input for _, _, no_input in ctx.violations)
        if not found and diff:
            ctx.violation('Plugins fact table no longer matches the expected table (theorem Ro.C18.plugins_table / helpers_agree): ' + ', '.join(d.split(':')[0] for d in diff),
                          'lake build RoProps.C18 failed: the regenerated Plugins table differs from RoProps/C18Expected.lean\n' + '\n'.join(diff) + '\n\n' + out[-3000:], no_input=True)
            return True
        return found

    return dict(
        rule='every exported operator of plugins/{strconv,regexp,strings,bytes,time,template,encoding/base64,encoding/json,encoding/gob,encoding/csv,sort,stdio} (Std* aliases and NewPrompt: table only) '
             'x parameter values (bases, bit sizes, formats, encodings, patterns, layouts, zones, cut lengths -1..1025/70000) x corpus (empty, 64 KiB, malformed, multi-byte, non-UTF-8, Unicode spaces, '
             'sizes around 12 and 1024/4096, spare capacity, equal-but-distinguishable sort keys, scripted readers incl. data-with-error) + seeded random inputs; '
             'compared: operator vs wrapped function item by item (deep), contexts, input + delivered values after the run, flavours; modelled operators additionally vs the Lean model',
        assumptions=['regexp, text/html template, encoding/json, encoding/gob, encoding/csv, time, bufio.ReadLine, x/text cases, unicode tables and pdqsort above 12 elements are uninterpreted: '
                     'the theorem for them is "the plugin adds nothing to the wrapped function" (C18(c))',
                     'Go int is 64 bit; unicode.IsSpace is the set of 25 code points listed in RoModel/Plugins/Text.lean (Go 1.23 tables)',
                     'the io.Reader is a script of Read results that respects n <= len(buf)'],
        extra={'operators_run': len(ops), 'modelled_cases': modelled, 'accepted_deviation_classes': accepted},
        search=search)

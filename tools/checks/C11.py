import os, re
import runner as R
from props import *
import C10_gen

# the connectors of Share / ShareReplay / the connectable observable ARE the subjects: the premise 'a connector is a lock-atomic object
# that follows its definition' is C10's lock skeleton theorem (RoProps/C10: subjects_wellLocked over the regenerated SubjectLocks) and the
# regenerated step functions (RoProps/C10gen); a subject whose Subscribe / Next leaves its critical section breaks them
LEAN_MODULES = ['C11', 'C10'] + C10_gen.LEAN_MODULES

MANIFEST = dict(
    text="Premise about the connectors (the subjects Share / ShareReplay / the connectable observable are built on): C10's lock-skeleton theorem and the subject step functions regenerated from subject_*.go on this run (RoProps/C10, C10gen) - a subject whose Subscribe or Next leaves its critical section breaks them. "
         "Lean theorems over a line-by-line transition system of ShareWithConfig (regions R1/R2/R3/T, minimal publish/behavior/replay connectors) and of the "
         "connectable observable, for EVERY connector, flag combination, synchronous source prefix and event sequence over {sub, unsub i, src N/E/C[, connect, disconnect]} "
         "(induction through an invariant): live upstream subscriptions <= 1; refCount = open subscribers (+ leaked references, exact on the safe sub-domain); upstream "
         "subscribed iff no current generation, released at 1->0 iff ResetOnRefCountZero; after a source terminal fresh or replayed execution as the flags say (latched "
         "generation absorbing); every open subscriber gets each notification exactly once; connectable: nothing before Connect, Connect idempotent, disconnect stops delivery. "
         "Tie: exhaustive + seeded event sequences x 8 flag sets x connectors x hot / synchronous (Just-like) sources, every subscriber's trace, live/total upstream counters "
         "after each event, drop and unhandled hooks EQUAL on the real library and the model. The theorems quantify over NESTED sequences (events inside the source's Subscribe = inside R3, depth one), through an invariant carrying the pending creator; 'nobody listens => released' is proved on the sequences without an inner subscriber (_partial) and witnessed false outside (late release). The nil `sourceSubscription` "
         "dereference of the pinned tree is repaired (a510ca9) and the repaired behaviour is the model: it is reported as a difference if it returns. Open finding: late release "
         "(witness theorem + replay). Concurrent variants (goroutines, -race in thorough) are search/validation only."
         ' ShareReplay / ShareReplayWithConfig with the unlimited (-1) and zero buffer sizes run through the same sequences.'
         ' twin=1: the same operator value applied to a second source that has a subscriber of its own for the whole sequence - nothing in common; kind=conn also drives the four NewConnectableObservable* constructors.',
    technique="Lean 4 proof (invariant of an executable transition system, all configurations and event sequences) + differential correspondence; concurrent stress as search",
    ref='5/C11')


def _traces(gd):
    t = gd.get('traces', '-')
    return [] if t == '-' else [x.split('.') if x != '-' else [] for x in t.split('|')]


def oracle_share(case, gd):
    """direct checks of the property on the implementation's result, without the model"""
    if flag(gd):
        return f'harness flag {flag(gd)}'
    for lt in toks(gd.get('up')):
        if int(lt.split('/')[0]) > 1:
            return 'upstream: more than one live upstream subscription'
    for tr in _traces(gd):
        for i, x in enumerate(tr):
            if x[0] in 'EC' and i != len(tr) - 1:
                return 'grammar: a subscriber received a notification after a terminal'
    if gd.get('escaped', '-') != '-':
        return 'escaped: a panic reached the caller of Subscribe / Unsubscribe / the source'
    if gd.get('unhandled', '-') != '-':
        return 'unhandled: OnUnhandledError was called'
    if 'nilderef' in gd.get('_raw', ''):
        return 'nilderef: nil sourceSubscription dereference in Share (repaired by a510ca9: operator_connectable.go must use the local currentSourceSubscription)'
    return None


def oracle_conn(case, gd):
    msg = oracle_share(case, gd)
    if msg:
        return msg
    ev = re.search(r'\bev=(\S+)', case).group(1).split(',')
    up = toks(gd.get('up'))
    for e, lt in zip(ev, up):
        if e == 'K':
            break
        if lt != '0/0':
            return 'connectable: the source was subscribed before Connect'
    trs = _traces(gd)
    if 'K' not in ev and any(x for tr in trs for x in tr if x not in ('N0',)):
        return 'connectable: something flowed before Connect'
    return None


def nontrivial_share(case, gd):
    ev = case.split('ev=')[-1]
    return 'S' in ev and re.search(r'[NEC]', ev) is not None


def _conc_row(ctx, c, g, what, budget):
    """one concurrent Share case: an asynchronous nil dereference (nd) or a broken invariant is a violation;
    `live-after-all-left` together with ti > 0 (a subscriber got its terminal while still inside Subscribe)
    is the open late-release finding"""
    gd = R.parse_res(g)
    nd, ti, inv = int(gd.get('nd', '0') or 0), int(gd.get('ti', '0') or 0), gd.get('inv', '-')
    if flag(gd):
        probs = ['harness flag ' + flag(gd)]
    else:
        probs = [] if inv == '-' else [p for p in inv.split(',') if not (p.startswith('live-after-all-left') and ti > 0)]
        if nd:
            probs.append(f'nil sourceSubscription dereference under concurrency (x{nd}; repaired by a510ca9)')
    late = inv != '-' and any(p.startswith('live-after-all-left') for p in inv.split(',')) and ti > 0
    if probs and budget[0] > 0:
        budget[0] -= 1
        ctx.violation(f'{what}: invariant broken under concurrency: {",".join(probs)}',
                      f'# concurrent Share case (goroutines; nondeterministic: replay several times)\n{c}\n# implementation: {g}\n')
    return late


def _race_run(ctx, seeds):
    """thorough tier: the concurrent cases under the race detector; every report is a violation"""
    ok, out = R.build_go(race=True)
    if not ok:
        ctx.violation('harness-race does not build', 'harness-race does not build\n' + out[-3000:], no_input=True)
        return 0
    exe = os.path.join(R.GO, 'bin', 'harness-race')
    reports, late, budget = [], 0, [3]
    for seed in seeds:
        cp = os.path.join(ctx.work, f'race{seed}.cases')
        gp = os.path.join(ctx.work, f'race{seed}.go')
        rc, o, e = R.sh([exe, 'sharec', '-tier', 'thorough', '-seed', str(seed), '-cases', cp, '-res', gp], cwd=ctx.work,
                        env=dict(R.GOENV, GORACE='halt_on_error=0'), timeout=3000)
        reports += [rep for rep in e.split('==================')[1:] if 'DATA RACE' in rep]
        if os.path.exists(gp):
            for cl, gl in zip(open(cp).read().splitlines(), open(gp).read().splitlines()):
                ctx.evaluations += 1
                late += _conc_row(ctx, cl, gl, 'sharec (-race)', budget)
    if reports:
        ctx.violation(f'race detector: {len(reports)} report(s) in Share under concurrent subscribe / unsubscribe / source terminal',
                      '# report from harness-race sharec\n' + reports[0][:4000], no_input=True)
    return late


def check(ctx):
    thorough = ctx.tier == 'thorough'
    rows = R.run_kind(ctx, 'share')
    R.compare(ctx, rows, proj_all, 'C11 Share: traces, upstream counters, drops', oracle=oracle_share, nontrivial=nontrivial_share)
    # a subscriber that subscribes again from inside its terminal callback (retry / repeat style consumers), with the reset
    # flag of that terminal set: the newcomer gets a fresh execution (modelled as the sequence terminal, S)
    rows = R.run_kind(ctx, 'sharet', shards=4)
    R.compare(ctx, rows, proj_all, 'C11 Share: re-subscription from inside the terminal callback (fresh execution as the reset options say)', oracle=oracle_share, nontrivial=nontrivial_share)
    rows = R.run_kind(ctx, 'conn')
    R.compare(ctx, rows, proj_all, 'C11 connectable: traces, upstream counters, Connect results', oracle=oracle_conn, nontrivial=nontrivial_share)
    # concurrent variant: search only (the model side is the constant `inv=- nd=0 ti=0`)
    late, budget = 0, [3]
    for c, g, l in R.run_kind(ctx, 'sharec', shards=4):
        ctx.evaluations += 1
        late += _conc_row(ctx, c, g, 'sharec', budget)
    reported = 0
    for c, g, l in R.run_kind(ctx, 'connc', shards=2):
        ctx.evaluations += 1
        gd = R.parse_res(g)
        if (flag(gd) or gd.get('inv', '-') != '-') and reported < 3:
            reported += 1
            ctx.violation(f'connc: concurrent Connect: {flag(gd) or gd.get("inv")}',
                          f'# concurrent Connect case (goroutines; nondeterministic: replay several times)\n{c}\n# implementation: {g}\n')
    if thorough:
        late += _race_run(ctx, [ctx.seed, ctx.seed + 100])
    if late:
        ctx.notes.append(f'late release also observed by the concurrent search in {late} case(s) (live-after-all-left with ti > 0)')
    gen = C10_gen.parts(ctx)
    return dict(
        search=gen['search'],
        rule='premise: ' + gen['rule_part'] + ' || share: every event sequence of length <= 5 (quick) / 7 (thorough) over {S, U0..U2, N, E, C} with U only naming existing subscribers x 8 flag sets x '
             '{publish, behavior, replay1, replay2} (+ replay0, replayU in thorough) over a hot probe; the same to length 4 / 5 x 11 synchronous prefix lists; the aliases Share, ShareReplay, '
             'ShareReplayWithConfig; seeded longer sequences (<= 6 subscribers, 7 connectors). sharet: every prefix over {S,U,N} of length <= 3 / 4 x terminal C / E with subscriber k re-subscribing inside its terminal callback x 8 tails x the flag sets that reset on that terminal x {publish, replay1, behavior}. conn: every sequence of length <= 5 / 7 over {S, U0, U1, N, E, C, K, D} x 3 connectors x '
             'ResetOnDisconnect, synchronous prefixes, seeded. Compared: ALL result fields (every trace, live/total after each event, same-subscription flags, drops, unhandled, escaped). '
             'Oracles on the implementation alone: live <= 1 after every event, grammar of every trace, no escaped panic / unhandled error, nil dereference only in the known class, '
             'no upstream subscription and no flow before Connect. non-trivial = has a subscriber and a source notification.',
        assumptions=[
            'sequential semantics: each event is processed to quiescence before the next (interleavings inside one event are searched by the concurrent variant, not proved)',
            'observer callbacks do not call back into the same shared observable, except kind=sharet: a subscription issued from inside the terminal callback when that terminal resets the generation, modelled by its sequential equivalent (terminal, then S) and checked case by case',
            'contexts are not part of this model (C09)',
            'the probe source is well behaved: it does not emit to a subscription it has ended or that was torn down',
        ],
        extra={'concurrent_late_release_seen': late})

import os, re
import runner as R
from props import *

MANIFEST = dict(
    text="Lean theorems over a line-by-line transition system of ShareWithConfig (regions R1/R2/R3/T, minimal publish/behavior/replay connectors) and of the "
         "connectable observable, for EVERY connector, flag combination, synchronous source prefix and event sequence over {sub, unsub i, src N/E/C[, connect, disconnect]} "
         "(induction through an invariant): live upstream subscriptions <= 1; refCount = open subscribers (+ leaked references, exact on the safe sub-domain); upstream "
         "subscribed iff no current generation, released at 1->0 iff ResetOnRefCountZero; after a source terminal fresh or replayed execution as the flags say (latched "
         "generation absorbing); every open subscriber gets each notification exactly once; connectable: nothing before Connect, Connect idempotent, disconnect stops delivery. "
         "Tie: exhaustive + seeded event sequences x 8 flag sets x connectors x hot / synchronous (Just-like) sources, every subscriber's trace, live/total upstream counters "
         "after each event, drop and unhandled hooks EQUAL on the real library and the model. The nil `sourceSubscription` dereference (and the reference it leaks) is modelled, "
         "proved as witness theorems and replayed as known findings. Concurrent variant (goroutines, -race in thorough) is search/validation only.",
    technique="Lean 4 proof (invariant of an executable transition system, all configurations and event sequences) + differential correspondence; concurrent stress as search",
    ref='5/C11')


def _unsafe(case):
    """the known-finding class: some synchronous prefix ends with a terminal the flags reset on"""
    m = re.search(r'\bpre=(\S+)', case)
    f = re.search(r'\bflags=(\S+)', case)
    api = re.search(r'\bapi=(\S+)', case)
    flags = f.group(1) if f else '-'
    if api and api.group(1) == 'share':
        flags = 'ECZ'
    elif api and api.group(1).startswith('sharereplayZ'):
        flags = 'EZ'
    elif api and api.group(1).startswith('sharereplay'):
        flags = 'E'
    if re.search(r'\bsrc=just:', case):      # ro.Just(...) completes synchronously
        return 'C' in flags
    for inner in re.findall(r'S\[([^\]]*)\]', case):   # a terminal arriving inside the source's Subscribe
        for t in inner.split(';'):
            if (t == 'C' and 'C' in flags) or (t.startswith('E') and 'E' in flags):
                return True
    if not m or m.group(1) == '-':
        return False
    for g in m.group(1).split(';'):
        for t in (g.split(',') if g not in ('-', '') else []):
            if t == 'C':
                if 'C' in flags:
                    return True
                break
            if t.startswith('E'):
                if 'E' in flags:
                    return True
                break
    return False


def _traces(gd):
    t = gd.get('traces', '-')
    return [] if t == '-' else [x.split('.') if x != '-' else [] for x in t.split('|')]


def oracle_share(case, gd):
    """direct checks of the property on the implementation's result, without the model"""
    if flag(gd):
        return f'harness flag {flag(gd)}'
    for lt in toks(gd.get('up')):
        if int(lt.split('/')[0]) > 1:
            return 'upstream: more than one live upstream subscription'
    for tr in _traces(gd):
        for i, x in enumerate(tr):
            if x[0] in 'EC' and i != len(tr) - 1:
                return 'grammar: a subscriber received a notification after a terminal'
    if gd.get('escaped', '-') != '-':
        return 'escaped: a panic reached the caller of Subscribe / Unsubscribe / the source'
    if gd.get('unhandled', '-') != '-':
        return 'unhandled: OnUnhandledError was called'
    if 'nilderef' in gd.get('_raw', '') and (not _unsafe(case) or 'fix=1' in case):
        return 'nilderef: nil sourceSubscription dereference outside the known class (synchronous terminal + matching reset flag)'
    return None


def oracle_conn(case, gd):
    msg = oracle_share(case, gd)
    if msg:
        return msg
    ev = re.search(r'\bev=(\S+)', case).group(1).split(',')
    up = toks(gd.get('up'))
    for e, lt in zip(ev, up):
        if e == 'K':
            break
        if lt != '0/0':
            return 'connectable: the source was subscribed before Connect'
    trs = _traces(gd)
    if 'K' not in ev and any(x for tr in trs for x in tr if x not in ('N0',)):
        return 'connectable: something flowed before Connect'
    return None


def nontrivial_share(case, gd):
    ev = case.split('ev=')[-1]
    return 'S' in ev and re.search(r'[NEC]', ev) is not None


def _race_run(ctx, seeds):
    """thorough tier: the concurrent cases under the race detector. A report whose stacks contain the
    unlocked read of `sourceSubscription` (operator_connectable.go, the AddUnsubscribable line) belongs to
    the known finding; any other report is a violation."""
    ok, out = R.build_go(race=True)
    if not ok:
        ctx.violation('harness-race does not build', 'harness-race does not build\n' + out[-3000:], no_input=True)
        return
    exe = os.path.join(R.GO, 'bin', 'harness-race')
    known, other, nd = 0, [], 0
    # the line of `sourceSubscription.AddUnsubscribable(` in the tree under check
    src = open(os.path.join(R.REPO, 'operator_connectable.go')).read().split('\n')
    lines = [i + 1 for i, l in enumerate(src) if 'sourceSubscription.AddUnsubscribable(' in l]
    for seed in seeds:
        cp = os.path.join(ctx.work, f'race{seed}.cases')
        gp = os.path.join(ctx.work, f'race{seed}.go')
        rc, o, e = R.sh([exe, 'sharec', '-tier', 'thorough', '-seed', str(seed), '-cases', cp, '-res', gp], cwd=ctx.work,
                        env=dict(R.GOENV, GORACE='halt_on_error=0'), timeout=3000)
        for rep in e.split('==================')[1:]:
            if 'DATA RACE' not in rep:
                continue
            if any(f'operator_connectable.go:{n} ' in rep or f'operator_connectable.go:{n}\n' in rep for n in lines):
                known += 1
            else:
                other.append(rep)
        if os.path.exists(gp):
            for cl, gl in zip(open(cp).read().splitlines(), open(gp).read().splitlines()):
                ctx.evaluations += 1
                gd = R.parse_res(gl)
                n = int(gd.get('nd', '0') or 0)
                nd += n
                inv = gd.get('inv', '-')
                if flag(gd):
                    ctx.violation(f'sharec (-race): harness flag {flag(gd)}', f'# concurrent Share case\n{cl}\n# implementation: {gl}\n')
                elif inv != '-':
                    probs = [p for p in inv.split(',') if not (p.startswith('live-after-all-left') and (n > 0 or int(gd.get('ti', '0') or 0) > 0))]
                    if probs:
                        ctx.violation(f'sharec (-race): invariant broken under concurrency: {",".join(probs)}',
                                      f'# concurrent Share case (goroutines; nondeterministic: replay several times)\n{cl}\n# implementation: {gl}\n')
    if other:
        ctx.violation(f'race detector: {len(other)} report(s) in Share/connectable outside the known unsynchronised read',
                      '# go test -race style report from harness-race sharec\n' + other[0][:4000], no_input=True)
    ctx.race_known, ctx.race_nd = known, nd


def _repaired():
    """does the tree under check carry the repair of operator_connectable.go:160 (local
    `currentSourceSubscription`)? Then the model's `fixed` branch is the one to compare with."""
    try:
        return 'currentSourceSubscription.AddUnsubscribable(' in open(os.path.join(R.REPO, 'operator_connectable.go')).read()
    except OSError:
        return False


def check(ctx):
    thorough = ctx.tier == 'thorough'
    repaired = _repaired()
    if repaired:
        ctx.notes.append('operator_connectable.go uses the local currentSourceSubscription (repair applied): comparing with the model\'s fixed branch; '
                         'refCount_eq_fixed / last_unsubscribe_releases_fixed are the full-strength theorems for this tree')
    rows = R.run_kind(ctx, 'share', extra=['-only', 'fix'] if repaired else None)
    R.compare(ctx, rows, proj_all, 'C11 Share: traces, upstream counters, drops', oracle=oracle_share, nontrivial=nontrivial_share)
    rows = R.run_kind(ctx, 'conn')
    R.compare(ctx, rows, proj_all, 'C11 connectable: traces, upstream counters, Connect results', oracle=oracle_conn, nontrivial=nontrivial_share)
    # concurrent variant: search only (the model side is the constant `inv=- nd=0`)
    rows = R.run_kind(ctx, 'sharec', shards=4)
    nd = 0
    reported = 0
    for c, g, l in rows:
        ctx.evaluations += 1
        gd = R.parse_res(g)
        n = int(gd.get('nd', '0') or 0)
        nd += n
        inv = gd.get('inv', '-')
        if flag(gd):
            ctx.violation(f'sharec: harness flag {flag(gd)}', f'# concurrent Share case\n{c}\n# implementation: {g}\n')
            continue
        probs = [] if inv == '-' else [p for p in inv.split(',') if not (p.startswith('live-after-all-left') and (n > 0 or int(gd.get('ti', '0') or 0) > 0))]
        if probs and reported < 3:
            reported += 1
            ctx.violation(f'sharec: invariant broken under concurrency: {",".join(probs)}',
                          f'# concurrent Share case (goroutines; nondeterministic: replay several times)\n{c}\n# implementation: {g}\n')
    reported = 0
    for c, g, l in R.run_kind(ctx, 'connc', shards=2):
        ctx.evaluations += 1
        gd = R.parse_res(g)
        if (flag(gd) or gd.get('inv', '-') != '-') and reported < 3:
            reported += 1
            ctx.violation(f'connc: concurrent Connect: {flag(gd) or gd.get("inv")}',
                          f'# concurrent Connect case (goroutines; nondeterministic: replay several times)\n{c}\n# implementation: {g}\n')
    race_known = 0
    if thorough:
        _race_run(ctx, [ctx.seed, ctx.seed + 100])
        race_known, nd = getattr(ctx, 'race_known', 0), nd + getattr(ctx, 'race_nd', 0)
    for k in getattr(ctx, 'known_static', []):
        if k.get('key', '').startswith('share unsynchronised read'):
            if race_known or nd:
                ctx.known.append(f"{k['key']}: {k['what']} (this run: {race_known} race report(s), {nd} asynchronous nil dereference(s))")
            else:
                ctx.notes.append(f"{k['key']}: not observed in this run (nondeterministic; the thorough tier runs the race detector)")
    return dict(
        rule='share: every event sequence of length <= 5 (quick) / 7 (thorough) over {S, U0..U2, N, E, C} with U only naming existing subscribers x 8 flag sets x '
             '{publish, behavior, replay1, replay2} (+ replay0, replayU in thorough) over a hot probe; the same to length 4 / 5 x 11 synchronous prefix lists; the aliases Share, ShareReplay, '
             'ShareReplayWithConfig; seeded longer sequences (<= 6 subscribers, 7 connectors). conn: every sequence of length <= 5 / 7 over {S, U0, U1, N, E, C, K, D} x 3 connectors x '
             'ResetOnDisconnect, synchronous prefixes, seeded. Compared: ALL result fields (every trace, live/total after each event, same-subscription flags, drops, unhandled, escaped). '
             'Oracles on the implementation alone: live <= 1 after every event, grammar of every trace, no escaped panic / unhandled error, nil dereference only in the known class, '
             'no upstream subscription and no flow before Connect. non-trivial = has a subscriber and a source notification.',
        assumptions=[
            'sequential semantics: each event is processed to quiescence before the next (interleavings inside one event are searched by the concurrent variant, not proved)',
            'observer callbacks do not call back into the same shared observable (re-entrancy excluded from generated sequences)',
            'contexts are not part of this model (C09)',
            'the probe source is well behaved: it does not emit to a subscription it has ended or that was torn down',
        ],
        extra={'concurrent_async_nilderefs_seen': nd, 'race_reports_known_class': race_known})

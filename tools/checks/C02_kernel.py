"""C02, concurrent-kernel half (docs/kernel.md): subscriberImpl / subscriptionImpl under concurrent calls; theorems
RoProps/C02.lean (+ RoProps/KernelTie.lean). `parts(ctx)` is called by tools/checks/C02.py; `check`/`MANIFEST` allow
`./check C02_kernel quick` stand-alone."""
import os, sys
import runner as R
from props import *
sys.path.insert(0, os.path.dirname(os.path.dirname(os.path.abspath(__file__))))
import kernel_part as K

LEAN_MODULES = ['C02']

MANIFEST = dict(
    text="(a) kernel: proved in Lean for every number of threads, scripts and schedule of the concurrent kernel model (an interpreter for the "
         "statement-language programs of subscriberImpl/subscriptionImpl, decided equal to the programs regenerated from the Go sources on every run): "
         "in safe and eventually-safe mode at most one thread is between callback-begin and callback-end (kernel_callbacks_never_overlap; lock invariant "
         "holds-mu <-> owner, inside -> holds mu); in any mode under the single-producer hypothesis (kernel_callbacks_never_overlap_single_producer); "
         "witness that the unsafe mode overlaps with two producers; generic route: a decidable lock-discipline checker wellLocked, proved sound for arbitrary program tables (wellLocked_programs_never_overlap) and decided true on the regenerated table. Tie: program equality (F) + one-thread logs compared exactly + stress with an "
         "inside-counter on a raw observer (K). Parts (b) operator catalogue and (c) subjects are separate slices.",
    technique="Lean 4 proof (invariant over an interpreter of extracted programs, induction on the schedule; control-flow facts decided over the finite set of reachable control states) "
              "+ regenerated program table + differential/stress harness",
    ref='5/C02')


def parts(ctx):
    return K.kernel_part(ctx, 'C02')


def check(ctx):
    return parts(ctx)

import runner as R
from props import *
import C03_ops
import emitlock_part
try:
    import C03_kernel
except ImportError:
    C03_kernel = None

# C11: the Share / connectable transition system and its release theorems (the shared source is held exactly while a
# subscriber or the connection needs it) — C03 reads the release of the shared source from the same sequences
LEAN_MODULES = C03_ops.LEAN_MODULES + ['C14', 'C11'] + emitlock_part.LEAN_MODULES + (C03_kernel.LEAN_MODULES if C03_kernel else [])

MANIFEST = dict(
    text="Operator half, proved in Lean: once the downstream side is closed - by a terminal, by an external Unsubscribe, or from inside a callback - the source has been released before the closing call "
         "returned, for every machine, script and cut (C14.released / cut, C03op.released, released_from_inside); finalizer trees with arbitrary subsets of panicking teardowns: every teardown runs "
         "exactly once, depth first, and the joined panic (root causes in run order, wrapped as unsubscription errors) is raised only after all of them have run (teardown_tree, teardown_every_subset, "
         "teardown_flat); ObserveOn/SubscribeOn, ThrowOnContextCancel and ToChannel release their goroutine in a deferred action of the teardown closure, which runs although an upstream teardown panics (deferred_release; fix 694a874). "
         "That an operator's returned teardown reaches every upstream subscription is the regenerated SubscribeShape fact (C14.table_ok); that no operator emits while holding a lock its own teardown takes (so a teardown run from inside a delivery never waits for the emitting goroutine itself) is the regenerated EmitLocks fact (C03lock.no_self_deadlock). Tie: kinds ops/chains/cutin (teardown count of the source probe), "
         "teardown (probe with panicking teardowns below every operator and inside Merge/TakeUntil/CombineLatest set-ups, every subset), leak (goroutines created by the library must not survive the "
         "subscription, for every goroutine/timer-owning operator and each way of ending). Kernel half (races between Complete, Error, Unsubscribe and Add; Add after disposal): see the kernel part when present in this build."
         ' Hot constructs: the release of the shared source after every event of the Share / connectable sequences (transition system and release theorems of RoProps/C11); kind=leak also subscribes the SAME observable value a second time (state kept per observable value instead of per subscription).'
         ' Teardowns run outside the producer lock for the regenerated subscriber programs (C06lock, read by C06).'
         ' A stream that ends by itself releases its subscription exactly once also when the teardown has to wait for a second producer and when the terminal of an eventually-safe subscriber arrives while a Next callback runs (kind=tdwait); Share twin (one operator value, two live sources).',
    technique="Lean 4 proof (run invariants; induction over finalizer trees) + kernel-decided SubscribeShape table + differential correspondence (teardown counters, order of runs, raised value) + goroutine-leak oracle",
    ref='5/C03')


def check(ctx):
    o = C03_ops.parts(ctx)
    rows = R.run_kind(ctx, 'leak', shards=4)
    R.compare(ctx, rows, lambda d: (flag(d), d.get('leaked'), d.get('released')), 'C03 no goroutine of the library survives the subscription', nontrivial=lambda c, gd: True, recheck=2)
    # hot constructs: a closed subscription of a shared / connected observable holds nothing upstream once the last one has
    # left — live/total upstream subscriptions after every event of the C11 sequences, including the generations that
    # follow a source terminal (an observer of an ended generation must still give its reference back)
    for kind in ('share', 'conn'):
        rows = R.run_kind(ctx, kind)
        R.compare(ctx, rows, lambda d: (flag(d), d.get('up')), f'C03 release of the shared source after every event ({kind})',
                  nontrivial=lambda c, gd: 'U' in c.split('ev=')[-1] or 'D' in c.split('ev=')[-1], max_report=2)
    # a stream that ends by itself closes its subscription and runs its teardown exactly once - also when the teardown has to wait
    # for a second producer, and when the terminal of an eventually-safe subscriber arrives while a Next callback is still running
    # (terminals are never given up: C07k.kernel_terminal_refused_only_when_closed; teardowns outside the lock: C06lock)
    trows = R.run_kind(ctx, 'tdwait', shards=4)
    R.compare(ctx, trows, proj_all, 'C03 a stream that ends by itself releases its subscription (teardown once, Wait returns)', nontrivial=lambda c, gd: True, recheck=1)
    el = emitlock_part.parts(ctx)
    rules, assumptions, searches, extra = [o['rule_part'], el['rule_part']], [], [el['search'], table_search('C14'), o.get('search')], {}
    if C03_kernel:
        k = C03_kernel.parts(ctx)
        rules.append(k.get('rule', ''))
        assumptions += k.get('assumptions') or []
        searches.append(k.get('search'))
        extra.update(k.get('extra') or {})
    return dict(rule='; '.join(rules), assumptions=assumptions, extra=extra, search=combine_search(*searches))

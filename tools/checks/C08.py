import runner as R
from props import *
import C08_handoff

# C10: the subjects' lock skeletons regenerated from subject_*.go (Subscribe with its replay is one critical section; a
# unicast Next with an observer delivers before it returns) — the premise of the subject part below
LEAN_MODULES = ['C08s', 'C08', 'C10']

MANIFEST = dict(
    text="Synchronous half proved in Lean for every machine, raw script and source mode: one steps entry per upstream call and the delivered trace is exactly the subscribe-time "
         "emissions plus the deliveries made during each call (steps_account) - nothing is handed to a hidden goroutine or queue; that this model applies is the regenerated fact "
         "asyncEmit=false for every operator except the listed hand-off/time-driven ones, decided by the kernel on every run (table_ok, async_rows). "
         "Tie: the per-call delivery counts of every catalogue operator and of random chains are compared with the model after each individual Next returns. "
         + C08_handoff.TEXT +
         " Subjects inside synchronous pipelines (kind=nextret): a Next into a unicast subject, a GroupBy group or a multicast subject returns only after the value was delivered, with the consumer blocked in the backlog replay or in another producer's delivery; premise: the subjects' lock skeletons regenerated from subject_*.go (RoProps/C10 subjects_wellLocked, unicast_delivers_outside_lock).",
    technique="Lean 4 proof (invariant over the run: out = start + sum of per-call deliveries) + kernel-decided fact table regenerated from source + differential correspondence of per-call counts",
    ref='5/C08')


def proj_steps(d):
    return (flag(d), d.get('steps'), len(toks(d.get('trace'))))


def check(ctx):
    rows = R.run_kind(ctx, 'ops')
    R.compare(ctx, rows, proj_steps, 'C08 deliveries made during each upstream call', nontrivial=nontrivial_op)
    # subjects inside synchronous pipelines (unicast subject, GroupBy groups): a producer's Next returns only after the
    # value has been handled, also while a late consumer is catching up with the backlog (kind=nextret)
    rows = R.run_kind(ctx, 'nextret', shards=2)
    R.compare(ctx, rows, proj_all, 'C08 a Next into a unicast subject / GroupBy group returns only after the value was delivered (consumer blocked in the backlog replay)',
              nontrivial=lambda c, gd: True, recheck=2)
    h = C08_handoff.parts(ctx)
    return dict(assumptions=h.get('assumptions'), extra=h.get('extra'), rule=h['rule'] + '; synchronous half: every catalogue operator x parameters x variants x raw scripts x {sync, hot}: number of notifications delivered to the final observer while each '
                     'individual Next/Error/Complete call was running (measured after the call returned) = the model\'s steps; non-trivial = script has a value and something was delivered or dropped',
                search=combine_search(table_search('C08'), h.get('search')))

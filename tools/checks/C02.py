import os, sys
import runner as R
from props import *
sys.path.insert(0, os.path.dirname(os.path.dirname(os.path.abspath(__file__))))
import parts_c02b
try:
    import C02_kernel
except ImportError:
    C02_kernel = None

LEAN_MODULES = parts_c02b.LEAN_MODULES + (C02_kernel.LEAN_MODULES if C02_kernel else [])

MANIFEST = dict(
    text="Regenerated on every run and decided by the kernel (RoProps/C02b): the constructor of every operator (Catalogue), the concurrency mode behind every public constructor (ctor_modes, mode_impl) and every observable / subscriber constructor call in the core outside the operator files (ctor_sites: subjects wrap their subscriber with the safe NewSubscriber, connectables are built with the default constructors - a subject handing out an unsafe view of itself is a new row). "
         "(b) chains: proved in Lean for arbitrary chains of catalogue rows - every stage that can be fed from several goroutines emits into a locking subscriber whatever follows it "
         "(chain_serialized; the subscriber a stage emits into is the one created by the most downstream operator of the run of pass-through operators directly downstream of it, because "
         "newSubscriberImpl reuses a destination that already is a Subscriber) - from a per-row predicate decided by the kernel on the table regenerated from the source on every run "
         "(constructor mode, pass-through, number of emission contexts of every operator body): table_strict, chain_serialized_table. On the pinned tree five pass-through operators were built with the "
         "unsafe constructor (callbacks overlapped downstream of Merge or a unicast subject; repaired in /repo, fix commit ee00f46); the overlap search (Merge of goroutine-driven sources and every subject kind with "
         "several producers |> chains into a raw observer with an inside counter) validates the verdict of the model on the real code. (a) concurrent kernel (safe / eventually-safe subscriber, any number of producer goroutines, any schedule) and "
         "(c) subjects: see the kernel and C10 parts when present in this build."
         " Constructor table regenerated from the source (RoGen/Ctors, C02b.ctor_modes, mode_impl: which concurrency mode every public constructor ends up with). kind=overlap3: the library's own sources (Future, Start, Timer, Interval, RangeWithInterval, FromChannel) and the context operators with the subscription context cancelled while a callback runs - no reaction may overlap the callback in progress."
         " Parameter corners in the overlap chains (EndWith(), StartWith(), Skip(0), a huge Take): no short cut may hand the operator's own non-locking subscriber upstream.",
    technique="Lean 4 proof (induction over chains; lock invariant over schedules for the kernel part) + kernel-decided Catalogue table regenerated from source + overlap stress search",
    ref='5/C02')


def check(ctx):
    b = parts_c02b.parts(ctx)
    rules, assumptions, searches, extra = [b['rule_part']], [], [b.get('search')], {}
    if C02_kernel:
        k = C02_kernel.parts(ctx)
        rules.append(k.get('rule', ''))
        assumptions += k.get('assumptions') or []
        searches.append(k.get('search'))
        extra.update(k.get('extra') or {})
    return dict(rule='; '.join(rules), assumptions=assumptions, extra=extra, search=combine_search(*searches))

import re
import os, re, sys
import runner as R
from props import *
sys.path.insert(0, os.path.dirname(os.path.dirname(os.path.abspath(__file__))))
import kernel_part

LEAN_MODULES = ['C07', 'C07k', 'C15']

MANIFEST = dict(
    text="Proved in Lean over the single-source machine semantics extended with faults (every invocation of user code: ok | panic(error) | panic(value) | error return; "
         "tryNext/tryError/tryComplete, SubscribeWithContext's recover, execFinalizer and subscription.Add read line by line): for every operator machine (parametric in its callbacks), "
         "every raw script, both source modes - a Next-position callback whose first failing invocation panics delivers (what the un-faulted operator delivers before) ++ [Error(observer(p))], "
         "Grammar, cause in the Unwrap chain, nothing escaped, nothing unhandled, source torn down exactly once (next_fault); any plan over that callback is runOp of the injected machine (agree); "
         "for EVERY plan without a teardown fault (all callback positions, source subscribe function, final observer; any number of faults) no panic reaches the caller of Subscribe/Next/Unsubscribe (never_escapes) "
         "and every injected panic is in the chain of an error given to the observer, the drop hook or the unhandled hook (every_failure_reaches_someone); for EVERY plan in which the final observer's onNext does not panic the trace obeys the grammar (grammar_partial); "
         "a panicking subscribe function = its delivered prefix, then Error(observable(p)), then Unsubscribe (subscribe_fn_panic); an error return is forwarded unwrapped (error_return); Unsubscribe runs every finalizer and re-raises exactly the joined panics. "
         "F: every go statement of the regenerated catalogue that calls user code is recovered (no exception since fix 8bf73dd); subscription.Add unlocks by defer (decide over regenerated tables). K: fault injection at every callback position x invocation index <= 3 x {panic(error), panic(value), error return}, "
         "singly and in pairs, for 23 operators x variants x scripts x {sync, hot}, all result fields equal on both sides, plus child-process runs for library goroutines. "
         "Kernel part (C07k): in the concurrent kernel model running the subscriber programs regenerated from subscriber.go (decided equal on every run), for every mode, threads, scripts and schedule, a terminal notification is handed to the drop hook only when the subscriber is already closed (kernel_terminal_refused_only_when_closed) - never because the producer lock is busy; K: log predicate terminal-lost on the real subscriber under concurrent producers. "
         "Partial: five deviation classes of the pinned tree are witness theorems + known findings (final observer stays open after its onNext panics; Error/Complete-position callbacks; (Future, formerly listed, is repaired by 8bf73dd + 34cf01a and is now the theorem future_factory_panic); "
         "teardown panics re-raised into the producer / dropped; subscriberImpl.NextWithContext without deferred unlock). Not covered: Share/subject scenarios (iv, subject half of v), multi-source operators."
         ' Panic values that are errors the library has already wrapped (ro.Observable: ro.Observer: user-n) keep their whole chain when wrapped again (fault value pw); an error of the source crosses ObserveOn / SubscribeOn / ToChannel also under an already-cancelled subscription context (kind=chan cc=1, terminal compared).'
         ' The partial observers swallow a panic of their one callback in the empty error callback they are built with: the unhandled hook stays silent (partial_observer_unhandled_silent); observers with NIL callbacks: the panic reaches the unhandled hook wrapped once, the observer stays open (nil_error_callback_panic_unhandled; kind=nilobs).'
         " An error of a fallback / of a later attempt (Catch, OnErrorResumeNextWith, Retry*), also when that attempt runs on a goroutine of its own and fails after Subscribe has returned, surfaces once (the kind=resub runs read through C07's projection; C15 among the modules); kind=fault op=RawDirect (hand-written observer subscribed directly; subscribe function panics after i notifications).",
    technique="Lean 4 proof (simulation of the fault interpreter by runOp of an injected machine, invariants over the interpreter, decide over the regenerated go-statement table) + differential correspondence with fault injection",
    ref='5/C07')

GO_CASES = [
    'case go1 kind=fault op=Go:Future faults=-',
    'case go2 kind=fault op=Go:Future faults=cb:0:pe5',
    'case go3 kind=fault op=Go:Future faults=cb:0:pv6',
    'case go4 kind=fault op=Go:FromChannel faults=-',
    'case go5 kind=fault op=Go:FromChannel faults=cb:0:pe5',
    'case go6 kind=fault op=Go:FromChannel faults=cb:0:pv6',
    'case go7 kind=fault op=Go:RawObserver:unsafe faults=fn:0:pe5',
    'case go8 kind=fault op=Go:RawObserver:safe faults=-',
    'case go9 kind=fault op=Go:RawObserver:safe faults=fn:1:pv6',
    # a TEARDOWN that panics on a goroutine of the library (every one of them runs under recoverUnhandledError since /repo 2d51ab1)
    'case go10 kind=fault op=Go:Never faults=cb:0:pe5',
    'case go11 kind=fault op=Go:ThrowOnContextCancel faults=cb:0:pv6',
    'case go12 kind=fault op=Go:ToChannel faults=cb:0:pe5',
    'case go13 kind=fault op=Go:ToChannel faults=-',
]


def field(case, k):
    m = re.search(r'\b' + k + r'=(\S+)', case)
    return m.group(1) if m else '-'


def positions(case):
    f = field(case, 'faults')
    return set() if f in ('-', '') else {t.split(':')[0] for t in f.split(',')}


def nontrivial_fault(case, gd):
    return field(case, 'faults') != '-' or field(case, 'fs') != '-'


def oracle_fault(case, gd):
    """what C07 says, checked on the implementation's result alone; the deviation classes listed as
    known findings (teardown panics, the final observer's onNext, raw observers) are excluded by position"""
    if flag(gd):
        return f'harness flag {flag(gd)}'
    op = field(case, 'op')
    if op == 'Finalizers':
        n = len([t for t in field(case, 'fs').split(',') if t not in ('-', '')])
        if gd.get('ran') != str(n):
            return 'finalizers: not every finalizer ran'
        return None
    if op.startswith('Go:'):
        if gd.get('crash') == '1':
            return 'crash: a panic of user code on a library goroutine killed the process'
        if gd.get('hang') == '1' and op != 'Go:RawObserver:safe':
            return 'lock: Subscribe never returned'
        return None
    pos = positions(case)
    if gd.get('usable') != '1':
        return 'lock: a call issued after the fault did not return (a lock was left held)'
    if 'st' not in pos and (gd.get('esc', '-') != '-' or gd.get('fesc', '-') != '-'):
        return 'escape: a panic escaped into the goroutine that called Subscribe/Next/Unsubscribe'
    whole = ','.join(x for x in (gd.get('trace', '-'), gd.get('ftrace', '-')) if x != '-') or '-'
    if 'fn' not in pos and not grammar_ok(whole):
        return 'grammar: a notification was delivered after a terminal'
    if pos and pos <= {'cb'} and 'er' not in field(case, 'faults') and gd.get('unh', '-') != '-':
        return 'unhandled: a Next-position failure went to the unhandled hook instead of the subscriber'
    return None


def go_rows():
    """(operator, line, recovered, callsUser) of every go statement of the regenerated catalogue"""
    src = open(os.path.join(R.LEAN, 'RoGen', 'Catalogue.lean')).read()
    out = []
    for m in re.finditer(r'name := "([^"]+)".*?goStmts := \[(.*?)\],\n', src, flags=re.S):
        for g in re.finditer(r'line := (\d+), kind := "(\w+)", recovered := (\w+), callsUser := (\w+)', m.group(2)):
            out.append((m.group(1), int(g.group(1)), g.group(3) == 'true', g.group(4) == 'true', g.group(2)))
    return out


def defer_rows():
    src = open(os.path.join(R.LEAN, 'RoGen', 'FaultFacts.lean')).read()
    return [(m.group(1), m.group(2) == 'true', m.group(3) == 'true') for m in re.finditer(r'\("([^"]+)", (\w+), (\w+)\)', src)]


def search(ctx, out):
    """lake build failed: a go statement that runs user code lost its recover (or a new one appeared).
    Name the rows; where the harness has a child-process scenario for the operator, run it."""
    found = False
    for name, deferred, unknown in defer_rows():
        if name == 'subscriptionImpl.Add' and not deferred:
            # a teardown that panics inside Add (synchronous source that already ended) leaves the subscription's mutex locked
            case = 'case x kind=fault op=Map p=- var=plain cb=dbl mode=sync sub=7 safe=0 src=N1@1,C@2 faults=st:0:pe5'
            res = R.replay_cases(ctx, [case])
            g = res[0][1] if res else ''
            if 'usable=0' in g:
                ctx.violation('subscription.Add no longer releases its mutex by defer: a panicking teardown leaves the subscription locked',
                              f'# the follow-up calls (Next, IsClosed, Unsubscribe) never return\n{case}\n# implementation: {g}\n')
                found = True
    bad = [r[:4] for r in go_rows() if not r[2] and (r[3] or r[4] == 'go')]     # every `go` statement must be recovered (every_goroutine_recovered)
    for name, line, _, _ in bad:
        case = f'case x kind=fault op=Go:{name} faults=cb:0:pe5'
        res = R.replay_cases(ctx, [case])
        g = res[0][1] if res else ''
        if 'crash=1' in g:
            ctx.violation(f'go statement at line {line} of {name} runs user code without recoverUnhandledError: the process dies',
                          f'# a panic of user code on a library goroutine kills the process\n{case}\n# implementation: {g}\n')
        else:
            ctx.violation(f'go statement at line {line} of {name} runs user code without recoverUnhandledError (theorem go_statements_recovered no longer checks)',
                          f'theorem Ro.C07.go_statements_recovered\nrow {name} line {line}: callsUser=true recovered=false\n(no child-process scenario for this operator: {g})\n', no_input=True)
        found = True
    return found


def _errs(d):
    return (flag(d), [t.split('/')[0] for t in toks(d.get('trace')) if t[0] == 'E'], [t for t in toks(d.get('drops')) if t[0] == 'E'])


def check(ctx):
    # multi-source error surfacing (the multi-source models belong to C05; C07 looks at the Error notifications only)
    for kind in ('multi', 'multib'):
        rows = R.run_kind(ctx, kind)
        R.compare(ctx, rows, _errs, f'C07 an error of any source of a multi-source operator surfaces once ({kind})', nontrivial=lambda c, gd: 'E' in c.split('srcs=')[-1], max_report=2)

    # errors crossing a hand-off (ObserveOn / SubscribeOn / ToChannel), also under a subscription context that is already
    # cancelled (a done context does not end a stream; the Error must still reach the subscriber): the terminal of the
    # delivered trace against the model (the hand-off models belong to C08 / C17; C07 looks at the terminal only)
    import chan_common as CC
    hrows = [r for r in CC.get_rows(ctx, 'chan') if CC.op_of(r[0]) in ('ObserveOn', 'SubscribeOn', 'ToChannel') and 'cut=-' in r[0] and 'E' in r[0].split('src=')[-1]]
    hrows, _, _ = CC.settle_transients(ctx, hrows)
    R.compare(ctx, hrows, lambda d: (flag(d), [t for t in toks(d.get('trace')) if t[:1] in ('E', 'C')][-1:]), 'C07 an error of the source crosses the hand-off operators (also under a cancelled subscription context)',
              nontrivial=lambda c, gd: True, max_report=2)

    # observers built with nil callbacks under a panicking Next callback (RoModel/ObsNil.lean): callbacks, dropped hook, unhandled hook
    rows = R.run_kind(ctx, 'nilobs', shards=2)
    R.compare(ctx, rows, proj_all, 'C07 observer with nil callbacks: what the callbacks, the dropped-notification hook and the unhandled-error hook saw',
              nontrivial=lambda c, gd: True, max_report=2)

    # failures of a LATER attempt / of a fallback (Catch, OnErrorResumeNextWith, Retry*, also when that attempt runs on a goroutine of
    # its own and fails after the operator's Subscribe has returned) surface once as the Error of the output: the delivered trace of the
    # re-subscribing operators' runs (loops and closed forms: RoProps/C15), read through C07's projection
    rrows = [r for r in R.run_kind(ctx, 'resub') if re.search(r'\bop=(Catch|OnErrorResumeNextWith|Retry|RetryWithConfig|While|DoWhile|RepeatWith)\b', r[0])]
    R.compare(ctx, rrows, lambda d: (flag(d), strip_ctx(d.get('trace')), d.get('again')), 'C07 an error of a fallback / of a later attempt surfaces once (Catch, OnErrorResumeNextWith, Retry)',
              nontrivial=lambda c, gd: gd.get('trace', '-') != '-', max_report=2)
    rows = R.run_kind(ctx, 'fault')
    R.compare(ctx, rows, proj_all, 'C07 fault injection (trace, drops, unhandled hook, escaped panics, teardown count, usability)',
              oracle=oracle_fault, nontrivial=nontrivial_fault)
    # library goroutines that run user code, each in a child process
    go = R.replay_cases(ctx, GO_CASES)
    R.compare(ctx, go, proj_all, 'C07 user code on library goroutines (child process)', oracle=oracle_fault, nontrivial=nontrivial_fault)
    ctx.dist['go_statements'] = len(go_rows())
    # the subscriber itself (concurrent kernel): a terminal is refused only by a closed subscriber (C07k) — the log
    # predicate terminal-lost on the real subscriber under concurrent producers, all three modes
    kp = kernel_part.kernel_part(ctx, 'C07')
    return dict(
        rule=kp['rule'] + ' [C07 reads the predicate terminal-lost: a terminal call that returned on a subscriber nobody unsubscribed has begun its callback]; kind=fault: 23 operators (14 with Next-position callbacks, Tap/ThrowIfEmpty/Catch/TapOnSubscribe, 5 without callbacks) x variants x named callbacks x '
             'scripts (6 fixed incl. empty / error / never-ending / illegal suffix + seeded) x {sync, hot} x {unsafe, safe} source x fault plans: none, every single fault '
             '(operator callback invocation 0..3, source subscribe function after 0..3 / all notifications, source teardown, final observer onNext 0..3 / onError 0..1 / onComplete; '
             'panic(error), panic(non-error value), error return for MapErr) and pairs (quick: 24 sampled per configuration; thorough: all); every subset of panicking finalizers among <= 4 (5); '
             'child-process scenarios Future / FromChannel+teardown / hand-written observer. Compared: every result field (trace with contexts, drops, unhandled hook, escaped panics during the script and '
             'from the follow-up notification + IsClosed + Unsubscribe, teardown counts, subscription count, usable). Oracles on the implementation alone: no escape without a teardown fault, grammar unless the '
             'final observer\'s onNext fails, nothing unhandled for Next-position-only plans, every call returns, every finalizer runs, no crash.',
        assumptions=['a join of exactly one error (xerrors.Join) is identified with that error on both sides',
                     'the child-process scenarios wait 2 s for the library goroutine; a crash is recognised by the Go runtime\'s "panic:" banner and a non-zero exit status',
                     'usable=0 is reported when a case does not finish within 3 s (a lock left held); never a pass'],
        extra={'distribution': ctx.dist}, search=combine_search(kp['search'], search))

import collections, os, re
import runner as R
from props import *

MANIFEST = dict(
    text="Lean: the counting/timing operators of ee/plugins/prometheus are machines in chains with one subscriber gate per stage; "
         "`transparent`: for every chain of operators that cannot read the plugin's unexported context key and never emit a nil context (`Pair`, proved for every machine of the driver's table except maxM: `stageTable_ok`; `driver_results_transparent` on the driver's own functions), every source mode, "
         "raw script (legal or not) and cut, the instrumented composition (licence on) delivers what the plain one (licence off) delivers, with equal source "
         "subscriptions and releases (simulation: sink / one-to-one forwarder / indistinguishable pair); `counters_pinned`: for every chain whatsoever the "
         "counters are functions of the trace (subscriptions = 1 per Subscribe, in = values the source emitted while subscribed, out = values delivered, "
         "lag = source values with a non-nil context, processing observations of operator i = values leaving it with the checkpoint in their context); "
         "`counters_exact_partial` = the property as stated on the sub-domain excluding the two listed deviations, `counters_exact_static` = the same for every chain of checkpoint-keeping operators (`Keeps`, 23 catalogue machines); stand-alone counters = number of "
         "Next/Error/Complete/subscription events of their stage; totals over several subscriptions are sums. "
         "Partial: two deviations of the pinned tree are witness theorems and known findings (nil context after Max(empty) becomes an Error; no "
         "processing-time observation for values emitted without a checkpoint, e.g. EndWith). "
         "F: regenerated tables of pipe.go (24 arities: erase observers = plain, observer i follows operator i+1, = the model's `instrument`), license.go, "
         "operator.go (every wrapper forwards once unchanged, increments first, returns its upstream Unsubscribe) decided by the kernel. "
         "K: kind=prom, real roprometheus.PipeN / stand-alone operators with the licence hook on and off, random chains of catalogue operators, all 24 arities, "
         "raw scripts and endings, sync/hot, cuts, repeated and concurrent subscriptions; delivered traces, source release and gathered metrics EQUAL to the model."
         ' scrape0=1: the collector is registered and scraped before the licence is installed; once it is active the exported counters are those of a pipeline built under the licence.',
    technique="Lean 4 proof (simulation between gate-per-stage chains, local invariants over accepted notifications) + regenerated fact tables decided by the kernel "
              "+ differential correspondence of traces and gathered Prometheus metrics",
    ref='5/C19')


def _fields(line):
    return dict(kv.split('=', 1) for kv in line.split()[2:] if '=' in kv)


def _all(d):
    return {k: v for k, v in d.items() if not k.startswith('_') or k == '_flag'}


def _count_n(traces):
    return sum(1 for t in traces.replace(';', ',').split(',') if t.startswith('N'))


def _gate_count(script):
    n = 0
    for t in ([] if script in ('-', '') else script.split(',')):
        if t.startswith('N'):
            n += 1
        else:
            break
    return n


def _metrics(m):
    if m in (None, '-', 'off') or ':' not in m:
        return None
    d = {}
    for kv in m.split(','):
        k, v = kv.split(':', 1)
        d[k] = v
    try:
        return dict(subs=int(d['subs']), inN=int(d['in']), out=int(d['out']), lag=int(d['lag']),
                    proc=[int(x) for x in d['proc'].split('.')] if d.get('proc') else [])
    except (KeyError, ValueError):
        return 'malformed'


def shrink_prom(ctx, case_line, differs):
    """drop chain elements, subscriptions and script tokens while implementation and model disagree"""
    cur = case_line
    for _ in range(40):
        f = _fields(cur)
        head = cur.split()[:2]
        def build(ff):
            return ' '.join(head + [f'{k}={v}' for k, v in ff.items()])
        cands = []
        chain = f.get('chain', '-').split('/')
        if len(chain) > 1:
            for i in range(len(chain)):
                cands.append(build(dict(f, chain='/'.join(chain[:i] + chain[i + 1:]))))
        groups = f.get('srcs', '-').split(';')
        cuts = f.get('cut', '-').split(',')
        cuts += ['-'] * (len(groups) - len(cuts))
        if len(groups) > 1:
            for j in range(len(groups)):
                cands.append(build(dict(f, srcs=';'.join(groups[:j] + groups[j + 1:]), cut=','.join(cuts[:j] + cuts[j + 1:]))))
        for j, g in enumerate(groups):
            toks = [] if g in ('-', '') else g.split(',')
            for i in range(len(toks)):
                nt = toks[:i] + toks[i + 1:]
                cands.append(build(dict(f, srcs=';'.join(groups[:j] + [','.join(nt) if nt else '-'] + groups[j + 1:]))))
        if f.get('conc') == '1':
            cands.append(build(dict(f, conc='0')))
        if not cands:
            break
        nxt = None
        for c, g, l in R.replay_cases(ctx, cands[:60]):
            if differs(g, l):
                nxt = c
                break
        if nxt is None:
            break
        cur = nxt
    return cur


def check(ctx):
    rows = R.run_kind(ctx, 'prom')
    hook = any(' lic=on ' in c for c, _, _ in rows)
    if not hook:
        ctx.notes.append('licence hook absent: the repository under check has no ee/plugins/prometheus/verif_license.go (repo_hooks/prometheus_license.patch); '
                         'only the licence-off half of the correspondence was run (plain composition, stand-alone operators returning their source, collector exporting nothing)')
    dist = collections.Counter()
    bad, orc = [], []
    nil_class = proc_class = 0
    by_key = {}
    for c, g, l in rows:
        ctx.evaluations += 1
        f = _fields(c)
        gd, ld = R.parse_res(g), R.parse_res(l)
        n_ops = len(f.get('chain', '-').split('/'))
        n_sub = len(f.get('srcs', '-').split(';'))
        dist[f"lic={f.get('lic')}"] += 1
        dist[f"pipe={f.get('pipe')}"] += 1
        dist[f"mode={f.get('mode')}"] += 1
        dist[f"conc={f.get('conc')}"] += 1
        dist[f"subscriptions={n_sub}"] += 1
        dist[f"arity={n_ops}"] += 1
        if 'N' in f.get('srcs', '') and gd.get('traces', '-').replace(';', '').replace('-', '') != '':
            ctx.distinct.add(R.hashlib.md5(R.case_key(c).encode()).digest()[:8])
        if len(ctx.samples) < 4 and ctx.evaluations % 7919 == 1:
            ctx.samples.append({'case': c, 'impl': g, 'model': l})
        # K: everything the harness reports must equal the model
        if _all(gd) != _all(ld):
            bad.append((c, g, l))
        else:
            ctx.traces_validated += 1
        # direct oracles on the implementation (the property itself, no model involved)
        if flag(gd):
            orc.append((c, g, f'harness flag {flag(gd)}'))
            continue
        m = _metrics(gd.get('m'))
        if m == 'malformed':
            orc.append((c, g, 'metrics: malformed gather result'))
        elif m is not None:
            out = _count_n(gd.get('traces', '-'))
            if m['subs'] != n_sub:
                orc.append((c, g, f"counters: subscriptions total {m['subs']} but {n_sub} Subscribe calls"))
            if m['out'] != out:
                orc.append((c, g, f"counters: notifications-out {m['out']} but {out} values delivered"))
            if m['lag'] != m['inN']:
                orc.append((c, g, f"counters: {m['lag']} lag observations for {m['inN']} source values"))
            if f.get('mode') == 'sync':
                ssub = gd.get('ssub', '').split(';')
                want = sum(_gate_count(s) for s, k in zip(f.get('srcs', '-').split(';'), ssub) if k == '1')
                if m['inN'] != want:
                    orc.append((c, g, f"counters: notifications-in {m['inN']} but the source emitted {want} values"))
            if m['proc'] and 'ob(p90' not in gd.get('traces', ''):
                last = m['proc'][-1]
                if last > out:
                    orc.append((c, g, f"counters: {last} processing-time observations for {out} values leaving the last operator"))
                elif last < out:
                    proc_class += 1     # known finding: values without checkpoint are not observed (the model comparison pins the exact number)
        key = re.sub(r'\blic=\S+', 'lic=*', R.case_key(c))
        by_key.setdefault(key, {})[f.get('lic')] = (c, g, gd)
    # transparency: licence on vs licence off on the very same case
    pairs = 0
    for key, d in by_key.items():
        if 'on' in d and 'off' in d:
            pairs += 1
            (c1, g1, on), (c0, g0, off) = d['on'], d['off']
            same = all(on.get(k) == off.get(k) for k in ('traces', 'rel', 'ssub'))
            if not same:
                if 'ob(p90' in on.get('traces', ''):
                    # known finding: a nil context emitted by an operator of the chain made the
                    # instrumentation panic (p901 = context.WithValue(nil), p902 = nil.Value)
                    nil_class += 1
                else:
                    orc.append((c1, g1, f'transparency: licence on differs from licence off ({g0})'))
    ctx.dist = dict(dist)

    differs = lambda gg, ll: _all(R.parse_res(gg)) != _all(R.parse_res(ll))
    if bad:
        groups = collections.defaultdict(list)
        for c, g, l in bad:
            gd, ld = R.parse_res(g), R.parse_res(l)
            which = ','.join(sorted(k for k in set(_all(gd)) | set(_all(ld)) if gd.get(k) != ld.get(k)))
            groups[which].append((c, g, l))
        for which, lst in list(groups.items())[:3]:
            c, g, l = min(lst, key=lambda t: len(t[0]))
            small = shrink_prom(ctx, c, differs)
            res = R.replay_cases(ctx, [small])
            sg, sl = (res[0][1], res[0][2]) if res else (g, l)
            ctx.violation(f'C19 instrumented pipeline: implementation and model disagree on {which} ({len(lst)} cases)',
                          f'# C19: the real ee/plugins/prometheus pipeline differs from the Lean model (for which transparency and counter exactness are proved) on: {which}\n'
                          f'{small}\n# implementation: {sg}\n# model:          {sl}\n# replay: ./check C19 --replay <this file>\n')
    if orc:
        groups = collections.defaultdict(list)
        for c, g, msg in orc:
            groups[re.sub(r'\d+', 'n', re.sub(r'\(.*', '', msg))[:48]].append((c, g, msg))
        for kind, lst in sorted(groups.items(), key=lambda kv: -len(kv[1]))[:3]:
            c, g, msg = min(lst, key=lambda t: len(t[0]))
            ctx.violation(f'C19 {msg} ({len(lst)} cases)', f'# C19 (direct check of the property on the implementation): {msg}\n{c}\n# implementation: {g}\n')
    ctx.notes.append(f'licence on/off pairs compared directly: {pairs}; instances of the known nil-context class: {nil_class}; '
                     f'cases where the last operator emitted values without checkpoint (known finding, exact number pinned by the model): {proc_class}')
    return dict(
        rule='kind=prom: corpus; every int->int catalogue operator configuration alone (Pipe1) x exhaustive scripts to length 1 (quick) / 2 (thorough) over {-1,0,2,3} '
             'x three endings x illegal suffixes x {sync, hot} x cuts; every generated arity Pipe1..Pipe24 with random chains (10 / 200 per arity); 8000 / 200000 random chains '
             '(length 1-10) with stand-alone counters, 1-3 subscriptions sequential or concurrent, pipe ee/ro; each case with licence on and off when the hook exists. '
             'Compared: every delivered trace (values, kinds, contexts), source subscriptions and releases, gathered metrics (subscriptions, in, out, lag count, '
             'processing count per operator_index, label names), stand-alone counter values. Oracles on the implementation: licence on == licence off; '
             'subscriptions = Subscribe calls; out = delivered values; lag = in; in = gated script values (sync); observations of the last operator <= out. '
             'non-trivial = some script has a value and something was delivered',
        assumptions=[
            'operators of the chain cannot read the plugin\'s context key (it is an unexported type: Go visibility) - the `Pair` hypothesis of `transparent`',
            'Prometheus counters/summaries are atomic adders (client_golang); concurrent subscriptions share nothing else (operators are applied inside the subscribe function)',
            'the licence bypass flag is the package\'s own test switch, set through the verif-tagged hook; the vendor-signed licence path (rolicense.IsEnterpriseEnabled) is not exercised',
            'PipeN needs the caller\'s source file at run time (introspection.GetFunctionDescription); a failure there returns Throw and is outside the property\'s quantifier',
            'durations are not modelled: only the number of observations (and sum >= 0) is checked',
        ],
        extra={'distribution': ctx.dist, 'licence_hook_present': hook})

"""Shared by C17.py and C08_handoff.py: the `chan` (deterministic, equality with the Lean model) and
`chanv` (schedule-dependent, oracles) correspondence runs for ToChannel / FromChannel / ObserveOn /
SubscribeOn / Collect."""
import os, re, shutil
import runner as R
from props import toks, flag

DET_FIELDS = ('read', 'closed', 'closes', 'trace', 'unh', 'escaped', 'donecloses', 'leak', 'vals', 'err', 'ctx', 'gone', 'backlog')


def op_of(case):
    m = re.search(r'\bop=(\S+)', case)
    return m.group(1) if m else '?'


def field(case, k, d='-'):
    m = re.search(r'\b' + k + r'=(\S+)', case)
    return m.group(1) if m else d


def proj_chan(d):
    """every field of a kind=chan result; the order of the drop hook calls of different
    goroutines is not part of any property: drops compared as a multiset"""
    out = {k: d.get(k) for k in DET_FIELDS}
    out['drops'] = sorted(toks(d.get('drops')))
    out['_flag'] = flag(d)
    return tuple(sorted((k, str(v)) for k, v in out.items()))


def nontrivial_chan(case, gd):
    return 'N' in field(case, 'src') and any(gd.get(k, '-') not in ('-', None, '[]') for k in ('read', 'trace', 'vals'))


def terminal_last(items):
    return all(t[0] == 'N' for t in items[:-1])


def oracle_det(case, gd):
    """model-free oracles on the implementation result of a kind=chan case"""
    if flag(gd) and flag(gd) != 'blocks':   # `blocks`: Collect over a stream without terminal, not run
        return f'harness flag {flag(gd)}'
    if gd.get('escaped', '-') != '-' and not (field(case, 'tdp', '0') == '1' and gd['escaped'] == 'tdpanic'):
        # (tdp=1: the scripted source's own teardown panics on purpose; that panic is the caller's)
        return 'escape: a panic escaped from the library into the caller (' + gd['escaped'] + ')'
    if field(case, 'tdp', '0') == '1' and (gd.get('gone', '1') != '1' or gd.get('closed', '1') != '1'):
        return 'release: the channel was not closed although the teardown ran (upstream teardown panicked)'
    if gd.get('closes') == '2' or gd.get('donecloses') == '2':
        return 'double-close: close of closed channel'
    if 'read' in gd and not terminal_last(toks(gd['read'])):
        return 'order: a notification follows a terminal in the channel'
    if gd.get('leak', '0') != '0':
        return 'leak: the FromChannel goroutine did not exit'
    return None


def get_rows(ctx, kind):
    cache = ctx.__dict__.setdefault('_chan_rows', {})
    if kind not in cache:
        cache[kind] = R.run_kind(ctx, kind)
    return cache[kind]


def settle_transients(ctx, rows):
    """A deterministic run can be disturbed by the scheduler in two places that the library leaves
    open: the 1 ms sleep that orders ToChannel's hand-out before its goroutine (empty-source race),
    and the window in which ToChannel's goroutine has subscribed the source but not yet registered
    that subscription. Both are behaviours of the model under another schedule (theorems
    toChannel_handout_race_witness / hot = false) and are exercised on purpose by kind=chanv.
    A disagreeing row is therefore re-run (twice at most); only a disagreement that persists is
    reported. The number of transient disagreements goes to the evidence."""
    sus = [i for i, (c, g, l) in enumerate(rows) if proj_chan(R.parse_res(g)) != proj_chan(R.parse_res(l))]
    if not sus or len(sus) > 200:
        return rows, 0, 0
    rows = list(rows)
    transient = race = 0
    for _ in range(2):
        if not sus:
            break
        again = R.replay_cases(ctx, [rows[i][0] for i in sus])
        still = []
        for i, (c, g, l) in zip(sus, again):
            if proj_chan(R.parse_res(g)) == proj_chan(R.parse_res(l)):
                transient += 1
                if 'Nch' in toks(R.parse_res(rows[i][1]).get('drops')):
                    race += 1
                rows[i] = (c, g, l)
            else:
                still.append(i)
        sus = still
    if transient:
        ctx.notes.append(f'{transient} deterministic run(s) disagreed once and agreed on re-run (scheduler noise; {race} of them showed the empty-source hand-out race without a park point)')
    return rows, transient, race


def check_det(ctx, ops, what):
    rows = [r for r in get_rows(ctx, 'chan') if op_of(r[0]) in ops]
    rows, transient, race = settle_transients(ctx, rows)
    R.compare(ctx, rows, proj_chan, what, oracle=oracle_det, nontrivial=nontrivial_chan)
    ctx.__dict__['chan_transients'] = ctx.__dict__.get('chan_transients', 0) + transient
    return len(rows), race


# ---------------------------------------------------------------- schedule-dependent validation

def is_prefix(a, b):
    return len(a) <= len(b) and b[:len(a)] == a


def oracle_val(case, gd, ld, stats):
    """oracle on a kind=chanv implementation result; `ld` is the reference the Lean driver printed
    (full = the gated script as the consumer must see it, bound = capacity + 2)"""
    op, scen = op_of(case), field(case, 'scen').split('@')[0]
    karg = field(case, 'scen').split('@')[1] if '@' in field(case, 'scen') else None
    mode = field(case, 'mode', 'sync')
    if gd.get('park') == 'unavailable':
        stats['park_unavailable'] = stats.get('park_unavailable', 0) + 1
        return None
    if flag(gd) or 'park' in gd:
        return f'harness flag {flag(gd) or gd.get("park")}'
    if scen == 'park':
        if proj_park(gd) != proj_park(ld):
            return 'park: with the subscribing goroutine parked before the hand-out the implementation and the model disagree'
        if 'Nch' in toks(gd.get('drops')):
            stats['race_reproduced'] = stats.get('race_reproduced', 0) + 1
            stats.setdefault('race_cases', []).append((case, gd['_raw']))
        return None
    if gd.get('escaped', '-') != '-':
        return 'escape: a panic escaped from the library into the caller (' + gd['escaped'] + ')'
    unh = toks(gd.get('unh'))
    if any(u != 'ob(s90)' for u in unh):
        return 'unhandled: an error other than the recovered send-on-closed-channel reached OnUnhandledError'
    if gd.get('closes') == '2':
        return 'double-close: close of closed channel'
    if gd.get('leak', '0') != '0':
        return 'leak: the FromChannel goroutine did not exit after unsubscription'
    full = toks(ld.get('full'))
    bound = int(ld.get('bound', '0'))
    seen = toks(gd.get('read')) if op == 'ToChannel' else toks(gd.get('trace'))
    if op == 'FromChannel':
        if scen in ('slow', 'stall'):
            pass
        elif scen == 'abandon':
            full = full[:-1][:int(karg)]
        else:
            full = full[:-1]
    if not is_prefix(seen, full):
        return 'fifo: the consumer saw something that is not a prefix of the producer\'s notifications'
    quiet = scen in ('slow', 'stall')
    if quiet or scen == 'abandon':
        if seen != full:
            return 'loss: the consumer did not see every notification (terminal last) although nobody unsubscribed'
    if quiet:
        if unh:
            return 'unhandled: a send failed although nobody unsubscribed'
        ahead = int(gd.get('maxahead', '0'))
        stats['max_ahead_minus_bound'] = max(stats.get('max_ahead_minus_bound', -99), ahead - bound)
        if ahead == bound:
            stats['bound_reached'] = stats.get('bound_reached', 0) + 1
        if ahead > bound:
            return f'bound: produced - consumed reached {ahead} > capacity + 2 = {bound}'
    if op == 'ToChannel':
        if gd.get('closed') != '1':
            return 'close: the channel was not closed after the terminal / the unsubscription'
        if scen in ('stop', 'unsub', 'early'):
            drops = [d for d in toks(gd.get('drops')) if d != 'Nch']
            # the destination's Complete is refused too when the unsubscription came first
            down_c = 1 if ('C' in drops and not any(t.startswith('C/') for t in toks(gd.get('trace')))) else 0
            extra = len(seen) + len(unh) + len(drops) - int(gd.get('produced', '0'))
            if extra not in (0, down_c):
                return 'conservation: read + failed sends + refused by the closed subscriber != produced'
    # scen=early on ToChannel: the teardown (close of the channel) ran before ToChannel's goroutine subscribed the source; until that
    # goroutine has registered the fresh subscription (AddUnsubscribable on the disposed composite unsubscribes it at once) the source is
    # live, and a short hot script can be pushed entirely inside that window: every one of its sends then fails (the listed ToChannel.ch
    # finding; conservation is checked above). Elsewhere at most the one send in flight at the close can fail.
    if mode == 'hot' and len(unh) > 1 and not (op == 'ToChannel' and scen == 'early'):
        return 'failed-sends: more than one send failed although the source was cut before the close'
    return None


def proj_park(d):
    return (toks(d.get('read')), toks(d.get('trace')), sorted(toks(d.get('drops'))), toks(d.get('unh')), d.get('escaped'))


def check_val(ctx, ops, what):
    rows = [r for r in get_rows(ctx, 'chanv') if op_of(r[0]) in ops]
    stats = {}
    bad = {}
    for c, g, l in rows:
        ctx.evaluations += 1
        gd, ld = R.parse_res(g), R.parse_res(l)
        msg = oracle_val(c, gd, ld, stats)
        if msg:
            bad.setdefault((op_of(c), msg.split(':')[0]), []).append((c, g, l, msg))
        else:
            ctx.traces_validated += 1
    for (op, kind), lst in list(bad.items())[:6]:
        c, g, l, msg = min(lst, key=lambda t: len(t[0]))
        ctx.violation(f'{what}: {msg} for {op} ({len(lst)} cases)',
                      f'# {what} (schedule-dependent validation run; oracle on the implementation): {msg}\n{c}\n# implementation: {g}\n# reference:      {l}\n')
    stats['validation_cases'] = len(rows)
    return stats


# ---------------------------------------------------------------- the park point

def park_harness(ctx):
    """when the tree under test carries repo_hooks/tochannel_park.patch, build a second harness
    with the tag `verifpark` (chan_park.go) that can hold the hand-out back"""
    if not os.path.exists(os.path.join(R.REPO, 'verif_tochannel_on.go')):
        return None
    out = os.path.join(R.GO, 'bin', 'harness-park')
    with R.Lock('gobuild'):
        rc, o, e = R.sh(['go', 'build', '-tags', 'verif,verifpark', '-o', out, './harness'], cwd=R.GO, env=R.GOENV, timeout=900)
    if rc != 0:
        ctx.notes.append('harness with the park point does not build: ' + (o + e)[-1500:])
        return None
    return 'harness-park'


def check_park(ctx):
    """scen=park cases through the park harness: implementation == model under the schedule
    "goroutine first, then hand-out" (equality on read/trace/drops/unh/escaped)"""
    exe = park_harness(ctx)
    if exe is None:
        return dict(park='no park point in this tree (repo_hooks/tochannel_park.patch not applied): the empty-source ordering is model-only here')
    rows = [r for r in R.run_kind(ctx, 'chanv', exe=exe, extra=['-only', 'ToChannel'], shards=2) if field(r[0], 'scen') == 'park']
    stats = {}
    for c, g, l in rows:
        ctx.evaluations += 1
        msg = oracle_val(c, R.parse_res(g), R.parse_res(l), stats)
        if msg:
            ctx.violation(f'C17 ToChannel hand-out with park point: {msg}', f'# {msg}\n{c}\n# implementation: {g}\n# model:          {l}\n')
        else:
            ctx.traces_validated += 1
    return dict(park=f'{len(rows)} parked runs', race_reproduced=stats.get('race_reproduced', 0), race_cases=stats.get('race_cases', [])[:3])


# ---------------------------------------------------------------- the regenerated source shapes

def _shapes(path):
    try:
        return dict(re.findall(r'\("(\w+)",\s*\n?\s*"(.*)"\)', open(path).read()))
    except OSError:
        return {}


def shape_search(ctx, out):
    """`search` hook for a failed `lake build`: theorem chan_shapes (RoProofs/ChanShape.lean) compares
    the subscribe closures of ToChannel / detachOn / FromChannel, as regenerated from the tree under
    check, with the statements the transition systems were written from. The runs of `check` have
    already been made against that tree: a concrete failing input found by them is the report;
    otherwise the changed function and the first differing statement are named (no-failing-input-found)."""
    gen = _shapes(os.path.join(R.LEAN, 'RoGen', 'ChanShape.lean'))
    exp = _shapes(os.path.join(R.LEAN, 'RoProofs', 'ChanShape.lean'))
    changed = [n for n in exp if gen.get(n) != exp[n]]
    if not changed:
        return False
    lines = []
    for n in changed:
        a, b = exp[n], gen.get(n, 'missing')
        i = next((k for k in range(min(len(a), len(b))) if a[k] != b[k]), min(len(a), len(b)))
        lines.append(f'{n}: first difference at character {i}\n  expected …{a[max(0, i - 60):i + 80]}…\n  source   …{b[max(0, i - 60):i + 80]}…')
    text = ('theorem Ro.Chan.chan_shapes_ok (RoProofs/ChanShape.lean; used by Ro.C17.chan_shapes, Ro.C08.handoff_shapes) no longer checks:\n'
            'the source of ' + ', '.join(changed) + ' is not written the way the model of RoModel/Chan.lean reads it.\n' + '\n'.join(lines) + '\n')
    ctx.notes.append(text)
    if any(not v[2] for v in ctx.violations):
        return True        # the correspondence runs above already gave a concrete failing input
    ctx.violation('the source of ' + ', '.join(changed) + ' changed shape (send / close / teardown order) and no run shows a difference', text, no_input=True)
    return True

"""C05, second half (slice C05b): Zip*/ZipAll, CombineLatest*/CombineLatestAll, ConcatAll/Concat/ConcatWith/FlatMap*,
BufferWhen, WindowWhen, GroupBy* over hot sources, every interleaving. `parts(ctx)` is what the C05 check calls;
`check(ctx)` makes the slice runnable on its own as `./check C05b quick`."""
import json, os, re
import runner as R
from props import *

MANIFEST = dict(
    text="Lean theorems (RoProps/C05b.lean) for the multi-source machines of Zip*/ZipAll, CombineLatest*/CombineLatestAll, ConcatAll/Concat/ConcatWith/FlatMap*, "
         "BufferWhen, WindowWhen, GroupBy*: for every tuple of source scripts and EVERY interleaving (each notification processed to quiescence) the delivered trace equals the "
         "specification over the arrivals (zip of k-th values, latest tuples, sources one after another, partition at boundary ticks, per-key substreams), the trace obeys the grammar, "
         "each source's order is kept, a terminal releases every source. Deviations of the pinned tree (Zip complete callback, ZipAll outer completion, Concat subscribing after an error, "
         "GroupBy error/late subscriber) are `_partial` + witness theorems and replayed known findings. True concurrency: micro-step models of Zip/CombineLatest/BufferWhen/WindowWhen with "
         "witness theorems that the clause fails (lost tuple, self-deadlock, duplicate tuple, lost buffer, lost value), confirmed on the real code by stress. Tie: differential runs of the executable model against the real operators on hot "
         "probe sources, exhaustive over small scripts x all interleavings plus seeded samples, all result fields equal; plus implementation = Spec outside the known classes.",
    technique="Lean 4 proof (run of an all-hot machine = fold over arrivals; induction over arrivals / interleavings) + differential correspondence (kind multib)",
    ref='5/C05')

# classes whose members may deliver a trace different from the specification
TRACE_CLASSES = {'zipCompleteUnsub', 'zipAllOuterCompletes', 'groupByLate', 'groupByErrorCompletesGroups'}
SUBS_CLASSES = {'concatInnerError'}


def proj_mb(d):
    return (flag(d), d.get('trace'), d.get('drops'), d.get('rel'), d.get('subs'))


def nontrivial_mb(case, gd):
    return gd.get('trace', '-') != '-' or gd.get('drops', '-') != '-'


def spec_oracle(ctx, rows):
    """implementation = specification (as computed by the Lean Spec.* functions) outside the known classes.
    The model-only fields (spec=, specsubs=, known=) are asked from the driver in a second pass (`spec=1`)."""
    bad = {}
    stats = {}
    cp, lp = os.path.join(ctx.work, 'spec.cases'), os.path.join(ctx.work, 'spec.lean')
    with open(cp, 'w') as f:
        for c, g, l in rows:
            f.write(c + ' spec=1\n')
    ok, err = R.run_driver(cp, lp)
    specs = open(lp).read().splitlines() if ok else []
    if len(specs) != len(rows):
        ctx.violation('C05b: the driver did not answer the spec pass', 'driver spec pass failed\n' + (err or '')[-2000:], no_input=True)
        return {}
    for (c, g, _), l in zip(rows, specs):
        gd, ld = R.parse_res(g), R.parse_res(l)
        if 'spec' not in ld or flag(gd) or ' cut=' in c:
            continue    # the specifications are about runs without an external Unsubscribe
        op = re.search(r'\bop=(\S+)', c).group(1)
        known = set() if ld.get('known', '-') == '-' else set(ld['known'].split(','))
        msg = None
        if not (known & TRACE_CLASSES) and gd.get('trace') != ld['spec']:
            msg = 'delivered trace differs from the specification outside the known classes'
        elif 'specsubs' in ld and not (known & SUBS_CLASSES) and gd.get('subs') != ld['specsubs']:
            msg = 'a source is subscribed although the previous one has not completed (or is not subscribed although it has)'
        k = (op, ','.join(sorted(known)) or 'none')
        st = stats.setdefault(k, [0, 0])
        st[0] += 1
        st[1] += gd.get('trace') == ld['spec']
        if msg:
            bad.setdefault((op, msg), []).append((c, g, l))
    for (op, msg), lst in list(bad.items())[:4]:
        c, g, l = min(lst, key=lambda t: len(t[0]))
        ctx.violation(f'C05b {op}: {msg} ({len(lst)} cases)',
                      f'# C05b: {msg}\n{c}\n# implementation: {g}\n# model + spec:   {l}\n# replay: ./check {ctx.prop} --replay <this file>\n')
    return {f'{op}/{k}': {'cases': v[0], 'trace_equals_spec': v[1]} for (op, k), v in sorted(stats.items())}


def replay_known_slice(ctx):
    """stand-alone runs (ctx.prop == 'C05b'): replay the C05 findings that belong to this slice"""
    for k in R.load_known('C05'):
        if k.get('status') != 'open' or k.get('slice') != 'C05b' or not k.get('case'):
            continue
        res = R.replay_cases(ctx, [k['case']])
        got = ' '.join(res[0][1].split()[2:]) if res else '?'
        if got == k.get('impl'):
            ctx.known.append(f"{k['key']}: {k['what']}")
        else:
            ctx.notes.append(f"known finding {k['key']} no longer reproduces (implementation now gives: {got})")


def concurrent_part(ctx):
    """C05's last sentence, for Zip / CombineLatest / BufferWhen / WindowWhen: stress (a search, not a proof).
    Every trace the real code delivers with free-running source goroutines must be reachable in the micro-step
    model; a trace that is the specification's value for no compatible arrival order (and not a trace of the logical
    model either) is the concurrent deviation predicted by the Micro.*_witness theorems: known finding when listed."""
    rows = R.run_kind(ctx, 'multibc', shards=max(1, min(R.NCPU // 4, 4)))   # every case spins 3 goroutines
    scen = {}
    for c, g, l in rows:
        ctx.evaluations += 1
        gd, ld = R.parse_res(g), R.parse_res(l)
        op = re.search(r'\bop=(\S+)', c).group(1)
        srcs = re.search(r'\bsrcs=(\S+)', c).group(1)
        if flag(gd) or flag(ld) or 'seen' not in gd or 'reach' not in ld:
            ctx.violation(f'C05b concurrent {op}: no result ({flag(gd) or flag(ld)})', f'{c}\n# implementation: {g}\n# model: {l}\n', no_input=True)
            continue
        ctx.traces_validated += 1
        d = scen.setdefault((op, srcs), dict(seen={}, case=c, ld=ld))
        for t, n in zip(gd['seen'].split('|'), gd.get('counts', '').split('|')):
            d['seen'][t] = d['seen'].get(t, 0) + int(n or 0)
    known = {k['op']: k for k in R.load_known('C05') if k.get('slice') == 'C05b' and k.get('kind') == 'concurrent' and k.get('status') == 'open'}
    found = {}
    summary = {}
    for (op, srcs), d in sorted(scen.items()):
        ld = d['ld']
        reach = set(ld['reach'].split('|'))
        ok = set(ld['allowed'].split('|')) | set(ld['logical'].split('|'))
        seen = d['seen']
        summary[f'{op} {srcs}'] = {'seen': seen, 'allowed_or_logical': sorted(ok), 'reachable_in_micro_model': len(reach)}
        outside = sorted(t for t in seen if t not in reach)
        if outside:
            ctx.violation(f'C05b concurrent {op}: the real code delivered {outside[0]} (x{seen[outside[0]]}), which the micro-step model cannot',
                          f'# the micro-step model (lean/RoModel/MultiB/Micro.lean) does not cover the implementation\n{d["case"]}\n# seen: {seen}\n# reachable: {sorted(reach)}\n')
        anomalies = sorted(t for t in seen if t not in ok)
        if anomalies:
            if op in known:
                found.setdefault(op, []).append(f'{srcs} -> {anomalies[0]} ({seen[anomalies[0]]}x)')
            else:
                ctx.violation(f'C05b concurrent {op}: delivered {anomalies[0]}, the output of no arrival order compatible with the scripts {srcs}',
                              f'# concurrent sources: trace outside the specification for every compatible arrival order\n{d["case"]}\n# seen: {seen}\n# allowed: {sorted(ok)}\n')
    for op, lst in sorted(found.items()):
        ctx.known.append(f"{known[op]['key']}: {known[op]['what']} [this run: {'; '.join(lst[:3])}]")
    return summary


def parts(ctx):
    rows = R.run_kind(ctx, 'multib', shards=min(R.NCPU, 8))
    R.compare(ctx, rows, proj_mb, 'C05b multi-source operators, every interleaving (trace, drops, released, subscriptions)', nontrivial=nontrivial_mb)
    stats = spec_oracle(ctx, rows)
    if ctx.prop != 'C05':
        replay_known_slice(ctx)
    conc = concurrent_part(ctx)
    ops = {}
    for c, g, l in rows:
        m = re.search(r'\bop=(\S+) var=(\S+)', c)
        if m:
            ops[m.group(1) + '/' + m.group(2)] = ops.get(m.group(1) + '/' + m.group(2), 0) + 1
    return dict(
        rule='kind multib: Zip (ZipWith1-5, Zip2-6), ZipAll/Zip, CombineLatest (With1-4, CombineLatest2-5), CombineLatestAll/Any, ConcatAll/Concat/ConcatWith/FlatMap/FlatMapI/FlatMapIWithContext, '
             'BufferWhen, WindowWhen (recorder on every window), GroupBy/I/WithContext/IWithContext (recorder on every group, subscribed 0/1/2/3/50 notifications after emission) on hot probe sources; '
             'quick: 0-1 sources x scripts <=3, 2 sources x scripts <=2 values x {never, complete, error} x ALL interleavings, 3 sources x scripts <=1 value x ALL interleavings (sampled 1/4 for secondary variants), '
             '300 seeded random cases per variant (2-6 sources, scripts <=4, entries that issue nothing); thorough: 2 sources x <=3 values, 3 sources x <=2 values x ALL interleavings (1/8 for secondary variants), 3000 random per variant; '
             'one case in five also with an external Unsubscribe at a random point (not ConcatAll, which blocks in Subscribe); compared: delivered trace (windows/groups as what their recorder received), refused notifications (multiset), per-source released flags, per-source subscription counts - all equal; '
             'oracle: implementation trace = Lean Spec.* of the arrivals outside the Known.* classes, Concat subscriptions = Spec.concatSubscribed outside Known.concatInnerError; non-trivial = something delivered or refused',
        assumptions=['logical semantics (theorems + correspondence): each notification processed to quiescence before the next is issued',
                     'true concurrency (Zip/CombineLatest/BufferWhen/WindowWhen): witness theorems in the micro-step model + stress on the real code (kind multibc: 16 two-source scenarios x 4000 iterations quick / 120000 thorough, free-running goroutines, seeded jitter); stress is a search and a model validation (seen subset of reachable), not a proof',
                     'sources are hot (notify after Subscribe returned); outer sources of ZipAll/CombineLatestAll/ConcatAll/FlatMap are synchronous and emit the inner sources in order',
                     'contexts are not modelled here (C09)'],
        extra={'cases_per_variant': ops, 'spec_agreement_by_class': stats, 'concurrent_stress': conc})


def check(ctx):
    return parts(ctx)

import runner as R
from props import *
import chan_common as CC

MANIFEST = dict(
    text="Proved in Lean for every capacity, raw script, source mode and schedule of the goroutines (transition systems of RoModel/Chan.lean, invariants by induction over the schedule): "
         "ToChannel's reader sees a prefix of the materialised gated script, in order, terminal last, all of it once both ends are idle; close(ch) runs at most once and exactly once after the "
         "terminal's or the teardown's closeChan(); a send on the closed channel becomes one OnUnhandledError inside the observer callback and never escapes; the hand-out is never refused for "
         "capacity 0 or when it comes first (partial: for capacity >= 1 the schedule 'goroutine first' refuses it - witness theorem; a finding on the code only with the park point applied); "
         "FromChannel delivers every received value in order then Complete, nothing after unsubscription, close(done) once, never stuck in a receive once done is closed; Collect = (values, error); "
         "ToSlice/ToMap/Materialize;Dematerialize by the operator machines. Tie: kind=chan (every script and ending x capacities 0-3 x unsubscription at every point, equality with the model under a "
         "canonical schedule) + kind=chanv oracles on slow/stalled/stopping consumers, racing and early unsubscription, abandoned channels."
         ' FromChannel and the hand-off bridges also under an already cancelled subscription context (cc=1): a done context does not end a stream; FromChannel over a buffered channel holding a 512-value backlog whose consumer leaves after k values (Take(k) / Unsubscribe): the rest stays in the channel.',
    technique="Lean 4 proof (invariants of a producer/consumer/unsubscriber transition system over a bounded FIFO, induction over arbitrary schedules) + differential correspondence + schedule-dependent oracles",
    ref='5/C17')

OPS = ('ToChannel', 'FromChannel', 'FromChannelBacklog', 'Collect', 'ObserveOn', 'SubscribeOn')


def check(ctx):
    # the slice / map bridges and Materialize;Dematerialize: the operator machines against the real operators, every
    # script and ending, and again on a second / third / concurrent subscription of the same pipeline and on a second
    # source of the same operator value ("precisely the delivered values, once, at completion" holds for every
    # subscription, not only the first)
    for op in ('ToSlice', 'ToMap', 'Materialize', 'MaterializeDematerialize'):
        # (Dematerialize alone has no harness operator: its input would be a stream of Notification values; it runs as the round trip)
        rows = R.run_kind(ctx, 'ops', extra=['-only', op], shards=2)
        if not rows:
            ctx.notes.append(f'kind=ops -only {op}: no case generated (operator name unknown to the harness?)')
        R.compare(ctx, rows, lambda d: (flag(d), toks(d.get('trace')), d.get('alias')), f'C17 {op}: delivered values and terminal', nontrivial=nontrivial_op)
        rows = run_reuse(ctx, extra=['-only', op], shards=2)
        R.compare(ctx, rows, proj_all, f'C17 {op}: every subscription of one pipeline / operator value yields its own values', nontrivial=lambda c, gd: 'N' in c and gd.get('t1', '-') != '-')
    n, seen = CC.check_det(ctx, OPS, 'C17 channel bridges (deterministic runs)')
    stats = CC.check_val(ctx, ('ToChannel', 'FromChannel'), 'C17 channel bridges under adverse schedules')
    park = CC.check_park(ctx)
    listed = [k for k in getattr(ctx, 'known_static', []) if k.get('key') == 'ToChannel empty-source hand-out race']
    reproduced = park.get('race_reproduced', 0) + seen
    if reproduced and listed:
        ctx.known.append(f"{listed[0]['key']}: {listed[0]['what']} (reproduced {reproduced}x on this run)")
    elif reproduced:
        c, g = (park.get('race_cases') or [('?', '?')])[0]
        ctx.violation('C17 ToChannel: the destination never receives the channel (hand-out refused after an early completion)',
                      f'# ToChannel over an empty source, capacity >= 1, goroutine scheduled before the hand-out\n{c}\n# implementation: {g}\n')
    park.pop('race_cases', None)
    return dict(rule='kind=ops and kind=reuse restricted to ToSlice, ToMap, Materialize, Materialize;Dematerialize (all scripts of the C04 scope; one operator value on two sources, 3 sequential + 4 concurrent subscriptions); kind=chan: scripts (values lists to length 3 exhaustive + seeded longer) x three endings x illegal suffixes x capacities {0,1,2,3} x {sync, hot} x Unsubscribe before every '
                     'notification and after the last; FromChannel: values x capacities x {close, abandon} x Unsubscribe at every point; Collect plain and through ObserveOn; compared with equality: '
                     'channel content, closed, close count, downstream trace, drops (multiset), unhandled errors, escaped panics, goroutine leak. kind=chanv: legal scripts x capacities x '
                     '{slow, stall, stop@k, unsub@k (racing), early (before the goroutine subscribes), abandon@k, unsubfull@k}; oracles: prefix / equality with gate(script), closed, conservation, '
                     'no escape, no leak. non-trivial = script has a value and something was read / delivered / collected',
                assumptions=['Go channels, sync.Once, select and goroutine start modelled with textbook semantics (RoModel/Chan.lean header)',
                             'teardown over-approximated: enabled from the start, run by the thread that triggers it (sound for the invariants)'],
                extra=dict(chanv=stats, park=park, transient_disagreements=ctx.__dict__.get('chan_transients', 0)),
                search=CC.shape_search)

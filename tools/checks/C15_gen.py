"""C15 (generated loop programs): RoProps/C15gen proves that the subscribe functions of RetryWithConfig, OnErrorResumeNextWith,
Catch, DoWhileIWithContext, WhileIWithContext (operator_error_handling.go) and RepeatWith (operator_utility.go), regenerated
from the Go source on this run — go/extract/loopgen.go -> lean/RoGen/LoopGen.lean, statement language and meaning
lean/RoModel/ResubGen.lean — compute exactly the `Result` of the hand-written loops of RoModel/Resub.lean the C15 theorems are
about, for every configuration, subscription context, cancellation point, cut and list of attempt outcomes. When
`lake build RoProps.C15gen` fails, `search` names the operator whose regenerated program changed (diff against the committed
snapshot lean/RoGen/LoopGen.snapshot) and points kind=resub at that operator with the thorough generator."""
import difflib, os, re
import runner as R
from props import *

LEAN_MODULES = ['C15gen']
GEN = os.path.join(R.LEAN, 'RoGen', 'LoopGen.lean')
SNAP = os.path.join(R.LEAN, 'RoGen', 'LoopGen.snapshot')
# the harness operators (kind=resub) that run a translated Go body
HARNESS_OPS = {'RetryWithConfig': ['Retry', 'RetryWithConfig'], 'DoWhileIWithContext': ['DoWhile'], 'WhileIWithContext': ['While'],
               'OnErrorResumeNextWith': ['OnErrorResumeNextWith'], 'Catch': ['Catch'], 'RepeatWith': ['RepeatWith']}


def parse_gen(text):
    blocks = {}
    for m in re.finditer(r'^-- @gen (\S+)\n(.*?)(?=^-- @gen |^-- @end)', text, flags=re.S | re.M):
        body = re.sub(r'/-- the locals of .*? -/\n', '', m.group(2))
        body = re.sub(r'^-- @names.*\n', '', body, flags=re.M)
        blocks[m.group(1)] = body.strip('\n')
    tail = text.split('-- @end', 1)[-1]
    skipped = dict(re.findall(r'\("([^"]+)", "((?:[^"\\]|\\.)*)"\)', tail.split('def skipped', 1)[-1].split('def guards', 1)[0]))
    tables = {}
    for name in ('guards', 'attempts'):
        m = re.search(r'def ' + name + r' .*?:= \[\n(.*?)\n\]', tail, flags=re.S)
        for op, row in re.findall(r'^\s*\("([^"]+)", (\[.*?\])\),?$', m.group(1) if m else '', flags=re.M):
            tables[(name, op)] = row
    return blocks, skipped, tables


def changed():
    if not (os.path.exists(GEN) and os.path.exists(SNAP)):
        return None
    nb, ns, nt = parse_gen(open(GEN).read())
    ob, _, ot = parse_gen(open(SNAP).read())
    out = []
    for op in list(ob) + [o for o in nb if o not in ob]:
        old, new = ob.get(op), nb.get(op)
        tdiff = [f'{t}: {ot.get((t, op))} -> {nt.get((t, op))}' for t in ('guards', 'attempts') if ot.get((t, op)) != nt.get((t, op)) and new is not None]
        if old == new and not tdiff:
            continue
        if new is None:
            out.append((op, 'no longer translated: ' + ns.get(op, 'function gone'), ['- ' + l for l in old.splitlines()]))
        elif old is None:
            out.append((op, 'newly translated; no theorem covers it', ['+ ' + l for l in new.splitlines()]))
        else:
            out.append((op, 'regenerated loop program differs from the snapshot' if old != new else 'regenerated table row differs from the snapshot',
                        [l for l in difflib.unified_diff(old.splitlines(), new.splitlines(), 'snapshot', 'regenerated', lineterm='', n=1) if not l.startswith(('---', '+++'))] + tdiff))
    return out


def search(ctx, out):
    if 'C15gen' not in out:
        return False
    ch = changed()
    if not ch:
        return False
    import C15
    errs = sorted(set(re.findall(r'error: (\S*C15gen\.lean:\d+:\d+)', out)))
    for op, why, diff in ch[:4]:
        head = (f'# the loop program regenerated from the Go source of `{op}` no longer equals the hand-written loop the C15 theorems are about\n'
                f'# (lake build RoProps.C15gen fails: {", ".join(errs) or "see evidence notes"})\n# {op} — {why}\n' + '\n'.join('#   ' + l for l in diff) + '\n')
        before = len(ctx.violations)
        rows = []
        for hop in HARNESS_OPS.get(op, [op]):
            rows += R.run_kind(ctx, 'resub', extra=['-only', hop], tier='thorough')
        rows = [r for r in rows if ' tdslow=1' not in r[0]]
        if rows:
            R.compare(ctx, rows, C15.proj_resub, f'C15 {op}: trace, subscribe/teardown log, attempts (regenerated loop program changed; thorough generator)',
                      oracle=C15.oracle_resub, nontrivial=C15.nontrivial_resub)
        if len(ctx.violations) > before:
            msg, path, no_input = ctx.violations[-1]
            with open(os.path.join(R.VERIF, path), 'a') as f:
                f.write(head)
        else:
            ctx.violation(f'C15gen: the regenerated loop program of {op} no longer equals the model ({why}); ' +
                          ('the correspondence runs of this operator (scripted attempt outcomes) show no behavioural difference'
                           if rows else 'no harness case for this operator'), head, no_input=True)
    return True


def parts(ctx):
    ch = changed()
    if ch is None:
        ctx.violation('C15gen: lean/RoGen/LoopGen.lean or its snapshot is missing', 'missing ' + GEN + ' or ' + SNAP + '\n', no_input=True)
    elif ch and not getattr(ctx, 'lake_failed', None):
        ctx.notes.append('LoopGen.lean differs from its snapshot for ' + ', '.join(o for o, _, _ in ch) + ' but all equalities still hold (run tools/opgen_snapshot.py)')
    return dict(rule_part='6 loop programs (RetryWithConfig, OnErrorResumeNextWith, Catch, DoWhileIWithContext, WhileIWithContext, RepeatWith) regenerated from the Go source and proved equal to the hand-written loops (every configuration, cancellation point, cut, outcome list)',
                search=search,
                assumptions=['the translator go/extract/loopgen.go is faithful on the fragment it accepts (its header); the readings built into the meaning of the statement language (RoModel/ResubGen.lean header: `subscriptions.IsClosed()` false inside the subscribe function, an attempt plays its whole outcome before `Wait` returns, `time.After` loses against a cancelled context) are shared with the hand-written loops and tied by kind=resub'])

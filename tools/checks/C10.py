import os, re
import runner as R
from props import *
import C10_gen

LEAN_MODULES = ['C10'] + C10_gen.LEAN_MODULES

MANIFEST = dict(
    text="Lean: one step function per subject kind (publish, behavior, replay N, async, unicast N; a line-by-line reading of subject_*.go and of the subscriber gate) "
         "proved, for every buffer size, every operation sequence over {Next,Error,Complete,Subscribe i,Unsubscribe i} and every subscriber, to deliver exactly the sequential definition "
         "(replay at subscription ++ values published while subscribed ++ terminal; late subscribers: the definition's replay + stored terminal), with the registered observers and the status being the definition's, "
         "observers dropped at termination/unsubscription, unicast admitting one subscriber, and every subscriber trace obeying the grammar (C01(c)); "
         "atomicity meta-theorem (one atomic action between call and return => linearizable, real-time order respected, any threads/schedule) instantiated for subjects, its premise checked on the regenerated lock skeletons of the Go methods. "
         "Tie: exhaustive operation sequences (length <= 5 quick / 6 thorough) x 5 kinds x buffer sizes, model vs real subject (traces, drops, CountObservers/HasObserver/IsClosed/HasThrown/IsCompleted after every step). "
         "Search/validation: 2-4 goroutine histories with call/return stamps checked linearizable against the executable model by brute force; scripted schedules for the known deviations."
         " Scripted schedule midunsub: a Subscribe to a unicast subject while the current subscriber's Unsubscribe is in flight (parked in a teardown of the subscriber's own) - either order of the two calls explains the history; judged by the linearizability search. Subjects subscribed with a ready-made Subscriber that is closed or closes itself in its first callback (RoModel/SubjectsX.lean: reduction to Subscribe ; Unsubscribe with the refused deliveries handed to the dropped hook; subjx_invariant, subjx_unicast_one_at_a_time, dead_subscriber_never_registered; kind=subjx, equality on every case; the unicast self-deadlock derived there was repaired in /repo 5f819fc).",
    technique="Lean 4 proof (invariant + per-subscriber simulation, induction over operation sequences; Herlihy-Wing meta-theorem over an operational model) + regenerated fact table decided by the kernel + differential correspondence + brute-force linearizability search on recorded histories",
    ref='5/C10')

SEQ_FIELDS = ('r0', 'r1', 'r2', 'drops', 'st')
KF_LATE = 'unicast late subscriber loses the backlog'
KF_UU = 'Unsubscribe is not atomic with a broadcast in progress'
KF_LOST = 'unicast loses a value captured before the observer left'
KF_REENTER = 'unicast Subscribe re-enters its own lock'


def proj_seq(d):
    return (flag(d),) + tuple(d.get(k) for k in SEQ_FIELDS)


def replay_proj(d):
    """./check C10 --replay: recorded histories are compared by verdict, sequences by the fields both sides have"""
    return ('lin', d.get('lin')) if 'lin' in d else proj_seq(d)


def oracle_seq(case, gd):
    if flag(gd):
        return f'harness flag {flag(gd)}'
    for k in ('r0', 'r1', 'r2'):
        if not grammar_ok(gd.get(k)):
            return f'grammar: subscriber {k[1]} received a notification after a terminal'
    return None


def nontrivial_seq(case, gd):
    src = case.split('src=')[-1]
    return 'S' in src and 'N' in src and any(gd.get(k, '-') != '-' for k in ('r0', 'r1', 'r2'))


def run_go(ctx, kind, extra=None):
    """run one harness generator, Go side only: (case lines, result lines)"""
    cp = os.path.join(ctx.work, f'{kind}.cases')
    gp = os.path.join(ctx.work, f'{kind}.go')
    cmd = [os.path.join(R.GO, 'bin', 'harness'), kind, '-tier', ctx.tier, '-seed', str(ctx.seed), '-cases', cp, '-res', gp] + (extra or [])
    rc, o, e = R.sh(cmd, cwd=ctx.work, env=R.GOENV, timeout=3000)
    if rc != 0:
        ctx.violation(f'{kind}: harness failed', f'{kind} harness failed\n{(o + e)[-3000:]}', no_input=True)
        return [], []
    return open(cp).read().splitlines(), open(gp).read().splitlines()


def lin_cases(cases, results):
    """recorded histories -> kind=subjlin case lines for the Lean driver"""
    out, skipped = [], []
    for c, r in zip(cases, results):
        cf = dict(kv.split('=', 1) for kv in c.split()[2:] if '=' in kv)
        rd = R.parse_res(r)
        if 'hist' not in rd:
            skipped.append((c, r))
            continue
        out.append((c, r, f"case {c.split()[1]} kind=subjlin op={cf['op']} p={cf['p']} hist={rd['hist']} r0={rd['r0']} r1={rd['r1']} r2={rd['r2']}"))
    return out, skipped


def lin_verdicts(ctx, name, triples):
    if not triples:
        return []
    cp = os.path.join(ctx.work, f'{name}.lin.cases')
    lp = os.path.join(ctx.work, f'{name}.lin.lean')
    open(cp, 'w').write('\n'.join(t[2] for t in triples) + '\n')
    ok, err = R.run_driver(cp, lp)
    vs = open(lp).read().splitlines()
    if not ok or len(vs) != len(triples):
        ctx.violation(f'{name}: the Lean driver failed on the recorded histories', f'{name}: driver failed\n{err[-2000:]}', no_input=True)
        return []
    return [(t, R.parse_res(v).get('lin', R.parse_res(v).get('_flag', '?'))) for t, v in zip(triples, vs)]


def check(ctx):
    reproduced = ' '.join(ctx.known)
    extra = {}
    gen = C10_gen.parts(ctx)

    # ---- (K) sequential correspondence: real subject = model, on every generated sequence
    rows = R.run_kind(ctx, 'subject')
    R.compare(ctx, rows, proj_seq, 'C10 sequential: real subject vs step function', oracle=oracle_seq, nontrivial=nontrivial_seq)

    # ---- subjects subscribed with a ready-made Subscriber (what pass-through operators hand upstream): already unsubscribed (X), or
    #      unsubscribing itself inside its first Next (Y) - reduced to the sequential model by the driver (Subscribe, then Unsubscribe at the
    #      point where the subscriber closed; what was delivered to a closed subscriber goes to the dropped hook). On the pinned tree the unicast
    #      subject registered its teardown while holding s.mu, and that teardown takes s.mu: with a subscriber closed by then the teardown ran
    #      at once and Subscribe never returned (hang=<k>): repaired in /repo 5f819fc, reported again if it returns.
    xrows = R.run_kind(ctx, 'subjx', shards=4)
    hung = [(c, g, l) for c, g, l in xrows if R.parse_res(g).get('hang', '0') != '0' and 'op=unicast' in c]
    rest = [r for r in xrows if r not in hung]
    R.compare(ctx, rest, proj_all, 'C10 subjects subscribed with a ready-made Subscriber (closed / closing itself in its first callback)', nontrivial=lambda c, gd: True, max_report=2)
    if hung and KF_REENTER not in reproduced:
        c, g, l = min(hung, key=lambda t: len(t[0]))
        ctx.violation(f'C10/C06 unicast subject: Subscribe with a Subscriber that is closed by the time the teardown is registered never returns ({len(hung)} cases)',
                      f'# the teardown `s.mu.Lock(); s.observer = nil` is registered by subscription.Add while SubscribeWithContext holds s.mu (subject_unicast.go:63-98);\n'
                      f'# Add runs a teardown at once on a disposed subscription\n{c}\n# implementation: {g}\n# model: {l}\n')
    elif hung:
        ctx.notes.append(f'known class {KF_REENTER}: {len(hung)} cases of this run')
    extra['subjx'] = dict(cases=len(xrows), unicast_hangs=len(hung))

    # ---- model vs sequential definition on the same cases (validation of the theorems' statements;
    #      together with the previous step: real subject vs definition)
    late_cases, bad_def = 0, []
    for c, g, l in rows:
        ld = R.parse_res(l)
        if 'dev' not in ld:
            continue
        if ld.get('pin') != '-' or ld.get('reg') != '-' or ld.get('dev') != ld.get('late') or (ld.get('dev') != '-' and 'op=unicast' not in c):
            bad_def.append((c, g, l))
        elif ld.get('dev') != '-':
            late_cases += 1
    if bad_def:
        c, g, l = min(bad_def, key=lambda t: len(t[0]))
        ctx.violation(f'the model deviates from the sequential definition outside the excluded class of unicast_definition_partial ({len(bad_def)} cases)',
                      f'# C10: model (= implementation on this case) vs sequential definition: dev/pin/reg/late fields disagree with the theorems\n{c}\n# implementation: {g}\n# model + definition: {l}\n')
    if late_cases and KF_LATE not in reproduced:
        ex = next((c, g, l) for c, g, l in rows if R.parse_res(l).get('dev', '-') != '-')
        ctx.violation(f'the implementation deviates from the sequential definition ({late_cases} cases: unicast, subscriber after termination with a backlog) and no open known finding covers it',
                      f'# C10: real subject differs from the sequential definition\n{ex[0]}\n# implementation: {ex[1]}\n# model + definition: {ex[2]}\n')
    extra['sequential_cases'] = len(rows)
    extra['cases_in_known_class_unicast_late'] = late_cases

    # ---- scripted schedules (forced with blocking callbacks) for the two concurrency deviations
    sc, sr = run_go(ctx, 'subjsched')
    triples, skipped = lin_cases(sc, sr)
    sched = {}
    for c, r in skipped:
        ctx.notes.append(f'scripted schedule not forced: {c} -> {r}')
        if 'schedule-impossible' not in r:
            ctx.violation('a scripted schedule could not be run (timeout / not reproduced is never a pass)', f'# C10 scripted schedule\n{c}\n# implementation: {r}\n', no_input=True)
    for (c, r, lc), v in lin_verdicts(ctx, 'subjsched', triples):
        ctx.evaluations += 1
        scen = re.search(r'scen=(\S+)', c).group(1)
        sched.setdefault(scen, []).append(v)
        want = {'uu': ('uu', KF_UU), 'uuasync': ('uu', KF_UU), 'lost': ('micro', KF_LOST), 'midunsub': ('ok', None)}[scen]
        if v == 'ok' and scen == 'midunsub':
            ctx.traces_validated += 1     # a Subscribe during an in-flight Unsubscribe: either order of the two calls explains the history
        elif v == 'ok':
            ctx.notes.append(f'scripted schedule {scen} is now linearizable: {c}')
        elif v == want[0] and want[1] in reproduced:
            ctx.traces_validated += 1
        else:
            ctx.violation(f'scripted schedule {scen}: history not linearizable (verdict {v}) and not covered by an open known finding',
                          f'# C10: recorded history of the real subject; the model finds no linearization\n{lc}\n# from: {c}\n# implementation: {r}\n')
    extra['scripted_schedules'] = sched

    # ---- concurrent histories (search / validation; the theorem is subjects_linearizable)
    cc, cr = run_go(ctx, 'subjconc')
    triples, skipped = lin_cases(cc, cr)
    for c, r in skipped:
        ctx.violation('a concurrent run did not finish (never a pass)', f'# C10 concurrent run\n{c}\n# implementation: {r}\n', no_input=True)
    counts = {}
    overl = 0
    worst = {}
    for (c, r, lc), v in lin_verdicts(ctx, 'subjconc', triples):
        ctx.evaluations += 1
        counts[v] = counts.get(v, 0) + 1
        ops = [tuple(map(int, t.split(':')[2:4])) for t in R.parse_res(r)['hist'].split(',')]
        if any(a[0] < b[1] and b[0] < a[1] for i, a in enumerate(ops) for b in ops[i + 1:]):
            overl += 1
            ctx.distinct.add(hash(lc) & 0xffffffffffff)
        if v == 'ok':
            ctx.traces_validated += 1
        elif v == 'uu' and KF_UU in reproduced and 'op=unicast' not in c:
            pass
        elif v == 'micro' and KF_LOST in reproduced:
            pass
        else:
            if v not in worst or len(lc) < len(worst[v][2]):
                worst[v] = (c, r, lc)
    for v, (c, r, lc) in worst.items():
        ctx.violation(f'concurrent history not linearizable against the sequential model (verdict {v}; {counts[v]} histories)',
                      f'# C10: recorded concurrent history of the real subject; brute-force search over the executable model finds no linearization\n{lc}\n# from: {c}\n# implementation: {r}\n')
    extra['concurrent_histories'] = dict(total=len(triples), with_overlapping_calls=overl, verdicts=counts,
                                         label='search/validation (brute-force linearizability check of recorded histories); the proof is C10.subjects_linearizable')
    return dict(
        search=gen['search'],
        rule=gen['rule_part'] + '; sequential: corpus + all sensible sequences of length <= 5 (quick) / <= 6 (thorough) over {N1,N2,E1,C,S0,S1,U0,U1} + seeded longer sequences with 3 subscribers, '
             'x {publish, behavior(9), replay 1/2/unlimited, async, unicast 1/2/unlimited} (thorough adds sizes 0 and 3); compared after every step: per-subscriber traces with contexts, drop-hook sequence, '
             'CountObservers/HasObserver/IsClosed/HasThrown/IsCompleted; oracle: Grammar of every subscriber trace; definition fields dev/pin/reg/late recomputed per case. '
             'concurrent: seeded 2-4 goroutine histories (<= 10 operations) per kind and buffer size, call/return stamps, verdict ok|uu|micro|none from the Lean driver; '
             'non-trivial = sequence subscribes, publishes and delivers something / history has overlapping calls',
        assumptions=[
            'the translator go/extract/subjgen.go is faithful on the statement forms it accepts; its output is checked against the hand-written step functions by the kernel (RoProps/C10gen)',
            'subscriber identities are fresh recording observers subscribed at most once; subscriber callbacks do not call back into the subject (they run inside s.mu)',
            'the linearizability theorem is conditional on atomic steps: the premise is established for Subscribe/Next/Error/Complete of publish, behavior, replay, async by the regenerated lock skeletons (subjects_wellLocked); '
            'Unsubscribe and unicast deliveries are outside it (witness theorems, scripted schedules, known findings)',
            'sync.Map.Range visits every registered subscriber once in some order; the model fixes insertion order and no compared field depends on it',
            'concurrent histories are search/validation only (scheduler-dependent coverage)'],
        extra=extra)

import json, os, re, subprocess
from concurrent.futures import ThreadPoolExecutor
import runner as R
from props import *

NEEDS_RACE = True

# C02b: the constructor table (which operator hands a locking subscriber to its sources) is the premise of the named ordering
# `sameSequentialSource` for every single-producer operator that sits BELOW a multi-source one: its per-subscription state is
# touched by one goroutine at a time only because the operator above serialises its sources
LEAN_MODULES = ['C13', 'C02b']

# harness generator kinds whose cases are run, one scenario per child process, in the binary built
# with -race. Other slices append their own kinds here (their scenarios must create every goroutine
# inside the scenario function and keep no plain shared state of their own).
RACE_KINDS = ['race']

MANIFEST = dict(
    text="Proved in Lean (RoProofs.Lockset, RoProps.C13): in an abstract machine with any number of threads and any schedule, where accesses are atomic / under locks / plain, locks are acquired only "
         "when free and an `under L` access is entered only while holding L (invariant: every lock has at most one holder and a thread at an `under L` access holds L; induction over the schedule), "
         "if every conflicting pair of accesses that is not ordered by a NAMED structural rule (initBeforePublication, subscribeBodyBeforeTeardown, sameSequentialSource, "
         "awaitedSourceBeforeContinuation - hypotheses of the theorem, listed in the trusted base) is (both atomic) or (shares a lock), no reachable state has two different threads simultaneously at "
         "conflicting accesses that are not both atomic (no_data_race). The per-pair predicate is a decidable function evaluated by the kernel (`decide`) on the Locksets table that go/extract/locksets.go "
         "regenerates from the source on every run: one row per access to a field of the kernel structs (subscriber, subscription, observer, the five subjects, connectable observable, xsync, xatomic) and to "
         "every captured variable of an operator that is written after its declaration and reachable from two emission contexts - location, read/write, function, emission context, lexically computed "
         "protection (table_ok, table_race_free_partial: no data race among the recorded accesses of the locations that are not listed). The race-detector runs (harness kind `race`, ~30 concurrent "
         "scenarios, binary built with -race) do NOT prove anything: they validate the table (every report with a samber/ro frame must fall on rows of a location the table already rejects) and search "
         "for a failing input; the Lean driver only echoes this kind. Known findings (each reproduced under -race): connectableObservableImpl.subject / .subscription outside s.mu; ObserveOn/SubscribeOn (detachOn) and ToChannel teardown closing the hand-off channel "
         "under a sending callback. Found by this check, confirmed under -race and repaired in the repository since (no longer excused): Share's sourceSubscription read after Unlock, BufferWithCount.buffer and "
         "GroupBy.groups reset by the teardown, MergeMapI's shared index, OnErrorResumeNextWith's rewritten slice."
         ' Premise C02b (constructor table) among the modules; scenarios multiArity (every PipeN arity under concurrent subscriptions) and promPipe (two goroutines subscribing the same instrumented pipeline).'
         ' Scenario promBuild: several goroutines each build and run an instrumented pipeline from one CollectorConfig value with a non-nil ConstLabels map.',
    technique="Lean 4 lockset theorem (invariant by induction over schedules) + kernel-decided per-pair predicate over the access table regenerated from source by a lexical lock-region / emission-context analysis + race-detector runs validating the table",
    ref='5/C13')


# ---------------------------------------------------------------- the table, Python view
# Mirrors lean/RoModel/LocksetPreds.lean; used only to NAME failing pairs and to match race reports
# to rows. It decides nothing: the verdict on the table is the Lean `decide`.

KNOWN_RACY = ["connectableObservableImpl.subject", "connectableObservableImpl.subscription", "detachOn.ch", "ToChannel.ch"]
# repaired in the repository meanwhile and no longer excused (known_findings.jsonl, `fixed:` lines): MergeMapIWithContext.i (11bf135),
# OnErrorResumeNextWith.finally (fd0e106), ShareWithConfig.sourceSubscription (a510ca9), BufferWithCount.buffer (40f71f8), GroupByIWithContext.groups (32b7a93)


def locksets():
    path = os.path.join(R.LEAN, 'RoGen', 'locksets.json')
    return json.load(open(path)) if os.path.exists(path) else {'Locs': []}


def _chain(r):
    return r['Ctx'] in ('body', 'teardown')


def _same_seq(a, b):
    return a['Ctx'] == b['Ctx'] and a['Ctx'] in ('sourceCb', 'goBody', 'timerCb', 'finalizer') and not a['Multi'] and not b['Multi'] and a['Site'] == b['Site']


def _ordered(a, b):
    if a['Prot'] == 'initBeforePublication' or b['Prot'] == 'initBeforePublication':
        return True
    if _chain(a) and _chain(b):
        return True
    if _same_seq(a, b):
        return True
    aw, bw = a['Ctx'] == 'awaitedCb', b['Ctx'] == 'awaitedCb'
    return (aw and (bw or _chain(b))) or (bw and _chain(a))


def _label_ok(a):
    p = a['Prot']
    if p == 'subscribeBodyBeforeTeardown':
        return _chain(a)
    if p == 'sameSequentialSource':
        return _same_seq(a, a)
    if p == 'awaitedSourceBeforeContinuation':
        return a['Ctx'] == 'awaitedCb'
    return p != 'unknown'


def pair_ok(a, b):
    if not (a['Write'] or b['Write']):
        return True
    if _ordered(a, b):
        return True
    if a['Prot'] == 'atomic' and b['Prot'] == 'atomic':
        return True
    return a['Prot'] == 'under' and b['Prot'] == 'under' and bool(set(a['LockIDs'] or []) & set(b['LockIDs'] or []))


def fmt_row(r):
    return f"{r['Line']} {'write' if r['Write'] else 'read'} in {r['Fn']} ctx={r['Ctx']}{('/' + str(r['Site'])) if r['Site'] else ''}{'*' if r['Multi'] else ''} prot={r['Prot']}{(' ' + ','.join(r['Locks'])) if r.get('Locks') else ''}"


def failing_locs(tbl):
    """{location name: [(row, row) failing pairs]} plus rows with a bad label"""
    out = {}
    for l in tbl['Locs']:
        rs = l['Rows']
        bad = [(a, a) for a in rs if not _label_ok(a)]
        for i, a in enumerate(rs):
            for b in rs[i:]:
                if not pair_ok(a, b):
                    bad.append((a, b))
        if bad:
            out[l['Name']] = (l, bad)
    return out


# ---------------------------------------------------------------- race-detector runs

def parse_reports(text, repo):
    """race reports of one log: [(sites, block)] with sites = the first frame inside the repository
    under check of each of the two access stacks, as 'file.go:line' relative to the repository"""
    out = []
    for block in text.split('=================='):
        if 'WARNING: DATA RACE' not in block:
            continue
        sites = []
        cur = None
        for line in block.splitlines():
            if re.match(r'^(Previous )?(read|write|atomic read|atomic write)? ?(Read|Write|Atomic)?.* at 0x[0-9a-f]+ by ', line, flags=re.I):
                cur = len(sites)
                sites.append(None)
                continue
            if line.startswith('Goroutine ') or not line.strip():
                cur = None if line.startswith('Goroutine ') else cur
                continue
            m = re.match(r'^\s+(/\S+\.go):(\d+)', line)
            if m and cur is not None and sites[cur] is None and m.group(1).startswith(repo.rstrip('/') + '/'):
                sites[cur] = os.path.relpath(m.group(1), repo) + ':' + m.group(2)
        out.append((tuple(s for s in sites[:2]), block.strip()))
    return out


def parse_crash(text, repo):
    """fatal error / unrecovered panic of the child: first repository frame of the crashing goroutine"""
    m = re.search(r'^(fatal error: .*|panic: .*)$', text, flags=re.M)
    if not m:
        return None
    head = m.group(1)
    tail = text[m.end():]
    first = tail.split('\n\n')[1] if tail.startswith('\n\n') and len(tail.split('\n\n')) > 1 else tail
    sites = []
    for mm in re.finditer(r'^\s+(/\S+\.go):(\d+)', first, flags=re.M):
        if mm.group(1).startswith(repo.rstrip('/') + '/'):
            sites.append(os.path.relpath(mm.group(1), repo) + ':' + mm.group(2))
    return head, sites[:1], (head + '\n' + first)[:6000]


def run_scenarios(ctx, tier=None):
    """every case of every RACE_KINDS generator in a child process of its own (a confirmed race can
    corrupt a sync.Map and kill the process). Returns [dict(case, scenario, res, reports, crash, rc)]"""
    exe = os.path.join(R.GO, 'bin', 'harness-race')
    tier = tier or ctx.tier
    cases = []
    for kind in RACE_KINDS:
        rc, o, e = R.sh([exe, kind, '-tier', tier, '-seed', str(ctx.seed), '-list'], cwd=ctx.work, env=R.GOENV, timeout=600)
        for line in o.splitlines():
            if line.startswith('case '):
                cases.append(line.strip())
    return run_case_lines(ctx, cases)


def run_case_lines(ctx, cases):
    exe = os.path.join(R.GO, 'bin', 'harness-race')

    def one(ic):
        i, case = ic
        cp = os.path.join(ctx.work, f'race.{i}.cases')
        gp = os.path.join(ctx.work, f'race.{i}.go')
        lp = os.path.join(ctx.work, f'race.{i}.log')
        open(cp, 'w').write(case + '\n')
        for fn in os.listdir(ctx.work):
            if fn.startswith(f'race.{i}.log'):
                os.remove(os.path.join(ctx.work, fn))
        env = dict(R.GOENV, GORACE=f'halt_on_error=0 atexit_sleep_ms=0 history_size=3 log_path={lp}')
        try:
            p = subprocess.run([exe, 'replay', '-cases', cp, '-res', gp], cwd=ctx.work, env=env, capture_output=True, text=True, timeout=300)
            rc, err = p.returncode, p.stdout + p.stderr
        except subprocess.TimeoutExpired:
            rc, err = -9, 'child process timed out'
        log = ''
        for fn in sorted(os.listdir(ctx.work)):
            if fn.startswith(f'race.{i}.log'):
                log += open(os.path.join(ctx.work, fn), errors='replace').read()
        res = open(gp).read().strip() if os.path.exists(gp) else ''
        sc = re.search(r'\bsc=(\S+)', case)
        d = dict(case=case, scenario=sc.group(1) if sc else '?', res=res, rc=rc, reports=parse_reports(log + '\n' + err, R.REPO), crash=None, stats=None)
        m = re.search(r'^race-scenario \S+ rounds=(\d+) completed=(\d+) panics=(\d+) first=(.*)$', err, flags=re.M)
        if m:
            d['stats'] = dict(rounds=int(m.group(1)), completed=int(m.group(2)), panics=int(m.group(3)), first=m.group(4))
        if 'harness-timeout' in res:
            d['hang'] = err[err.find('a round did not come back'):][:6000]
        if rc not in (0, 66):
            d['crash'] = parse_crash(err, R.REPO) or ('child exited with ' + str(rc), [], err[-3000:])
        return d
    with ThreadPoolExecutor(max_workers=min(R.NCPU, 8)) as ex:
        return list(ex.map(one, enumerate(cases)))


def locs_of_sites(tbl, sites):
    """locations of the table that have rows on both access sites. A site matches a row on its line,
    or an atomic row of the function that starts on that line (the race detector attributes inlined
    sync/atomic wrappers to the first line of the enclosing function)."""
    out = []
    want = [s for s in sites if s]
    if not want:
        return out
    for l in tbl['Locs']:
        d = os.path.dirname(l['File'])
        def hit(s_):
            f, ln = s_.rsplit(':', 1)
            if os.path.dirname(f) != d:
                return False
            return any(str(r['Line']) == ln or (r['Prot'] == 'atomic' and str(r.get('FnLine')) == ln) for r in l['Rows'])
        if all(hit(s_) for s_ in want):
            out.append(l['Name'])
    return out


def init_rows_at(tbl, sites):
    """is one of the two access sites a construction row (composite literal of the struct, or a write
    labelled initBeforePublication) of some location of that file"""
    want = {s for s in sites if s}
    for c in tbl.get('Ctors') or []:
        for s_ in want:
            f, ln = s_.rsplit(':', 1)
            if f == c['File'] and c['Line'] <= int(ln) <= c['End']:
                return True
    for l in tbl['Locs']:
        for r in l['Rows']:
            if f"{l['File']}:{r['Line']}" in want and (r['Ctx'] == 'ctor' or r['Prot'] == 'initBeforePublication'):
                return True
    return False


def check(ctx):
    tbl = locksets()
    failing = failing_locs(tbl)
    nrows = sum(len(l['Rows']) for l in tbl['Locs'])
    ctx.notes.append(f"Locksets table: {len(tbl['Locs'])} locations, {nrows} access rows, {sum(len(l['Rows']) ** 2 for l in tbl['Locs'])} pairs decided by the kernel; "
                     f"{tbl.get('ImmutableCaptured', 0)} captured variables never written after their declaration (immutable after construction, not listed); "
                     f"failing locations: {sorted(failing)}")
    results = run_scenarios(ctx)
    # Lean side: the driver echoes the kind (res <id> ok)
    if results:
        cp = os.path.join(ctx.work, 'race.driver.cases')
        lp = os.path.join(ctx.work, 'race.driver.lean')
        open(cp, 'w').write('\n'.join(d['case'] for d in results) + '\n')
        R.run_driver(cp, lp)
        lean = open(lp).read().splitlines() if os.path.exists(lp) else []
    reproduced = {}
    panicked = []
    seen_global = set()
    consequences = {}
    timeouts = []
    unknown = 0
    for i, d in enumerate(results):
        ctx.evaluations += d['stats']['completed'] if d['stats'] else 0
        if d['stats'] and d['stats']['panics']:
            panicked.append(f"{d['scenario']}: {d['stats']['panics']} round(s) ended by a panic of the library, first: {d['stats']['first']}")
        ctx.distinct.add(d['scenario'])
        echo = lean[i] if results and i < len(lean) else ''
        if d['crash'] is None and d['res'].split()[2:] == ['ok'] and echo.split()[2:] == ['ok']:
            ctx.traces_validated += 1
        elif d['crash'] is None and 'harness-timeout' in d['res']:
            timeouts.append(d['scenario'])
            open(os.path.join(ctx.work, f"hang.{d['scenario']}.txt"), 'w').write(d.get('hang', ''))
        items = [(s, b) for s, b in d['reports']]
        if d['crash'] is not None:
            head, csites, ctext = d['crash']
            items.append((tuple(csites), 'CHILD PROCESS DIED: ' + ctext))
        seen_unknown = set()
        # first pass: reports that fall on rows of a location the table already rejects
        rest, here, here_rejected = [], set(), set()
        for sites, block in items:
            cands = locs_of_sites(tbl, sites)
            known = [c for c in cands if c in KNOWN_RACY and c in failing]
            if known:
                for c in known:
                    reproduced.setdefault(c, []).append((d['scenario'], sites))
                    here.add(c)
            else:
                rest.append((sites, block, cands))
                here_rejected.update(c for c in cands if c in failing)
        for sites, block, cands in rest:
            # construction racing with use: an object (struct built by its constructor, or a value built
            # by the scenario) reached another goroutine through an unsynchronised reference. When this
            # child process also showed the race on a listed location, that location is the reference.
            if here and (not all(sites) or init_rows_at(tbl, sites)):
                consequences.setdefault('+'.join(sorted(here)), []).append((d['scenario'], sites))
                continue
            # the same, when the unsynchronised reference is a location the table rejects and that is
            # not listed: that location is reported (below and by the table violation); its consequences are not
            if here_rejected and not any(c in failing for c in cands) and (not all(sites) or init_rows_at(tbl, sites)):
                consequences.setdefault('+'.join(sorted(here_rejected)), []).append((d['scenario'], sites))
                continue
            if not any(sites):
                key = ('harness', d['scenario'])
                if key in seen_unknown:
                    continue
                seen_unknown.add(key)
                ctx.violation(f"C13: report without a frame of the repository under check in scenario {d['scenario']} (a race inside the harness, or a crash)",
                              f"# harness-level report (no samber/ro frame on the access stacks)\n{d['case']}\n# reproduce: GORACE=halt_on_error=0 go/bin/harness-race replay -cases <this file> -res /dev/null\n\n{block}\n", no_input=True)
                continue
            key = tuple(sorted(cands)) or tuple(sorted(s or '-' for s in sites))
            unknown += 1
            if key in seen_global or len(seen_global) >= 8:
                continue
            seen_global.add(key)
            rejected = [c for c in cands if c in failing]
            if rejected:
                where = f"rows of {rejected}, which the regenerated table rejects as well (see the table violation below)"
            elif cands:
                where = f"rows of {cands}, which the table accepts: the lexical analysis misses a concurrency or a lock is not what it seems"
            else:
                where = "no row of the Locksets table (a location the extractor does not cover)"
            ctx.violation(f"C13: data race reported by the race detector in scenario {d['scenario']} at {' / '.join(s or '?' for s in sites)}: {where}",
                          f"# data race on the real code, scenario {d['scenario']}, access sites {sites}\n{d['case']}\n"
                          f"# reproduce: GORACE=halt_on_error=0 go/bin/harness-race replay -cases <this file> -res /dev/null   (or ./check C13 --replay <this file>)\n\n{block}\n")
    if panicked:
        ctx.notes.append('rounds ended by a panic (C06/C07 territory; the race verdict of the rounds that ran stands): ' + '; '.join(panicked))
    if timeouts:
        ctx.notes.append('harness-timeout (reported, neither a pass nor a violation): ' + ', '.join(timeouts))
    # known findings: the table still rejects the location (re-derived on every run); reproduction is reported alongside
    kf = {k.get('loc'): k for k in getattr(ctx, 'known_static', [])}
    for name in KNOWN_RACY:
        if name in failing:
            k = kf.get(name, {})
            l, bad = failing[name]
            a, b = bad[0]
            ctx.known.append(f"loc={name}: {k.get('what', 'conflicting accesses without common protection')} [{l['File']}:{a['Line']} vs :{b['Line']}]")
        else:
            ctx.notes.append(f'known finding {name}: the regenerated table no longer rejects this location')
    ctx.race_reproduced = reproduced
    ctx.c13_failing = failing
    # a location the table rejects that is not listed, when the Lean build still passed (cannot happen unless the mirror drifts)
    if not ctx.lake_failed:
        for name in failing:
            if name not in KNOWN_RACY:
                ctx.violation(f'C13: the Python mirror rejects {name} but RoProps.C13.table_ok checked: mirror and LocksetPreds.lean disagree', name + '\n', no_input=True)
    return dict(
        rule=f'{len(results)} concurrent scenarios (subscription, safe subscriber/observable, 5 subjects, connectable, Share, teardown vs source callback, multi-source operators with goroutine-driven sources, '
             'time-driven and hand-off operators), each in its own -race child process for a seeded number of rounds; evaluations = rounds; every race report is matched to rows of the regenerated table',
        assumptions=[
            'structural orderings assumed by the theorem (named hypotheses): initBeforePublication (a literal that mentions a variable is created after the preceding write in the same function; a struct is not shared before its constructor returns), '
            'subscribeBodyBeforeTeardown (observable.go:310 registers the teardown after subscribe returned; a subscription runs it once), sameSequentialSource (one subscription delivers its callbacks one at a time), '
            'awaitedSourceBeforeContinuation (Subscription.Wait returns after the terminal callback of that subscription)',
            'go/extract/locksets.go: lexical lock regions, emission contexts, helper parameter binding; an access through an alias it does not follow is emitted as unknown; receives and hand-over of channel values are not accesses',
            'the race-detector runs only validate the table and search for failing inputs',
        ],
        extra={'race_runs': {'scenarios': len(results), 'reports_on_known_locations': {k: len(v) for k, v in reproduced.items()}, 'consequences_of_racy_publication': {k: len(v) for k, v in consequences.items()}, 'unknown_reports': unknown, 'timeouts': timeouts},
               'locksets': {'locations': len(tbl['Locs']), 'rows': nrows}},
        search=combine_search(search, ctor_search))


def ctor_search(ctx, out):
    """RoProps/C02b no longer decides the regenerated constructor table: a multi-source operator no longer serialises its sources, so the
    state of the single-producer operators below it is touched from several goroutines. A race report of this run is the failing input."""
    rows = bad_rows('C02')
    if not rows:
        return False
    names = ', '.join(sorted({n for n, _ in rows}))
    head = ('proof obligation over the regenerated table RoGen.Catalogue no longer holds (RoProps/C02b, premise of the ordering sameSequentialSource below a multi-source operator): '
            + '; '.join(f'{n}: {why}' for n, why in rows) + '\n')
    hit = [v for v in ctx.violations if 'data race' in v[0] or 'race detector' in v[0]]
    ctx.violation(f'C13: {names} no longer hands a locking subscriber to its sources: the state of the operators below it is shared between goroutines' +
                  (' (race reports of this run: see the other violations)' if hit else ''), head, no_input=not hit)
    return True


def search(ctx, out):
    """RoProps.C13 no longer builds: name the failing pairs of the regenerated table; a race report on
    the same location (found by check() above) is the concrete failing input"""
    failing = getattr(ctx, 'c13_failing', None) or failing_locs(locksets())
    new = {n: v for n, v in failing.items() if n not in KNOWN_RACY}
    if not new:
        return False
    items = sorted(new.items())
    if len(items) > 8:
        rest = [n for n, _ in items[8:]]
        items = items[:8]
        ctx.notes.append('further locations rejected by the per-pair predicate: ' + ', '.join(rest))
    for name, (l, bad) in items:
        txt = f'proof obligation RoProps.C13.table_ok no longer holds: location {name} ({l["File"]}) has conflicting accesses that can run concurrently and are neither both atomic nor under a common lock\n'
        for a, b in bad[:12]:
            txt += f'  {l["File"]}:{fmt_row(a)}\n     vs :{fmt_row(b)}\n'
        hit = [v for v in ctx.violations if name in v[0]]
        ctx.violation(f'C13: regenerated Locksets rows of {name} violate the per-pair predicate ({len(bad)} pairs, first: line {bad[0][0]["Line"]} vs {bad[0][1]["Line"]})', txt, no_input=not hit)
    return True


def replay(ctx, path):
    """re-run the scenario case lines of a replay file under the race detector"""
    p = path if os.path.isabs(path) else os.path.join(R.VERIF, path)
    lines = [l.strip() for l in open(p) if l.startswith('case ')]
    if not lines:
        print(open(p).read())
        print('(no case line: this replay file names the table rows / theorem that no longer check)')
        return 1
    ok, out = R.build_go(race=True)
    if not ok:
        print(out[-3000:])
        return 2
    bad = 0
    for d in run_case_lines(ctx, lines):
        print(d['case'])
        print('  result:', d['res'] or ('child exited with %s' % d['rc']))
        for sites, block in d['reports']:
            bad += 1
            print('  DATA RACE at', sites)
        if d['crash']:
            bad += 1
            print('  ' + d['crash'][0], d['crash'][1])
    print('differs' if bad else 'agrees')
    return 1 if bad else 0

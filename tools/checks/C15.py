import re
import runner as R
from props import *
import C15_gen

LEAN_MODULES = ['C15'] + C15_gen.LEAN_MODULES

MANIFEST = dict(
    text="The subscribe functions of RetryWithConfig, OnErrorResumeNextWith, Catch, DoWhileIWithContext, WhileIWithContext and RepeatWith are re-translated from the Go source on every run "
         "(go/extract/loopgen.go -> lean/RoGen/LoopGen.lean: statement-by-statement loop programs; meaning: RoModel/ResubGen.lean) and proved, for every configuration, cancellation point, cut and outcome list, "
         "to compute exactly the Result of the hand-written loops below (RoProps/C15gen.lean: retry_gen, resume_gen, catch_gen, repeat_gen, while_gen, doWhile_gen; the Conforms theorems restated for the regenerated text; "
         "pinned tables: parameter guards, which observable each attempt subscribes and that it is waited for). "
         "Proved in Lean (RoProps/C15.lean) over the executable model of the Go loops (RoModel/Resub.lean), for every list of attempt outcomes, every "
         "configuration (MaxRetries, Delay, ResetOnSuccess; repeat count; truth sequence of the condition; number of fallbacks / sources), every cancellation "
         "point of the subscription context and every point at which the downstream goes away: the subscribe/teardown log is s1 t1 s2 t2 ... (never two attempts "
         "alive), the number of attempts is the closed form `firstStop` (characterised as the unique least stopping attempt), the values of exactly these attempts "
         "are forwarded in order, the terminal is the defined one (Retry: last error when the retries are spent, counted from the last delivered value with "
         "ResetOnSuccess, or the cancellation error; nothing subscribed once cancellation is observed) - Retry/RetryWithConfig, While*, DoWhile*, RepeatWith, "
         "OnErrorResumeNextWith, Concat (since fix 808ed47) in full; Catch as a `_partial` theorem excluding exactly the known deviation class (fallback subscribed while "
         "the first attempt is alive, log s1 s2 t2 t1), with a witness theorem replayed on the real code. "
         "Schedules: attempts that end inside Subscribe or after the operator entered Wait(); the remaining window (terminal between teardown registration and Wait(): "
         "Wait() returns while the previous teardown is still running, log s1 s2 t1 ...) is a second known finding, modelled (overlapLog), proved non-sequential and driven on the real code (mode=tdrace). "
         "Tie: kind `resub` - a scripted cold source whose n-th subscription plays the n-th outcome (inside Subscribe, or from a goroutine), with event log, "
         "counters and live gauge; model and real operators run on the same cases, trace + log + attempts + live + condition evaluations must be equal; plus a "
         "model-independent oracle (sequential log, closed-form attempt count, forwarded values, terminal) on the implementation result."
         ' decoy=1: the same operator VALUE applied to a second, counting upstream after the pipeline under test was built - never subscribed, nothing else changes.'
         ' tdslow=1: the teardown of every attempt takes a moment and is logged when it has finished - a loop that wakes up on the terminal callback or on the done flag instead of on the end of the teardown overlaps every time (a disagreement must reproduce twice: the listed Wait-window schedule can appear once under scheduler noise).',
    technique="Lean 4 proof (loop programs regenerated from the Go source = recursive model of each loop = closed-form specification, by induction on the outcome list / condition sequence / count) + differential correspondence",
    ref='5/C15')

ALL_FIELDS = ('trace', 'log', 'attempts', 'live', 'evals', 'prompt', 'decoy', 'again')


def proj_resub(d):
    return (flag(d),) + tuple(d.get(k) for k in ALL_FIELDS)


# ---------------------------------------------------------------- the specification, re-stated for the oracle (mirrors RoModel/Spec/Resub.lean)

def case_fields(line):
    return dict(kv.split('=', 1) for kv in line.split()[2:] if '=' in kv)


def outcomes(srcs):
    """[(values, fails, error code)]"""
    if srcs in ('-', '', None):
        return []
    out = []
    for g in srcs.split(';'):
        ts = [t.split('@')[0] for t in g.split(',')]
        vals = [t[1:] for t in ts[:-1]]
        out.append((vals, ts[-1].startswith('E'), ts[-1][1:]))
    return out


def first_stop(stops, bound):
    n = 0
    for j in range(bound):
        n = j + 1
        if stops(j):
            break
    return n


def spec(f):
    """-> (attempts, values, terminal) the property dictates, or None when the case is not judged"""
    outs = outcomes(f.get('srcs'))
    at = lambda j: outs[j] if j < len(outs) else ([], False, '')
    fails = lambda j: at(j)[1]
    op = f.get('op')
    p = [int(x) for x in f.get('p', '-').split(',')] if f.get('p', '-') != '-' else []
    cut = int(f['cut']) if f.get('cut', '-') != '-' else None
    conds = [] if f.get('cond', '-') == '-' else [ch == 't' for ch in f['cond']]
    lead = 0
    for b in conds:
        if not b:
            break
        lead += 1
    cancelled = False
    if op in ('Retry', 'RetryWithConfig'):
        mx, reset = (0, False) if op == 'Retry' else (p[0], p[2] != 0)

        def stops(j):
            if not fails(j):
                return True
            r = 0
            for o in [at(i) for i in range(j + 1)]:
                r = (0 if reset and o[0] else r) + 1
            return mx != 0 and r > mx
        n = first_stop(stops, len(outs) + 1)
        c = f.get('cancel', '-')
        k = None
        if c == 'pre':
            k = 0
        elif c != '-':
            m = re.match(r'a(\d+)(t|n(\d+))$', c)
            i = int(m.group(1))
            if m.group(2) == 't' or int(m.group(3)) < len(at(i - 1)[0]) + 1:
                k = i
        if k is not None and k < n:
            n, cancelled = k, True
    elif op == 'While':
        n = first_stop(fails, lead)
    elif op == 'DoWhile':
        n = first_stop(fails, lead + 1)
    elif op == 'RepeatWith':
        def stops(j):
            return fails(j) or (cut is not None and sum(len(at(i)[0]) for i in range(j + 1)) >= cut)
        n = first_stop(stops, p[0])
    elif op == 'OnErrorResumeNextWith':
        n = p[0] + 1
    elif op == 'Concat':
        n = first_stop(fails, p[0])
    elif op == 'Catch':
        n = 2 if fails(0) else 1
    else:
        return None
    vals = [v for j in range(n) for v in at(j)[0]]
    term = 'Es100' if cancelled else ('C' if n == 0 or not fails(n - 1) else 'Eu' + at(n - 1)[2])
    if cut is not None:
        term = term if len(vals) < cut else None
        vals = vals[:cut]
    return n, vals, term


def known_class(f):
    """the decidable classes excluded by the `_partial` theorems (Spec.Known.*)"""
    outs = outcomes(f.get('srcs'))
    fails = lambda j: j < len(outs) and outs[j][1]
    kc = set()
    if f.get('mode') == 'tdrace':
        kc.add('waitWindow')
    if f.get('op') == 'Catch' and fails(0):
        kc.add('catchFallback')
    return kc


def oracle_resub(case, gd):
    if flag(gd):
        return f'harness flag {flag(gd)}'
    f = case_fields(case)
    s = spec(f)
    if s is None:
        return None
    n, vals, term = s
    kc = known_class(f)
    log = toks(gd.get('log'))
    got_n = int(gd.get('attempts', '-1'))
    if [e for e in log if e.startswith('s')] != [f's{i}' for i in range(1, got_n + 1)]:
        return 'log: subscriptions are not numbered 1..attempts'
    if 'waitWindow' in kc:
        # the driven schedule of the known finding: s1 s2 t1 s3 t2 ... (each teardown still running at the next subscribe)
        want = [f's{i}' for i in range(1, min(got_n, 1) + 1)]
        for i in range(2, got_n + 1):
            want += [f's{i}', f't{i - 1}']
        want += [f't{got_n}'] if got_n else []
        seq = [x for i in range(1, got_n + 1) for x in (f's{i}', f't{i}')]
        if log != want and log != seq:
            return 'sequence: neither sequential nor the log of the Wait-window schedule (s1 s2 t1 s3 t2 ...)'
    elif 'catchFallback' not in kc:
        seq = [x for i in range(1, got_n + 1) for x in (f's{i}', f't{i}')]
        if log != seq:
            return 'sequence: the subscribe/teardown log is not s1 t1 s2 t2 ... (an attempt started before the previous one was released)'
        if int(gd.get('live', '0')) > 1:
            return 'sequence: two attempts alive at once'
    if got_n != n:
        return f'count: {got_n} attempts, the configuration and the outcomes dictate {n}'
    tr = strip_ctx(gd.get('trace'))
    got_vals = [t[1:] for t in tr if t.startswith('N')]
    got_term = ([t for t in tr if not t.startswith('N')] or [None])[0]
    if not grammar_ok(gd.get('trace')):
        return 'grammar: a notification was delivered after a terminal'
    if got_vals != vals:
        return 'values: the values of the attempts are not forwarded in order'
    if got_term != term:
        return f'terminal: got {got_term}, defined {term}'
    if gd.get('decoy', '0') != '0':
        return 'count: an upstream the operator value was applied to AFTERWARDS got subscribed by this pipeline (the sources of a pipeline are its own)'
    if gd.get('prompt') == '0':
        return 'cancellation: Retry did not stop as soon as the context was cancelled (it waited for the delay)'
    return None


def nontrivial_resub(case, gd):
    return int(gd.get('attempts', '0') or 0) >= 2 or 'N' in (gd.get('trace') or '')


def check(ctx):
    rows = R.run_kind(ctx, 'resub')
    # tdslow=1: the teardown of every attempt takes a moment and is logged when it has finished. Under the driven schedule (the terminal
    # arrives while the operator is in Wait()) the run is sequential; if the scheduler lets the terminal in before the operator has
    # reached Wait() the run shows the listed Wait-window schedule instead (known finding waitWindow) - that happens once in
    # several thousand runs and not again on a re-run, whereas a loop that does not wait for the end of the teardown overlaps every
    # time: a disagreement must reproduce twice
    slow = [r for r in rows if ' tdslow=1' in r[0]]
    rows = [r for r in rows if ' tdslow=1' not in r[0]]
    R.compare(ctx, slow, proj_resub, 'C15 attempts with a slow teardown: the next attempt starts when the previous teardown has returned', nontrivial=nontrivial_resub, recheck=2)
    R.compare(ctx, rows, proj_resub, 'C15 trace, subscribe/teardown log, attempts, live gauge of re-subscribing operators',
              oracle=oracle_resub, nontrivial=nontrivial_resub)
    dist = {}
    for c, g, l in rows:
        f = case_fields(c)
        gd = R.parse_res(g)
        key = f"{f.get('op')}/{f.get('mode')}"
        d = dist.setdefault(key, {'cases': 0, 'attempts': {}, 'cancel': 0, 'cut': 0})
        d['cases'] += 1
        a = gd.get('attempts', '?')
        d['attempts'][a] = d['attempts'].get(a, 0) + 1
        d['cancel'] += f.get('cancel', '-') != '-'
        d['cut'] += f.get('cut', '-') != '-'
    gen = C15_gen.parts(ctx)
    return dict(
        search=gen['search'],
        rule=gen['rule_part'] + ' || kind resub: Retry, RetryWithConfig (MaxRetries 0..3(5), Delay 0/300us, ResetOnSuccess), RepeatWith (count 0..3(5)), While/DoWhile (plain and IWithContext; '
             'every truth sequence of length <= 3(4)), Catch, OnErrorResumeNextWith (0..3(5) fallbacks), Concat (0..3(5) sources) x every list of <= 3 (thorough: 4) attempt '
             'outcomes with <= 2 values ending in completion or error + seeded longer lists (<= 8 attempts, <= 3 values) x {sync, goroutine} attempts (+ the driven Wait-window schedule for lists <= 2) x downstream leaving '
             'after 1..3 values x (a fifth of the synchronous cases; all in thorough) the operator value applied to a second, counting upstream after the pipeline was built (decoy: never subscribed, nothing else changes) x (Retry) context cancelled before subscribing / before each notification of each attempt / in each teardown; compared EQUAL: delivered trace '
             'with contexts, subscribe/teardown event log, number of subscriptions, max attempts alive, condition evaluations; oracle on the implementation alone: '
             'sequential log, closed-form count, forwarded values, terminal, promptness of a cancellation during a 3 s delay; non-trivial = at least two attempts or a delivered value',
        assumptions=['attempts that run on goroutines are scheduled with one P (GOMAXPROCS(1)) so that the run is deterministic (the terminal arrives while the operator is in Wait()); '
                     'the other asynchronous schedule - terminal before the operator reaches Wait() - is driven explicitly by mode=tdrace (known finding: Wait window)'] + gen['assumptions'],
        extra={'distribution': dist})

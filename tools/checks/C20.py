import os, re
import runner as R
from props import *
import C05_gen

# the native limiter is a composition of GroupBy / MergeMap (= MergeAll) / WindowWhen: MergeAll is one of the operators re-translated from
# the Go source on every run and proved to refine the model (RoProps/C05gen) - the premise 'the composition operators are the modelled ones'
LEAN_MODULES = ['C20'] + C05_gen.LEAN_MODULES

MANIFEST = dict(
    text="Premise about the composition operators of the native limiter: MergeAll (behind MergeMap) is re-translated from the Go source on this run and proved to refine the model (RoProps/C05gen). "
         "Proved in Lean for every timeline, quota and tick placement: the native limiter's logical-time execution (GroupBy routing + per-group WindowWhen/Take/MergeAll machine + in-place merge) "
         "equals the composition of the list models of its pieces; per key the output is the first n items of each window in order (run_perKey), a subsequence of the input (no duplication), "
         "keys independent, completion/error propagated; arithmetic corollary: a span of length L meets at most floor(L/w)+2 windows whatever the alignment, so at most n*(floor(L/w)+2) items of a key pass (quota_span). "
         "ulule: for every store oracle the output is the filter of the input by the store's answers, order kept, terminal propagated (ulule_filter, ulule_shape). "
         "Ties: (F) the expression tree of native/operator.go is regenerated and decided equal to the modelled composition; (K, equality) that composition built from the real core operators with a hand-fired boundary, "
         "and the real ulule operator over a deterministic store, equal the model on exhaustive small + seeded timelines; (K, real time) the real native limiter with its Interval is run on seeded timelines and the OBSERVED "
         "timed trace is ACCEPTED by an executable acceptor whose soundness is proved (accepts_sound) - acceptance of observations, not equality with a model."
         ' rate profile=stall (a ~100-window stall followed by a tight producer); per-key order through a GroupBy group whose consumer is still being replayed the backlog (kind=nextret order field).'
         ' The deterministic store records and performs Reset calls (an operator never resets the shared store); op=native-twin: one limiter value, two live streams.',
    technique="Lean 4 proof (induction over timelines; Mealy machine = list composition) + regenerated composition fact + differential correspondence (logical, ulule) + proved acceptor on observed real-time traces",
    ref='5/C20')

ATTEMPTS = 4   # a real-time trace rejected on the quota clause is re-observed: a stalled ticker (late by a window or more) makes real
               # windows shorter than w, which the bound does not allow for; a limiter that is too generous is rejected every time


def _fields(line):
    return dict(kv.split('=', 1) for kv in line.split()[2:] if '=' in kv)


def _strip_obs(case):
    return ' '.join(kv for kv in case.split() if not kv.startswith(('in=', 'obs=', 'term=', 'after=', 'jit=')))


def proj_rate(d):
    return (flag(d), d.get('out'), d.get('ans'))


def check(ctx):
    rows = R.run_kind(ctx, 'rate', shards=min(R.NCPU, 4))
    twin = [r for r in rows if 'op=native-twin' in r[0]]
    rows = [r for r in rows if 'op=native-twin' not in r[0]]
    # one limiter value applied to two sources: the second stream keeps its quota and goes on when the first one goes away
    R.compare(ctx, twin, proj_all, 'C20 one native limiter value applied to two sources: the second stream is not affected when the first goes away', nontrivial=lambda c, gd: True, recheck=1)
    eq = [r for r in rows if 'op=native-rt' not in r[0]]
    rt = [r for r in rows if 'op=native-rt' in r[0]]
    R.compare(ctx, eq, proj_rate, 'C20 logical composition of the native limiter / ulule limiter: delivered items, terminal, store answers',
              nontrivial=lambda c, gd: gd.get('out', '-') not in ('-', 'C'))

    # the carriers of the per-key windows are unicast subjects (GroupBy groups, WindowWhen windows): a value sent while a late
    # consumer is still being replayed the backlog is delivered AFTER the backlog (per-key order) — kind=nextret, order field
    nrows = [r for r in R.run_kind(ctx, 'nextret', shards=2) if 'scen=unicast' in r[0] or 'scen=groupby' in r[0]]
    R.compare(ctx, nrows, lambda d: (flag(d), d.get('order')), 'C20 per-key order through the unicast carriers of the windows (a value sent during the backlog replay does not overtake the backlog)',
              nontrivial=lambda c, gd: True, recheck=1)

    # real time: the Lean acceptor's verdict on what was observed
    pending, hard = [], []
    with_slack = 0
    for c, g, l in rt:
        if l.split()[2:3] == ['accept=t']:
            continue
        why = _fields(l).get('why', '?').split('(')[0]
        if why == 'quota' and _fields(l).get('withslack') == 't':
            # rejected with the bound of the statement, accepted once the bound is given the slack 2*jit that the
            # harness measured on its own ticker during this very run (windows shorter than w by at most jit)
            with_slack += 1
        elif why == 'quota':
            pending.append((c, g, l))
        else:
            hard.append((c, g, l))
    retried = len(pending)
    reasons = {}
    for c, g, l in pending:
        reasons[_fields(l).get('why', '?').split('(')[0]] = reasons.get(_fields(l).get('why', '?').split('(')[0], 0) + 1
    history = {c.split()[1]: [l] for c, g, l in pending}
    last = {c.split()[1]: c for c, g, l in pending}
    for attempt in range(1, ATTEMPTS):
        if not pending:
            break
        res = R.replay_cases(ctx, [_strip_obs(c) for c, g, l in pending])
        observed = open(os.path.join(ctx.work, f'replay{ctx._replay_n}.cases')).read().splitlines()
        nxt = []
        for i, (c, g, l) in enumerate(res):
            cid = c.split()[1]
            oc = observed[i] if i < len(observed) else c
            history[cid].append(l)
            last[cid] = oc
            if 'harness' in g or (l.split()[2:3] != ['accept=t'] and _fields(l).get('withslack') != 't'):
                nxt.append((oc, g, l))
            elif l.split()[2:3] != ['accept=t']:
                with_slack += 1
        pending = nxt
    for c, g, l in rt:
        ctx.evaluations += 1
        ctx.distinct.add(hash(R.case_key(_strip_obs(c))))
        if len(ctx.samples) < 6 and ctx.evaluations % 97 == 1:
            ctx.samples.append({'case': c[:600], 'impl': 'observed trace (in=/obs=/term= in the case line)', 'model': l})
    ctx.traces_validated += len(rt) - len(pending) - len(hard)
    by_why = {}
    for c, g, l in hard:
        history.setdefault(c.split()[1], [l]); last.setdefault(c.split()[1], c)
    for c, g, l in pending + hard:
        by_why.setdefault(_fields(l).get('why', '?').split('(')[0], []).append((c, g, l))
    for why, lst in list(by_why.items())[:4]:
        c, g, l = min(lst, key=lambda t: len(t[0]))
        cid = c.split()[1]
        ctx.violation(f'C20 native limiter in real time: observed trace rejected by the proved acceptor ({why}) in every observation ({len(history.get(cid, []))} of {len(history.get(cid, []))}; {len(lst)} cases)',
                      f'# C20: the real native limiter produced a trace the acceptor rejects (clause: {why}); verdicts of the observations: '
                      f'{[h.split()[2:] for h in history.get(cid, [])]}\n# the case line carries the last observation (in= emitted items k:v:t0:t1, obs= passed items k:v@ts, term=)\n'
                      f'{last.get(cid, c)}\n# model/acceptor: {l}\n# replay (re-observes): ./check C20 --replay <this file>\n')
    return dict(
        search=combine_search(lambda ctx, out: any(not v[2] for v in ctx.violations), C05_gen.search),   # a concrete failing input found by the runs explains a composition row that no longer checks
        rule='kind=rate. native-log: the composition of native/operator.go rebuilt from the real GroupBy/MergeMap/WindowWhen/Map(Take)/MergeAll with a hand-fired boundary, '
             'timelines over {item k0, item k1, tick k0, tick k1} exhaustive to length 4 (quick) / 6 (thorough) x quota {0,1,2} x ending {C,E,none} x {sync,hot}, plus seeded timelines (<=45 events, <=4 keys, quota<=4): output EQUAL to the model. '
             'ulule: real operator over a deterministic history-driven store (limit m, epoch p calls, optional failing call), inputs exhaustive to length 4/6 over 2 keys x m{0,1,2} x p{1,3} x failAt{-,0,2} x ending x {sync,hot} + seeded: output and store answers EQUAL to the model. '
             'native-rt: the real NewRateLimiter (its own Interval), quota 0..3, window 2..5 ms, 1..3 keys, profiles burst/steady/sparse/dense, sync and async source, endings C/E/none; '
             'the observed (key,value,timestamp) trace is evaluated by the Lean acceptor (per-key subsequence, quota bound n*(floor(L/w)+2) on every span, first-window items of every key passed, terminal); '
             f'an observation rejected on the quota clause (stalled ticker) is re-observed up to {ATTEMPTS - 1} more times and reported if rejected every time; any other rejection is reported at once',
        assumptions=['real-time tie = acceptance of observed traces (not equality): a limiter that lets through fewer items than the model is accepted as far as order/quota/terminal are concerned; the "fresh" clause (first-window items of every key pass) is the only lower bound checked in real time',
                     'the quota bound of the statement is sound for windows of length >= w; a ticker served late (process stall, timer granularity) yields real windows shorter than w and can make a correct limiter exceed it. An observation rejected with slack 0 is accepted if the acceptor accepts it with slack 2*jit, jit = the largest deviation from w between deliveries of a ticker the harness runs next to the limiter (accepted_with_measured_slack; acceptor_sound holds for every slack); otherwise it is re-observed (quota_retries)',
                     'time.Ticker fires no earlier than asked (used by the fresh clause)'],
        extra={'realtime_cases': len(rt), 'accepted_with_measured_slack': with_slack, 'quota_retries': retried, 'retry_reasons': reasons, 'rejected_after_retries': len(pending), 'rejected_at_once': len(hard)})

"""C06, concurrent-kernel half (docs/kernel.md): subscriberImpl / subscriptionImpl under concurrent calls; theorems
RoProps/C06.lean (+ RoProps/KernelTie.lean). `parts(ctx)` is called by tools/checks/C06.py; `check`/`MANIFEST` allow
`./check C06_kernel quick` stand-alone."""
import os, sys
import runner as R
from props import *
sys.path.insert(0, os.path.dirname(os.path.dirname(os.path.abspath(__file__))))
import kernel_part as K

LEAN_MODULES = ['C06']

MANIFEST = dict(
    text="Kernel part: proved in Lean for every mode, threads, scripts and schedule: status is monotone; after the return event of any Unsubscribe/Error/Complete "
         "status != 0; from then on a thread between two calls (every later-called Next/Error/Complete) never reaches callback-begin under any continuation and its "
         "IsClosed answers true (kernel_unsubscribe_cuts, kernel_cut_not_armed); Unsubscribe never takes the producer lock; Wait returns only when its finalizer ran and "
         "done holds (kernel_wait_returns_when_done). Tie: program equality (F) + one-thread logs exact + stress with unsubscribers/waiters/producers (K). "
         "Collect and the unicast self-deadlock are separate slices.",
    technique="Lean 4 proof (invariants over an interpreter of extracted programs, induction on the schedule and on its continuation) + regenerated program table + differential/stress harness",
    ref='5/C06')


def parts(ctx):
    return K.kernel_part(ctx, 'C06')


def check(ctx):
    return parts(ctx)

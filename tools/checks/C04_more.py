"""C04, the parts of the catalogue beyond the first 46 machines: remaining single-source operators
(context operators, Cast, Tap*/Do*, DelayEach, TimeInterval/Timestamp, Average, float maps), creation
operators, variants / aliases (regenerated Delegation table) and Pipe (regenerated Pipe table + kind=pipe).

Wiring (see docs/C04-more.md): C04.py should `import C04_more`, set
`LEAN_MODULES = ['C04'] + C04_more.LEAN_MODULES_EXTRA`, call `C04_more.parts(ctx)` at the end of `check`
and return `search=C04_more.search`. This module is also a check of its own (`./check C04_more quick`)
so that the slice can be run and mutation-tested in isolation."""
import os, re
import runner as R
from props import *

LEAN_MODULES_EXTRA = ['C04d']
LEAN_MODULES = ['C04d', 'C09m']

MANIFEST = dict(
    text="(part of C04) Remaining single-source operators, creation operators, variants/aliases and Pipe: machine/generator = list specification proved in Lean "
         "(RoProofs/Ops/MoreSpecs, CreateSpecs; index RoProps/C04d), float functions uninterpreted (stream behaviour proved parametric, values compared with Go's own math calls); "
         "Delegation and Pipe tables regenerated from source and decided equal to the expected ones by the kernel; "
         "differential kinds opsmore, tap, create, pipe.",
    technique="Lean 4 proof + kernel-decided regenerated tables + differential correspondence",
    ref='5/C04')

IDENTITY = {'ContextWithTimeout', 'ContextWithDeadline', 'TapWithContext', 'Do', 'TapOnNext', 'DoOnNext', 'TapOnError', 'DoOnError', 'TapOnComplete',
            'DoOnComplete', 'TapOnSubscribeWithContext', 'DoOnSubscribe', 'DoOnFinalize', 'DelayEach', 'TimeInterval', 'Timestamp', 'ContextMap',
            'ContextWithValue', 'ContextReset'}


def field(case, k):
    m = re.search(r'\b' + k + r'=(\S+)', case)
    return m.group(1) if m else None


def legal_prefix(src):
    """the notifications of a raw script up to and including its first terminal, without markers, rendered as the recorder renders them"""
    out = []
    for t in toks(src):
        body = t.split('@')[0]
        if body[0] == 'N':
            out.append(body)
        elif body[0] == 'E':
            out.append('Es0' if body[1:] == '0' else 'Eu' + body[1:])   # E0 = Error(nil), rendered s0
            break
        else:
            out.append('C')
            break
    return out


def oracle_more(case, gd):
    """direct checks on the implementation result (no model involved)"""
    if flag(gd):
        return f'harness flag {flag(gd)}'
    if not grammar_ok(gd.get('trace')):
        return 'grammar: a notification was delivered after a terminal'
    op, cut = field(case, 'op'), field(case, 'cut')
    if op in IDENTITY and cut in (None, '-'):
        if strip_ctx(gd.get('trace')) != legal_prefix(field(case, 'src')):
            return 'identity: the operator is documented to mirror its source but delivered something else'
    cxs = ctx_of(gd.get('trace'))
    if op == 'ContextWithValue':
        m = field(case, 'p')
        if any(m not in c.split('.') for c in cxs):
            return 'ContextWithValue: a delivered notification does not carry the added value'
        if any('99' not in c.split('.') for c in cxs):
            return 'ContextWithValue: the source was subscribed with a context that does not carry the added value'
    if op == 'ContextReset':
        want = field(case, 'p')
        if any(c != (want if want != '-' else '-') for c in cxs):
            return 'ContextReset: a delivered notification does not carry the new context'
    return None


def oracle_tap(case, gd):
    if flag(gd):
        return f'harness flag {flag(gd)}'
    op, cut = field(case, 'op'), field(case, 'cut')
    if cut not in (None, '-'):
        return None
    lp = legal_prefix(field(case, 'src'))
    if strip_ctx(gd.get('trace')) != lp:
        return 'identity: Tap/Do delivered something else than its source'
    sel = None
    base = op.replace('WithContext', '')
    if base in ('Tap', 'Do'):
        sel = lp
    elif base.endswith('OnNext'):
        sel = [t for t in lp if t[0] == 'N']
    elif base.endswith('OnError'):
        sel = [t for t in lp if t[0] == 'E']
    elif base.endswith('OnComplete'):
        sel = [t for t in lp if t[0] == 'C']
    if sel is not None and toks(gd.get('fx')) != sel:
        return 'side effects: the callbacks were not invoked once per matching notification, in order'
    return None


def oracle_create(case, gd):
    if flag(gd):
        return f'harness flag {flag(gd)}'
    if not grammar_ok(gd.get('trace')):
        return 'grammar: a notification was delivered after a terminal'
    if gd.get('t2') != gd.get('trace'):
        return 'reuse: a second (or concurrent) subscription of the same creation operator delivered a different trace'
    return None


def oracle_pipe(case, gd):
    if flag(gd):
        return f'harness flag {flag(gd)}'
    if gd.get('eq') != '1111':
        return 'pipe: typed PipeN / reflective Pipe / PipeOpN / PipeOp and manual nesting are not observationally identical'
    return None


def run_oracle(ctx, rows, oracle, what, max_report=1):
    """direct oracle on the implementation results, independent of the model (the model comparison is made without an
    oracle: for C04 the model IS the proved specification, so a disagreement is a failing input by itself)"""
    bad = {}
    for c, g, l in rows:
        msg = oracle(c, R.parse_res(g))
        if msg:
            bad.setdefault((field(c, 'op') or '?', msg.split(':')[0]), []).append((c, g, msg))
    for n, ((op, _), lst) in enumerate(sorted(bad.items())):
        if n >= max_report:
            break
        c, g, msg = min(lst, key=lambda t: len(t[0]))
        ctx.violation(f'{what}: {msg} for {op} ({len(lst)} cases)', f'# {what}: {msg}\n{c}\n# implementation: {g}\n')


def parts(ctx):
    rows = R.run_kind(ctx, 'opsmore')
    R.compare(ctx, rows, proj_all, 'C04 remaining single-source operators (trace with contexts, drops, per-call deliveries, release)', nontrivial=nontrivial_op, max_report=2)
    run_oracle(ctx, rows, oracle_more, 'C04 remaining single-source operators')
    rows = R.run_kind(ctx, 'taps')
    R.compare(ctx, rows, proj_all, 'C04 Tap*/Do* family: stream and recorded callback invocations',
              nontrivial=lambda c, gd: gd.get('fx', '-') != '-', max_report=2)
    run_oracle(ctx, rows, oracle_tap, 'C04 Tap*/Do* family')
    rows = R.run_kind(ctx, 'create')
    R.compare(ctx, rows, proj_all, 'C04 creation operators (trace, refused notifications, repeated subscription, callback counts)',
              nontrivial=lambda c, gd: gd.get('trace', '-') != '-', max_report=2)
    run_oracle(ctx, rows, oracle_create, 'C04 creation operators')
    rows = R.run_kind(ctx, 'pipes')
    R.compare(ctx, rows, proj_all, 'C04 Pipe: manual nesting = PipeN = Pipe = PipeOpN = PipeOp = chain of machines',
              nontrivial=lambda c, gd: gd.get('trace', '-') != '-', max_report=1)
    run_oracle(ctx, rows, oracle_pipe, 'C04 Pipe')
    return ('remaining single-source operators x parameters x variants x raw scripts (as kind=op) compared on every field; Tap*/Do* with recorded callbacks; '
            'creation operators x wrappers (Defer, Defer(Iif)) x downstream chains (fixed + random), two sequential + four concurrent subscriptions; '
            'Pipe: n = 1..8 (quick) / 1..25 (thorough) random stages assembled five ways')


# ---------------------------------------------------------------- the same runs seen by C01 / C09 / C12
# (C08 and C14 need nothing: the new single-source operators are in opSpecs, so `ops` / `chains` / `cancel` run them.)

def parts_C01(ctx):
    """C01.py: grammar + refused notifications of creation operators (alone and under chains) and of the five Pipe assemblies"""
    for kind, what in (('create', 'C01 grammar/drops of creation operators'), ('pipes', 'C01 grammar through Pipe/PipeN/PipeOp/PipeOpN')):
        rows = R.run_kind(ctx, kind)
        R.compare(ctx, rows, proj_grammar, what, oracle=oracle_grammar, nontrivial=lambda c, gd: gd.get('trace', '-') != '-')


def _proj_ctx(d):
    return (flag(d), ctx_of(d.get('trace')))


def oracle_ctx_more(case, gd):
    """every delivered context carries the subscription marker and is not nil — except where an operator of the case is
    documented / listed otherwise: ContextReset (replaces the context by definition), Max (known finding: nil on empty),
    DefaultIfEmpty (known finding: Background)"""
    names = set(re.findall(r'(?:^|[=|])([A-Za-z]+)/', field(case, 'down') or '')) | set(re.findall(r'(?:^|[=|])([A-Za-z]+)/', field(case, 'ops') or ''))
    if field(case, 'op'):
        names.add(field(case, 'op'))
    sub = field(case, 'sub')
    subm = sub.split('.')[0] if sub and sub != '-' else None
    for cx in ctx_of(gd.get('trace')):
        if cx == 'nil':
            if 'Max' in names:
                continue
            return 'nil context delivered'
        if subm and subm not in cx.split('.'):
            if names & {'ContextReset', 'DefaultIfEmpty', 'DefaultIfEmptyWithContext'}:
                continue
            return 'subscription marker lost'
    return None


def parts_C09(ctx):
    """C09.py: marker lists of every delivered notification for the context operators, the creation operators and Pipe"""
    for kind, what in (('opsmore', 'C09 context markers: context operators and the other new single-source operators'),
                       ('create', 'C09 context markers: creation operators deliver the subscription context'),
                       ('pipes', 'C09 context markers through Pipe')):
        rows = R.run_kind(ctx, kind)
        R.compare(ctx, rows, _proj_ctx, what, oracle=oracle_ctx_more, nontrivial=lambda c, gd: gd.get('trace', '-') != '-')


def parts_C12(ctx):
    """C12.py: a creation operator subscribed again (sequentially, and four times concurrently) delivers the same trace;
    Start's callback / Defer's factory / Iif's predicate run once per subscription (laziness: never at construction)"""
    rows = R.run_kind(ctx, 'create')
    R.compare(ctx, rows, lambda d: (flag(d), d.get('trace'), d.get('t2'), d.get('calls')), 'C12 re-subscription of creation operators',
              nontrivial=lambda c, gd: gd.get('trace', '-') != '-')
    run_oracle(ctx, rows, oracle_create, 'C12 creation operators')


# ---------------------------------------------------------------- when the table theorems no longer check

def _expected_delegation():
    src = open(os.path.join(R.LEAN, 'RoProps', 'C04d.lean')).read()
    body = src.split('def expectedDelegation', 1)[1].split('\n]\n', 1)[0]
    return {m[0]: m for m in re.findall(r'\("([^"]*)", "([^"]*)", "([^"]*)", "((?:[^"\\]|\\.)*)"\)', body)}


def _generated_delegation():
    src = open(os.path.join(R.LEAN, 'RoGen', 'Delegation.lean')).read()
    return {m[0]: m for m in re.findall(r'\{ name := "([^"]*)", file := "[^"]*", base := "([^"]*)", kind := "([^"]*)", shape := "((?:[^"\\]|\\.)*)"', src)}


def _harness_name(fn):
    """Go function name -> (harness operator name, variant)"""
    for suf, var in (('IWithContext', 'ictx'), ('WithContext', 'ctx'), ('I', 'i')):
        if fn.endswith(suf) and len(fn) > len(suf):
            return fn[:-len(suf)], var
    return fn, 'plain'


def search(ctx, out):
    """RoProps.C04d failed to build: name the rows of the regenerated tables that differ from the expected ones and
    look for a concrete failing input with the harness kinds that exercise them."""
    found = False
    try:
        exp, gen = _expected_delegation(), _generated_delegation()
    except Exception:
        exp, gen = {}, {}
    changed = sorted(n for n in set(exp) | set(gen) if exp.get(n) != gen.get(n))
    if changed:
        lines = [f'{n}: expected {exp.get(n)} regenerated {gen.get(n)}' for n in changed]
        hit = False
        for n in changed:
            hn, _ = _harness_name(n)
            for kind in ('ops', 'taps'):
                rows = R.run_kind(ctx, kind, extra=['-only', n if kind == 'taps' else hn])
                before = len(ctx.violations)
                R.compare(ctx, rows, proj_all, f'C04 variant/alias {n} no longer behaves like its base', max_report=1)
                hit = hit or len(ctx.violations) > before
        if not hit:
            ctx.violation('C04: delegation rows differ from the expected table: ' + ', '.join(changed),
                          'theorem Ro.C04d.delegation_expected (lean/RoProps/C04d.lean) no longer checks\n' + '\n'.join(lines) + '\n', no_input=True)
        found = True
    ptxt = open(os.path.join(R.LEAN, 'RoGen', 'Pipe.lean')).read()
    bad = []
    for m in re.finditer(r'\{ name := "([^"]*)", n := (\d+), via := "([^"]*)", order := \[([^\]]*)\], ok := (\w+) \}', ptxt):
        name, n, via, order, ok = m.group(1), int(m.group(2)), m.group(3), [int(x) for x in m.group(4).split(',') if x.strip()], m.group(5) == 'true'
        if not ok or (n > 0 and order != list(range(1, n + 1))):
            bad.append(f'{name}: order {order} ok={ok}')
    if bad:
        before = len(ctx.violations)
        rows = R.run_kind(ctx, 'pipes', tier='thorough')
        R.compare(ctx, rows, proj_all, 'C04 Pipe: ' + '; '.join(bad), max_report=1)
        if len(ctx.violations) == before:
            ctx.violation('C04: Pipe rows are not [1..n]: ' + '; '.join(bad), 'theorem Ro.C04d.pipe_expected no longer checks\n' + '\n'.join(bad) + '\n', no_input=True)
        found = True
    return found


def check(ctx):
    rule = parts(ctx)
    if os.environ.get('C04_MORE_ALL'):   # exercise the C01/C09/C12 views as well (same kinds, other projections)
        parts_C01(ctx)
        parts_C09(ctx)
        parts_C12(ctx)
    return dict(rule=rule, search=search,
                assumptions=['float functions (Round, Abs, Floor, Ceil, Trunc, the division of Average) are uninterpreted in Lean; the harness compares each result with Go\'s own math function on the same item',
                             'TimeInterval / Timestamp: only the shape is modelled (value preserved, one output per input, non-negative time field)'])

import runner as R
from props import *
import C04_more
import os, sys
sys.path.insert(0, os.path.dirname(os.path.dirname(os.path.abspath(__file__))))
import kernel_part

# C02b: the table of constructors (which operator hands which kind of subscriber upstream) regenerated from the source is the
# premise of the concurrent clause ("observables built with the default/safe constructors")
LEAN_MODULES = ['C01'] + kernel_part.LEAN_MODULES + ['C02b', 'C10', 'C07']

MANIFEST = dict(
    text="Proved in Lean for every raw producer script (legal or not): the subscriber/observer gate delivers a Grammar-conforming prefix and delivered++dropped = raw "
         "(kernel_grammar, kernel_partition); for every operator machine and chain, both source modes, the final trace obeys the grammar (operator_grammar, chain_grammar). "
         "(b) concurrent kernel: for safe and eventually-safe subscribers, any number of producer goroutines and any schedule, the callback-begin subsequence obeys the grammar "
         "(kernel_grammar_concurrent; unsafe mode under a single producer), over the subscriber/subscription programs that are regenerated from subscriber.go / subscription.go / observer.go and decided equal to the expected ones on every run. "
         "(c) subjects: every subscriber's trace obeys the grammar (C10.subscriber_grammar). "
         "Tie: every catalogue operator's machine is run against the real operator on exhaustive/seeded raw scripts incl. illegal suffixes (kinds + drops compared), plus a direct Grammar oracle on the implementation trace."
         ' Pipelines under goroutine-driven producers with a racing terminal (the overlap / overlap2 set-ups): no callback of the final observer begins after its terminal callback wherever the regenerated constructor table (RoProps/C02b, premise of the concurrent clause) says a locking subscriber sits in front of it.'
         ' One observer attached through Subscribe to two sources (RoModel/ObsShared.lean; shared_observer_grammar / shared_observer_partition: the merged callback trace is grammatical for every interleaving, the rest is dropped; kind=sharedobs) and the partial observers OnNext / OnError / OnComplete / NoopObserver / NewObserver (RoModel/ObsPartial.lean; partial_observer_sees: the one callback sees the notifications of its kind in the gated script, the terminal is consumed, the rest goes to the dropped hook; kind=nilobs ctor=).'
         " Subscribers of a subject after illegal late notifications and late subscriptions (the kind=subject runs read through C01's projection: kinds delivered, notifications dropped; C10 among the modules); a hand-written observer subscribed directly to an observable whose subscribe function emits and then panics, also after its own terminal (kind=fault op=RawDirect; fault semantics of C07).",
    technique="Lean 4 proof (induction over raw scripts, gate lemmas) + differential correspondence of the executable model against the implementation",
    ref='5/C01')


def after_part(ctx):
    """(b) pipelines under goroutine-driven producers with a terminal racing the values (the overlap set-ups of C02, read
    for C01's clause): where the regenerated rows say the final observer sits behind a locking subscriber, no callback may
    begin after a terminal callback has begun. Runs behind an operator the rows mark non-locking are kept: they are the
    failing input when the table decision (RoProps/C02b) breaks."""
    ctx.c01_after_may = []
    for kind, shards in (('overlap', 4), ('overlap2', 6)):
        for c, g, l in R.run_kind(ctx, kind, shards=shards):
            ctx.evaluations += 1
            gd, ld = R.parse_res(g), R.parse_res(l)
            if flag(gd) or flag(ld):
                continue                      # reported by C02
            try:
                after = int(gd.get('after', '0'))
            except ValueError:
                after = 0
            if after == 0:
                ctx.traces_validated += 1
            elif ld.get('expect') == 'serialized':
                ctx.violation(f'C01: {after} callback(s) of the final observer began after its terminal callback, in a pipeline of safe-constructor operators fed from several goroutines',
                              f'# raw observer with a terminal flag; every input pumped from a goroutine of its own\n{c}\n# implementation: {g}\n# model: {l}\n')
            else:
                ctx.c01_after_may.append((c, g, l))


def table_after_search(ctx, out):
    """RoProps/C02b no longer decides the regenerated constructor table: name the rows and, if a run of this check delivered
    something after the terminal behind one of them, report that run as the failing input"""
    rows = bad_rows('C02')
    if not rows:
        return False
    names = ', '.join(sorted({n for n, _ in rows}))
    head = '# proof obligation over the regenerated table RoGen.Catalogue no longer holds (RoProps/C02b, premise of C01\'s concurrent clause): ' + '; '.join(f'{n}: {why}' for n, why in rows) + '\n'
    hit = [x for x in getattr(ctx, 'c01_after_may', []) if any(n in x[0] for n, _ in rows)] or getattr(ctx, 'c01_after_may', [])
    if hit:
        c, g, l = hit[0]
        ctx.violation(f'C01: the constructor table changed ({names}) and the final observer received a notification after its terminal ({len(hit)} set-ups)',
                      head + f'# concrete run: raw observer, every input of the operator pumped from a goroutine of its own\n{c}\n# implementation: {g}\n# model: {l}\n')
    else:
        ctx.violation(f'C01: regenerated fact rows violate the predicate: {names}', head, no_input=True)
    return True


def check(ctx):
    rows = R.run_kind(ctx, 'ops')
    R.compare(ctx, rows, proj_grammar, 'C01 grammar/drops of every operator over raw scripts', oracle=oracle_grammar, oracle_is_property=True, nontrivial=nontrivial_op)
    rows = R.run_kind(ctx, 'chains')
    R.compare(ctx, rows, proj_grammar, 'C01 grammar/drops through chains', oracle=oracle_grammar, oracle_is_property=True, nontrivial=lambda c, gd: gd.get('trace', '-') != '-')
    C04_more.parts_C01(ctx)
    k = kernel_part.parts(ctx) or {}
    # (c) subjects fed by several goroutines while a terminal races with the values: nothing after the terminal
    for c, g, l in R.run_kind(ctx, 'subjoverlap', shards=4):
        ctx.evaluations += 1
        gd = R.parse_res(g)
        if flag(gd):
            ctx.violation('C01 subject run could not be evaluated', f'{c}\n# implementation: {g}\n', no_input=True)
        elif gd.get('grammar') != 'ok' and R.parse_res(l).get('expect') == 'serialized':
            ctx.violation('C01: a subscriber of a subject received a notification after its terminal', f'{c}\n# implementation: {g}\n# model: {l}\n')
        else:
            ctx.traces_validated += 1
    after_part(ctx)
    # one observer attached to two sources (directly / behind operators): values, at most one terminal, then silence; the rest dropped
    rows = R.run_kind(ctx, 'sharedobs', shards=2)
    R.compare(ctx, rows, proj_all, 'C01 one observer attached through Subscribe to two sources', oracle=oracle_grammar, oracle_is_property=True, nontrivial=lambda c, gd: True, max_report=2)
    # the partial observers (OnNext / OnError / OnComplete / Noop) and NewObserver driven directly with raw scripts: the user's callback
    # sees the notifications of its kind in the gated script, the rest goes to the dropped hook (RoModel/ObsPartial.lean, C01.partial_observer_sees)
    rows = [r for r in R.run_kind(ctx, 'nilobs', shards=2) if ' ctor=' in r[0] and ' faults=- ' in r[0] + ' ']
    R.compare(ctx, rows, proj_all, 'C01 partial observers: what the one callback and the dropped-notification hook saw', oracle=oracle_grammar, oracle_is_property=True,
              nontrivial=lambda c, gd: True, max_report=2)
    # a hand-written observer (no status word of its own) subscribed DIRECTLY to an observable whose subscribe function emits and then
    # panics - also after its own terminal: it sees what the observable's subscriber lets through, i.e. a grammatical trace; the error made
    # from a panic that comes after the terminal is refused (dropped hook), not delivered (fault semantics of RoProps/C07: subscribe_fn_panic)
    rows = R.run_kind(ctx, 'fault', extra=['-only', 'RawDirect'])
    R.compare(ctx, rows, proj_grammar, 'C01 hand-written observer subscribed directly to an observable whose subscribe function panics', oracle=oracle_grammar,
              oracle_is_property=True, nontrivial=lambda c, gd: gd.get('trace', '-') != '-', max_report=2)
    # subjects as producers' ends: every subscriber of a subject - also one that arrives after the subject has terminated and after illegal
    # late notifications (a Complete after an Error, values after a terminal) - sees values, at most one terminal, then silence, and the
    # late notifications go to the dropped hook (step functions and their theorems: RoProps/C10; C01 reads the kinds and the drops)
    def proj_subj(d):
        return (flag(d),) + tuple(tuple(kinds(d.get(k))) for k in ('r0', 'r1', 'r2')) + (d.get('drops'),)

    def oracle_subj(case, gd):
        if flag(gd):
            return f'harness flag {flag(gd)}'
        for k in ('r0', 'r1', 'r2'):
            if not grammar_ok(gd.get(k)):
                return f'grammar: subscriber {k[1]} of the subject was delivered a notification after a terminal'
        return None
    rows = R.run_kind(ctx, 'subject')
    R.compare(ctx, rows, proj_subj, 'C01 subscribers of a subject (late notifications, late subscribers): kinds delivered and notifications dropped',
              oracle=oracle_subj, oracle_is_property=True, nontrivial=lambda c, gd: any(gd.get(k, '-') != '-' for k in ('r0', 'r1', 'r2')), max_report=2)
    return dict(search=combine_search(k.get('search'), table_after_search), assumptions=k.get('assumptions'), extra=k.get('extra'), rule=(k.get('rule', '') + '; ' if k.get('rule') else '') + 'random chains of 2-5 int->int operators (sync/hot, cuts) + ' + 'every catalogue operator x parameters x variants x raw scripts (exhaustive to length 2/3 over {-1,0,2,3}, three endings, '
                     'illegal suffixes N/C/E after the terminal, seeded longer scripts) x {sync, hot} source x external cut; '
                     'compared: kinds of delivered notifications + multiset of dropped notifications; oracle: Grammar on the implementation trace; '
                     'non-trivial = script has a value and something was delivered or dropped')

import runner as R
from props import *
import C04_more
import os, sys
sys.path.insert(0, os.path.dirname(os.path.dirname(os.path.abspath(__file__))))
import kernel_part

LEAN_MODULES = ['C01'] + kernel_part.LEAN_MODULES

MANIFEST = dict(
    text="Proved in Lean for every raw producer script (legal or not): the subscriber/observer gate delivers a Grammar-conforming prefix and delivered++dropped = raw "
         "(kernel_grammar, kernel_partition); for every operator machine and chain, both source modes, the final trace obeys the grammar (operator_grammar, chain_grammar). "
         "(b) concurrent kernel: for safe and eventually-safe subscribers, any number of producer goroutines and any schedule, the callback-begin subsequence obeys the grammar "
         "(kernel_grammar_concurrent; unsafe mode under a single producer), over the subscriber/subscription programs that are regenerated from subscriber.go / subscription.go / observer.go and decided equal to the expected ones on every run. "
         "(c) subjects: every subscriber's trace obeys the grammar (C10.subscriber_grammar). "
         "Tie: every catalogue operator's machine is run against the real operator on exhaustive/seeded raw scripts incl. illegal suffixes (kinds + drops compared), plus a direct Grammar oracle on the implementation trace.",
    technique="Lean 4 proof (induction over raw scripts, gate lemmas) + differential correspondence of the executable model against the implementation",
    ref='5/C01')


def check(ctx):
    rows = R.run_kind(ctx, 'ops')
    R.compare(ctx, rows, proj_grammar, 'C01 grammar/drops of every operator over raw scripts', oracle=oracle_grammar, oracle_is_property=True, nontrivial=nontrivial_op)
    rows = R.run_kind(ctx, 'chains')
    R.compare(ctx, rows, proj_grammar, 'C01 grammar/drops through chains', oracle=oracle_grammar, oracle_is_property=True, nontrivial=lambda c, gd: gd.get('trace', '-') != '-')
    C04_more.parts_C01(ctx)
    k = kernel_part.parts(ctx) or {}
    # (c) subjects fed by several goroutines while a terminal races with the values: nothing after the terminal
    for c, g, l in R.run_kind(ctx, 'subjoverlap', shards=4):
        ctx.evaluations += 1
        gd = R.parse_res(g)
        if flag(gd):
            ctx.violation('C01 subject run could not be evaluated', f'{c}\n# implementation: {g}\n', no_input=True)
        elif gd.get('grammar') != 'ok' and R.parse_res(l).get('expect') == 'serialized':
            ctx.violation('C01: a subscriber of a subject received a notification after its terminal', f'{c}\n# implementation: {g}\n# model: {l}\n')
        else:
            ctx.traces_validated += 1
    return dict(search=k.get('search'), assumptions=k.get('assumptions'), extra=k.get('extra'), rule=(k.get('rule', '') + '; ' if k.get('rule') else '') + 'random chains of 2-5 int->int operators (sync/hot, cuts) + ' + 'every catalogue operator x parameters x variants x raw scripts (exhaustive to length 2/3 over {-1,0,2,3}, three endings, '
                     'illegal suffixes N/C/E after the terminal, seeded longer scripts) x {sync, hot} source x external cut; '
                     'compared: kinds of delivered notifications + multiset of dropped notifications; oracle: Grammar on the implementation trace; '
                     'non-trivial = script has a value and something was delivered or dropped')

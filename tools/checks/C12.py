import runner as R
from props import *
import C04_more

MANIFEST = dict(
    text="Machines have no state outside init, so every subscription of a machine-modelled pipeline is the same run (resubscribe_same, subs_le_one); whether that is the right model of each Go "
         "operator is the regenerated StatePlacement fact (no write from the application/subscription scope to a variable of an outer scope), decided by the Lean kernel on every run "
         "(table_ok, hoisted_state_rows). Tie: for every catalogue operator, one operator VALUE is applied to two cold sources before either is subscribed, the second pipeline is subscribed first, "
         "then the first three times sequentially and four times concurrently; every trace must equal the model's single run; laziness: no source subscribed at construction, one subscription per Subscribe. "
         "Found and repaired: MergeMapIWithContext (index in application scope), OnErrorResumeNextWith (captured slice rewritten)."
         ' Building a pipeline does nothing: the regenerated BuildTime table (go/extract/buildtime.go; RoProps/C12.buildtime_rows) has no clock / randomness read and no mutex, once, channel, subscription, subject, derived context or atomic created outside a subscribe function, except Share* (hot by definition); kind=lateuse builds a pipeline, lets more than its duration parameter pass, and subscribes it twice.'
         ' The BuildTime table also covers the operator constructors of the plugins (hot constructs of the core created per operator value); kind=rate op=native-twin: one native rate-limiter value applied to two live streams, the first then cancelled / unsubscribed.',
    technique="Lean 4 (functional model => resubscription theorems) + kernel-decided StatePlacement table regenerated from source + differential re-subscription/re-application runs",
    ref='5/C12')


def factory_search(ctx, out):
    """C12.factory_state_rows no longer holds: name the rows (diagnosis from the regenerated file)"""
    import os, re
    try:
        txt = open(os.path.join(R.LEAN, 'RoGen', 'Catalogue.lean')).read().split('def factoryStateRows', 1)[1]
    except (OSError, IndexError):
        return False
    rows = re.findall(r'\("([^"]+)", "([^"]+)", "([^"]*)", (\d+)\)', txt)
    if not rows:
        return False
    ctx.violation('C12: a helper that returns a per-item function keeps mutable state outside the returned function: ' + ', '.join(sorted({f'{f}.{v}' for f, v, _, _ in rows})),
                  'theorem Ro.C12.factory_state_rows no longer holds (RoGen.Catalogue.factoryStateRows is not empty)\n' +
                  '\n'.join(f'row {f}: the returned function literal writes `{v}`{how} at line {ln}; `{v}` is declared in the body of {f}, which runs once per operator value, '
                            'so every subscription of every pipeline built from that operator value shares it' for f, v, how, ln in rows) + '\n', no_input=True)
    return True


def buildtime_search(ctx, out):
    """C12.buildtime_rows no longer holds: name the rows and look for a run of kind=lateuse that shows the difference"""
    import json, os
    try:
        rows = [r for r in json.load(open(os.path.join(R.LEAN, 'RoGen', 'buildtime.json'))) if (r['Fn'], r['What']) not in KNOWN_BUILD_ROWS]
    except (OSError, ValueError):
        return False
    if not rows:
        return False
    head = ('theorem Ro.C12.buildtime_rows no longer holds (RoGen.BuildTime.rows)\n' +
            '\n'.join(f"row {r['Fn']}: `{r['What']}` in the {r['Scope']} scope ({r['File']}:{r['Line']}) — evaluated once per operator value / observable value, shared by all its subscriptions" for r in rows) + '\n')
    bad = getattr(ctx, 'lateuse_bad', [])
    hit = [x for x in bad if any(r['Fn'].startswith(re.search(r'op=(\S+)', x[0]).group(1)) for r in rows)] or bad
    if hit:
        c, g, l = hit[0]
        ctx.violation('C12: an operator reads ambient state / creates a shared object outside its subscribe function (' + ', '.join(sorted({r['Fn'] + ':' + r['What'] for r in rows})) + ') and a pipeline subscribed late behaves differently',
                      head + f'# concrete run: build, let time pass, subscribe (twice)\n{c}\n# implementation: {g}\n# model: {l}\n')
    else:
        ctx.violation('C12: an operator reads ambient state / creates a shared object outside its subscribe function: ' + ', '.join(sorted({r['Fn'] + ':' + r['What'] for r in rows})), head, no_input=True)
    return True


KNOWN_BUILD_ROWS = {('ShareWithConfig', 'var sync.Mutex')}    # mirror of Ro.knownBuildRows (diagnosis only)


def check(ctx):
    # build, let time pass, subscribe (twice): kind=lateuse
    ctx.lateuse_bad = []
    lrows = R.run_kind(ctx, 'lateuse', shards=6)
    for c, g, l in lrows:
        if R.parse_res(g).get('ok') != '1' and not flag(R.parse_res(g)):
            ctx.lateuse_bad.append((c, g, l))
    R.compare(ctx, lrows, proj_all, 'C12 a pipeline subscribed long after it was built (and a second time later) behaves like a fresh one', nontrivial=lambda c, gd: True, recheck=1)
    # the native rate limiter (a composition of GroupBy / MergeMap / WindowWhen(Interval) in plugins/ratelimit/native): one limiter value
    # applied to two sources, both subscriptions alive, the first one then cancelled / unsubscribed - the second goes on unaffected
    trows = R.run_kind(ctx, 'rate', extra=['-only', 'native-twin'])
    R.compare(ctx, trows, proj_all, 'C12 one native rate-limiter value applied to two sources (both alive; the first goes away)', nontrivial=lambda c, gd: True, recheck=1)
    # the re-subscribing operators (loops: Retry*, RepeatWith, While*, DoWhile*, Catch, OnErrorResumeNextWith, Concat): the same pipeline
    # subscribed once more after its first run is over, whatever that run ended with (kind=resub again=1): the second run is the first again
    arows = [r for r in R.run_kind(ctx, 'resub') if ' again=1' in r[0]]
    R.compare(ctx, arows, lambda d: (flag(d), d.get('again')), 'C12 a pipeline built from a re-subscribing operator, subscribed again after its first run', nontrivial=lambda c, gd: True, max_report=2)
    rows = run_reuse(ctx)
    R.compare(ctx, rows, proj_all, 'C12 re-subscription / re-application of one operator value',
              nontrivial=lambda c, gd: 'N' in c and gd.get('t1', '-') != '-')
    C04_more.parts_C12(ctx)
    rows = R.run_kind(ctx, 'reusemulti', shards=4)
    R.compare(ctx, rows, lambda d: (flag(d), d.get('same'), d.get('built')), 'C12 operator values capturing other observables, applied to several sources', nontrivial=lambda c, gd: True)
    return dict(rule='every catalogue operator x parameters x variants x callbacks x scripts: operator value applied to 2 cold sources, subscribed in reverse order, '
                     '3 sequential + 4 concurrent subscriptions, probe subscription counters; non-trivial = the pipeline delivered something',
                search=combine_search(table_search('C12'), factory_search, buildtime_search))

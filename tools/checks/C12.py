import runner as R
from props import *
import C04_more

MANIFEST = dict(
    text="Machines have no state outside init, so every subscription of a machine-modelled pipeline is the same run (resubscribe_same, subs_le_one); whether that is the right model of each Go "
         "operator is the regenerated StatePlacement fact (no write from the application/subscription scope to a variable of an outer scope), decided by the Lean kernel on every run "
         "(table_ok, hoisted_state_rows). Tie: for every catalogue operator, one operator VALUE is applied to two cold sources before either is subscribed, the second pipeline is subscribed first, "
         "then the first three times sequentially and four times concurrently; every trace must equal the model's single run; laziness: no source subscribed at construction, one subscription per Subscribe. "
         "Found and repaired: MergeMapIWithContext (index in application scope), OnErrorResumeNextWith (captured slice rewritten).",
    technique="Lean 4 (functional model => resubscription theorems) + kernel-decided StatePlacement table regenerated from source + differential re-subscription/re-application runs",
    ref='5/C12')


def factory_search(ctx, out):
    """C12.factory_state_rows no longer holds: name the rows (diagnosis from the regenerated file)"""
    import os, re
    try:
        txt = open(os.path.join(R.LEAN, 'RoGen', 'Catalogue.lean')).read().split('def factoryStateRows', 1)[1]
    except (OSError, IndexError):
        return False
    rows = re.findall(r'\("([^"]+)", "([^"]+)", "([^"]*)", (\d+)\)', txt)
    if not rows:
        return False
    ctx.violation('C12: a helper that returns a per-item function keeps mutable state outside the returned function: ' + ', '.join(sorted({f'{f}.{v}' for f, v, _, _ in rows})),
                  'theorem Ro.C12.factory_state_rows no longer holds (RoGen.Catalogue.factoryStateRows is not empty)\n' +
                  '\n'.join(f'row {f}: the returned function literal writes `{v}`{how} at line {ln}; `{v}` is declared in the body of {f}, which runs once per operator value, '
                            'so every subscription of every pipeline built from that operator value shares it' for f, v, how, ln in rows) + '\n', no_input=True)
    return True


def check(ctx):
    rows = run_reuse(ctx)
    R.compare(ctx, rows, proj_all, 'C12 re-subscription / re-application of one operator value',
              nontrivial=lambda c, gd: 'N' in c and gd.get('t1', '-') != '-')
    C04_more.parts_C12(ctx)
    rows = R.run_kind(ctx, 'reusemulti', shards=4)
    R.compare(ctx, rows, lambda d: (flag(d), d.get('same'), d.get('built')), 'C12 operator values capturing other observables, applied to several sources', nontrivial=lambda c, gd: True)
    return dict(rule='every catalogue operator x parameters x variants x callbacks x scripts: operator value applied to 2 cold sources, subscribed in reverse order, '
                     '3 sequential + 4 concurrent subscriptions, probe subscription counters; non-trivial = the pipeline delivered something',
                search=combine_search(table_search('C12'), factory_search))

import os, sys
import runner as R
from props import *
sys.path.insert(0, os.path.dirname(os.path.dirname(os.path.abspath(__file__))))
import kernel_part as K

# C03: the subscription kernel (RoProps/C03 + KernelTie: the programs of subscriptionImpl regenerated from subscription.go and decided
# equal to the ones the theorems are about) — every operator cancels its upstream by registering a teardown with Add: a teardown
# stored on a disposed subscription would never run (kernel_add_after_done_not_stored, kernel_finalizers_exactly_once_at_end)
# cancellation of the subscription context reaches upstream only if every operator subscribes its source with (a context derived from) the
# context it was subscribed with: that is C09's regenerated context-provenance table (RoProps/C09: upstream rows) - taken as a premise here
LEAN_MODULES = ['C14', 'C03', 'C09']

MANIFEST = dict(
    text="Premise for cancellation through the subscription context: every operator subscribes its source with (a context derived from) the context it was subscribed with - C09's regenerated context-provenance table (RoProps/C09). "
         "Proved in Lean for every machine, raw script and cut position over a hot (never-ending or not) source: once the downstream side is closed - by a terminal the operator emitted or by an "
         "external Unsubscribe - the source has been unsubscribed before the closing call returned and the operator is not invoked again (released, cut); chains are machines (Machine.seq), so the same holds "
         "for early terminators anywhere in a chain. That the model applies to an operator is the regenerated SubscribeShape fact (does not block in Subscribe; no upstream subscription dropped; a teardown is returned), "
         "decided by the kernel on every run (table_ok, waiting_rows). Tie: every catalogue operator and random chains over hot probes with early terminators and external cuts at every position: "
         "probe teardown counter and closed flag equal the model. Known findings: the waiting class (ConcatAll, Retry, RepeatWith, DoWhile/While, OnErrorResumeNextWith, SubscribeOn, Timer) blocks inside Subscribe."
         ' The predicate fin-missing of the kernel runs (a teardown whose Add returned on a disposed subscription has run) is read by C14; kind=cancel adds higher-order operators whose inner source emits synchronously and stays open (FlatMapInnerOpen / MergeMapInnerOpen), ToChannel whose downstream ends before its upstream subscription exists (take1 / unsub0) and a silent never-ending source.'
         " term=ctx: the library's context-aware sources (Interval, IntervalWithInitial with a zero and a positive initial delay, RangeWithInterval, alone and below a chain) end and fall silent when the subscription context is cancelled.",
    technique="Lean 4 proof (run invariant: downstream closed => upstream released) + kernel-decided SubscribeShape table regenerated from source + differential correspondence of release/closed flags",
    ref='5/C14')


def proj_rel(d):
    return (flag(d), d.get('rel'), d.get('subs'), d.get('closed'))


def check(ctx):
    rows = R.run_kind(ctx, 'ops')
    R.compare(ctx, rows, proj_rel, 'C14 release of the source (single operators)', nontrivial=nontrivial_op)
    rows = R.run_kind(ctx, 'chains')
    R.compare(ctx, rows, proj_rel, 'C14 release of the source (chains with early terminators and cuts)', nontrivial=lambda c, gd: gd.get('trace', '-') != '-')
    for kind in ('multi', 'multib'):
        rows = R.run_kind(ctx, kind)
        R.compare(ctx, rows, lambda d: (flag(d), d.get('rel'), d.get('subs')), f'C14 release of every source of a multi-source operator ({kind})', nontrivial=lambda c, gd: True, max_report=2)
    # the hot constructs: when the last subscriber of a shared observable leaves (or the connection is closed) the
    # source is released — live/total upstream subscriptions after every event of the C11 sequences, incl. the
    # generations after a source terminal (the transition system and its theorems are C11's; C14 reads the release)
    for kind in ('share', 'conn'):
        rows = R.run_kind(ctx, kind)
        R.compare(ctx, rows, lambda d: (flag(d), d.get('up')), f'C14 release of the shared source after every event ({kind})',
                  nontrivial=lambda c, gd: 'U' in c.split('ev=')[-1] or 'D' in c.split('ev=')[-1], max_report=2)
    rows = R.run_kind(ctx, 'cancel')
    R.compare(ctx, rows, proj_all, 'C14 never-ending asynchronous source below each operator', nontrivial=lambda c, gd: True, recheck=2)
    for r in catalogue():
        if (r['Waits'] > 0 or r['RecvOutsideGo']) and r['Name'] in KNOWN_WAITING:
            ctx.known.append(f"op={r['Name']} shape=blocks-in-subscribe: the subscribe function waits for its source ({r['File']}:{r['Line']}); Subscribe does not return when downstream ends early over a never-ending source")
    kp = K.kernel_part(ctx, 'C14')
    return dict(rule=kp['rule'] + ' [C14 reads the predicate fin-missing: a teardown whose Add returned on a subscription that was disposed has run]; every catalogue operator (hot source, external Unsubscribe at a random position, early terminators) and random chains of 2-5 operators; '
                     'never-ending goroutine-driven source below each operator with Take/First/Unsubscribe/context-cancel above it; compared: probe teardown count, subscription count, closed flag; '
                     'Share / connectable event sequences of C11: live/total upstream subscriptions after every event',
                search=combine_search(kp['search'], table_search('C14'), table_search('C09')))

#!/usr/bin/env python3
"""Mutation self-test (not part of any registered command):
   selftest.py <patch.diff> <Cxx> [<Cyy> …] [--tier quick|thorough]
applies the patch to a scratch git worktree of /repo (outside /repo and /verif), points the checks at it through
VERIF_REPO, prints exit code + VIOLATION lines, and removes the scratch tree."""
import os, subprocess, sys
VERIF = os.path.dirname(os.path.dirname(os.path.abspath(__file__)))
args = sys.argv[1:]
tier = 'quick'
if '--tier' in args:
    i = args.index('--tier'); tier = args[i + 1]; del args[i:i + 2]
patch, props = os.path.abspath(args[0]), args[1:]
rw = '/tmp/rw/self-%d' % os.getpid()
os.makedirs('/tmp/rw', exist_ok=True)
subprocess.run(['git', '-C', '/repo', 'worktree', 'add', '--detach', '-q', rw, 'HEAD'], check=True)
try:
    p = subprocess.run(['git', 'apply', patch], cwd=rw, capture_output=True, text=True)
    if p.returncode != 0:
        print('patch does not apply:', p.stderr); sys.exit(2)
    env = dict(os.environ, VERIF_REPO=rw)
    for prop in props:
        r = subprocess.run([os.path.join(VERIF, 'check'), prop, tier], cwd=VERIF, env=env, capture_output=True, text=True)
        lines = [l for l in r.stdout.splitlines() if l.startswith(('VIOLATION', '# ', 'ERROR')) or 'obligations' in l]
        print(f'== {prop}: exit {r.returncode}')
        for l in lines[:12]:
            print('   ' + l[:300])
finally:
    subprocess.run(['git', '-C', '/repo', 'worktree', 'remove', '--force', rw])
    # point go.work back at /repo and regenerate lean/RoGen from it (the run above left the tables of the scratch tree there)
    subprocess.run(['python3', '-c', 'import sys, os, subprocess; sys.path.insert(0, "%s/tools"); import runner; runner.write_gowork(); '
                    'subprocess.run([os.path.join(runner.GO, "bin", "extract"), "-repo", "/repo", "-out", os.path.join(runner.LEAN, "RoGen")], env=runner.GOENV)' % VERIF])

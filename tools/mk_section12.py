#!/usr/bin/env python3
"""Rebuild DESIGN.md section 12 ("which checks catch which changes") from seeded/MATRIX*.md (written by tools/seed_matrix.py)
and the seeds' meta.json. Usage: python3 tools/mk_section12.py  (rewrites the text between the S12 markers of DESIGN.md and
seeded/MATRIX.md as the merged table)."""
import glob, json, os, re
VERIF = os.path.dirname(os.path.dirname(os.path.abspath(__file__)))
rows = {}
for f in sorted(glob.glob(os.path.join(VERIF, 'seeded', 'MATRIX-*.md'))) or [os.path.join(VERIF, 'seeded', 'MATRIX.md')]:
    for l in open(f):
        m = re.match(r'\| (C\d\d-[A-Z]) \| (.*?) \| (C\d\d|-) \| (.*?) \| (.*) \|$', l.rstrip())
        if m:
            rows[(m.group(1), m.group(3))] = (m.group(2), m.group(4), m.group(5))
seeds = sorted({k[0] for k in rows})


def verdict(res, why, sd=None):
    if res == 'exit 0':
        try:
            note = json.load(open(os.path.join(VERIF, 'seeded', sd, 'meta.json'))).get('note_after_fixes')
        except Exception:
            note = None
        if note:
            return 'quiet - no longer a violation of its own property since a repair of /repo (meta.json note_after_fixes); noticed under C10'
        return 'MISSED'
    if 'no-failing-input-found' in why:
        return 'caught (obligation / correspondence broken, no failing input found)'
    return 'caught with a concrete failing input'


out = []
out.append('## 12. Which checks catch which changes (self-validation by independently seeded defects)\n')
out.append('Eleven rounds (A–K; J and K with ten properties each) of changes to samber/ro were written by fresh sub-agents that saw only the text of one property and a scratch worktree of the '
           'library - nothing of /verif - and were asked for a realistic change (refactor, optimisation, tidied lock scope, parameter corner, second use, two cooperating sites) that '
           'compiles, passes the pinned test suite and breaks the property, with a demonstration that fails with and passes without it. Every change kept here was confirmed by '
           '`tools/confirm_seeds.py` (applies, builds, baseline passes, demonstration fails with / passes without) and is stored as `seeded/<Cxx>-<round>/` (patch.diff, demonstration, '
           'meta.json). `tools/seed_matrix.py` applies each one to a scratch worktree (`VERIF_REPO`), runs the quick check of the seed\'s own property and records exit code and VIOLATION '
           'lines; nothing is ever committed to /repo. The table below merges three runs: the two shards `MATRIX-0.md` / `MATRIX-1.md` (all 180 seeds of rounds A-I, in parallel, at commit 39631e3, next to a thorough-tier sweep '
           'and ten seeding agents) and `MATRIX-2.md` (at the commit named in `seeded/MATRIX.md`: the seeds the first run missed or could not apply - seven patches had to be re-based '
           'after the unicast repair 5f819fc - and the ten seeds of round J); a later row replaces an earlier one.\n')
cnt = {}
for sd in seeds:
    prop = sd.split('-')[0]
    r = rows.get((sd, prop))
    if not r:
        continue
    v = verdict(r[1], r[2], sd)
    cnt[v.split(' ')[0] + (' abstract' if 'no failing' in v else '')] = cnt.get(v.split(' ')[0] + (' abstract' if 'no failing' in v else ''), 0) + 1
out.append(f'Totals over {len(seeds)} seeded changes (own property, quick tier): ' + ', '.join(f'{k}: {n}' for k, n in sorted(cnt.items())) + '.\n')
out.append('How the misses of each round were used: a change a check did not notice was read as a statement about the check - usually that a part of the code was outside every model, table and '
           'correspondence run (a rarely used entry point, a parameter corner, the second use of a value, two features meeting), sometimes that a catch depended on a race. Each was answered by '
           'extending the model or the correspondence (new model + theorem, new regenerated table, new deterministic schedule, a cross-read of another slice\'s runs through the property\'s own '
           'projection) - never by special-casing the seed; the additions are listed in section 0 and docs/additions-0930.md. One seed is quiet under its own property: C02-B (publish broadcasting outside its mutex) broke C02 only through '
           'the unsafe pass-through operators, which were repaired in /repo ee00f46; since then its demonstration passes with the patch applied, it is a C10 matter and is noticed by C10.\n')
out.append('| seed | what it changes | result under its own property | reported as |\n|---|---|---|---|')
for sd in seeds:
    prop = sd.split('-')[0]
    r = rows.get((sd, prop))
    if not r:
        continue
    summ, res, why = r
    out.append(f'| {sd} | {summ[:150]} | {verdict(res, why, sd)} | {why[:200]} |')
text = '\n'.join(out) + '\n'
p = os.path.join(VERIF, 'DESIGN.md')
s = open(p).read()
b, e = '<!-- S12-BEGIN -->', '<!-- S12-END -->'
if b in s:
    s = s[:s.index(b) + len(b)] + '\n' + text + s[s.index(e):]
else:
    s = s.rstrip('\n') + '\n\n' + b + '\n' + text + e + '\n'
open(p, 'w').write(s)
with open(os.path.join(VERIF, 'seeded', 'MATRIX.md'), 'w') as f:
    head = os.popen(f'git -C {VERIF} rev-parse --short HEAD').read().strip()
    f.write(f'# Seeded changes vs checks (quick tier); merged from the shard files; DESIGN.md section 12 is generated from this (tools/mk_section12.py); written at commit {head}\n\n'
            '| seed | what it changes (from its meta.json) | check | result | reported as |\n|---|---|---|---|---|\n')
    for (sd, p_), (summ, res, why) in sorted(rows.items()):
        f.write(f'| {sd} | {summ} | {p_} | {res} | {why} |\n')
print('section 12:', len(seeds), 'seeds', cnt)

#!/bin/sh
# Mutation self-test of C13: applies each mutants/C13-*.patch to a scratch copy of /repo, checks that
# the package still builds, runs ./check C13 quick against it (VERIF_REPO) and expects exit 1.
# Afterwards the regenerated table of the unchanged tree is restored.
cd "$(dirname "$0")/.."
export GOFLAGS= GOPROXY=off GOSUMDB=off GOTOOLCHAIN=local
S=${SCRATCH:-/tmp/rw/C13}
rm -rf "$S"; mkdir -p "$S"; rsync -a --exclude .git /repo/ "$S"/
for p in ${@:-mutants/C13-*.patch}; do
  (cd "$S" && patch -s -p1 < "$OLDPWD/$p") || { echo "$p: does not apply"; continue; }
  if ! (cd "$S" && GOWORK=off GOFLAGS=-mod=mod go build . 2>/dev/null || cd "$S" && go build . ); then echo "$p: mutant does not compile"; fi
  VERIF_REPO="$S" ./check C13 quick > work/mutant.out 2>&1; rc=$?
  echo "$p: exit $rc  $(grep -c '^VIOLATION' work/mutant.out) violation line(s)"
  grep '^# C13' work/mutant.out | cut -c1-260 | head -4
  (cd "$S" && patch -s -R -p1 < "$OLDPWD/$p")
done
rm -rf "$S"
./check C13 quick > work/mutant.out 2>&1; echo "unchanged tree: exit $?"

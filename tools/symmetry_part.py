"""The Symmetry part (C05, also read by C04): RoProps/C05sym decides, on the rows regenerated from operator_*.go on
every run (go/extract/symmetry.go), that every single-position unit of the functions written out per source position
(ZipWith1..5, CombineLatestWith1..4, MergeWith1..5, Zip2..6, CombineLatest2..5) occurs equally often for every
position. When the decision fails `search` names the irregular units (Python mirror of Ro.SymFacts.rowOk, diagnosis
only) and points the multi-source correspondence at that operator: the positional stories of kind=multib (every arity,
every position as the odd one out) and, for orders that need two goroutines, the park-based concurrent kind."""
import os, re
import runner as R
from props import *

LEAN_MODULES = ['C05sym']
GEN = os.path.join(R.LEAN, 'RoGen', 'Symmetry.lean')


def rows():
    out = []
    for m in re.finditer(r'\{ fn := "([^"]+)", n := (\d+), letters := \[([^\]]*)\], unit := "((?:[^"\\]|\\.)*)" \}', open(GEN).read()):
        out.append(dict(fn=m[1], n=int(m[2]), letters=[int(x) for x in m[3].split(',') if x.strip()], unit=m[4]))
    return out


def row_ok(r):
    n, ls = r['n'], r['letters']
    if all(x == 0 for x in ls):
        return True
    if n == 0 or len(ls) % n:
        return False
    k = len(ls) // n
    return ls == [p for p in range(n) for _ in range(k)]


def harness_op(fn):
    """catalogue function -> (kind=multib operator, arity) for the positional stories"""
    m = re.match(r'^(Zip|CombineLatest)(With)?(\d)$', fn)
    if not m:
        return None
    n = int(m[3]) + (1 if m[2] else 0)
    return m[1], n


def search(ctx, out):
    if 'C05sym' not in out:
        return False
    try:
        bad = [r for r in rows() if not row_ok(r)]
    except OSError:
        return False
    if not bad:
        return False
    import C05b
    found = False
    for fn in sorted({r['fn'] for r in bad}):
        letters = 'ABCDEFGH'
        txt = '\n'.join(f"#   `{r['unit']}` occurs for positions {''.join(letters[x] for x in r['letters'])} of {''.join(letters[:r['n']])}" for r in bad if r['fn'] == fn)
        head = (f'# RoProps/C05sym.symmetric_families no longer holds: {fn} does not treat its source positions alike\n' + txt + '\n')
        before = len(ctx.violations)
        ho = harness_op(fn)
        ran = False
        if ho:
            rws = [r for r in R.run_kind(ctx, 'multib', extra=['-only', ho[0]], tier='thorough') if f' n={ho[1]} ' in r[0] + ' ']
            if rws:
                ran = True
                R.compare(ctx, rws, C05b.proj_mb, f'C05 {fn}: every arrival order, every position as the odd one out (thorough generator, arity {ho[1]})', nontrivial=lambda c, gd: True)
        if len(ctx.violations) > before:
            msg, path, no_input = ctx.violations[-1]
            with open(os.path.join(R.VERIF, path), 'a') as f:
                f.write(head)
        else:
            ctx.violation(f'{fn}: a source position is wired differently from the others (RoGen.Symmetry rows violate rowOk)' +
                          ('; the sequential correspondence over every arrival order of this arity shows no difference (an order that needs two goroutines?)' if ran else ''),
                          head, no_input=True)
        found = True
    return found


def parts(ctx):
    try:
        rs = rows()
        n = f'{len(rs)} single-position units of {len({r["fn"] for r in rs})} functions written out per source position'
    except OSError:
        n = 'table missing'
    return dict(rule_part='Symmetry table regenerated from operator_*.go (' + n + '): every unit occurs equally often for every position, decided by the kernel (C05sym.symmetric_families)', search=search)

#!/usr/bin/env python3
"""Quiet-on-the-unchanged-tree sweep: sweep.py <tier> <seed> [<seed> …] — every registered check, every seed; prints alarms."""
import json, os, subprocess, sys, time
VERIF = os.path.dirname(os.path.dirname(os.path.abspath(__file__)))
tier, seeds = sys.argv[1], sys.argv[2:]
props = [c['property_id'] for c in json.load(open(os.path.join(VERIF, 'MANIFEST.json')))['checks']]
alarms = 0
for s in seeds:
    for p in props:
        t0 = time.time()
        r = subprocess.run([os.path.join(VERIF, 'check'), p, tier], cwd=VERIF, env=dict(os.environ, VERIF_SEED=s), capture_output=True, text=True)
        last = r.stdout.strip().splitlines()[-1] if r.stdout.strip() else r.stderr[-200:]
        vio = [l for l in r.stdout.splitlines() if l.startswith(('VIOLATION', '# '))]
        if r.returncode != 0 or vio:
            alarms += 1
            print(f'ALARM seed={s} {p} exit={r.returncode}', flush=True)
            for l in vio[:4]:
                print('   ', l[:300], flush=True)
                if l.startswith('VIOLATION'):
                    path = l.split('replay=')[1].split()[0]
                    try:
                        print('    ' + open(os.path.join(VERIF, path)).read()[:600].replace('\n', '\n    '), flush=True)
                    except OSError:
                        pass
        else:
            print(f'ok seed={s} {last}', flush=True)
print('alarms:', alarms)

"""The EmitLocks part (shared by C03 / C06 / C14): RoProps/C03lock decides, on the rows regenerated from
operator_*.go on every run (go/extract/emitlock.go), that no emission site of any operator holds a lock the
operator's teardown / finalizers acquire — so a teardown run from inside a delivery never waits for the emitting
goroutine itself (theorem no_self_deadlock over the model RoModel/EmitLockFacts.teardownInside).
When the decision fails, `search` names the offending rows (Python mirror of Ro.EmitLockFacts.badRows, diagnosis
only) and asks the goroutine-leak kind for a concrete run (`end=inside`: the downstream closes from inside the
delivery) when the operator is one it can drive."""
import os, re
import runner as R
from props import *

LEAN_MODULES = ['C03lock']
# harness set-ups (kind=leak) that drive an operator of the table
LEAK_OPS = {'BufferWithTimeOrCount': ['BufferWithTimeOrCount', 'BufferWithTimeOrCountByCount']}
GEN = os.path.join(R.LEAN, 'RoGen', 'EmitLocks.lean')


def tables():
    txt = open(GEN).read()
    emits = [dict(op=m[0], file=m[1], line=int(m[2]), kind=m[3], ctx=m[4], held=[int(x) for x in m[5].split(',') if x.strip()], names=m[6].strip())
             for m in re.findall(r'\{ op := "([^"]+)", file := "([^"]+)", line := (\d+), kind := "([^"]+)", ctx := "([^"]+)", held := \[([^\]]*)\] \},?\s*-- (.*)', txt)]
    td = {}
    for m in re.findall(r'\{ op := "([^"]+)", locks := \[([^\]]*)\] \}', txt):
        td.setdefault(m[0], set()).update(int(x) for x in m[1].split(',') if x.strip())
    return emits, td


def bad_rows():
    emits, td = tables()
    return [e for e in emits if set(e['held']) & td.get(e['op'], set())]


def search(ctx, out):
    if 'C03lock' not in out:
        return False
    try:
        bad = bad_rows()
    except OSError:
        return False
    if not bad:
        return False
    found = False
    for op in sorted({e['op'] for e in bad}):
        rows_txt = '\n'.join(f"#   {e['file']}:{e['line']} {e['kind']} in context {e['ctx']} while holding {e['names']} — the teardown of {op} acquires the same lock" for e in bad if e['op'] == op)
        head = (f'# RoProps/C03lock.emit_table_ok no longer holds: {op} emits while holding a lock that its own teardown / finalizers acquire;\n'
                '# a downstream that closes the subscription from inside that delivery (Take, First, … or an observer unsubscribing in Next) makes the teardown wait for the emitting goroutine itself\n' + rows_txt + '\n')
        before = len(ctx.violations)
        rows = []
        for hop in LEAK_OPS.get(op, [op]):
            rows += R.run_kind(ctx, 'leak', shards=2, extra=['-only', hop])
        rows = [r for r in rows if 'end=inside' in r[0]]
        if rows:
            R.compare(ctx, rows, lambda d: (flag(d), d.get('leaked'), d.get('released'), d.get('closed')),
                      f'C03 {op}: closing from inside the delivery (teardown on the emitting goroutine)', nontrivial=lambda c, gd: True, recheck=2)
        if len(ctx.violations) > before:
            msg, path, no_input = ctx.violations[-1]
            with open(os.path.join(R.VERIF, path), 'a') as f:
                f.write(head)
        else:
            ctx.violation(f'{op} emits while holding a lock its teardown takes (RoGen.EmitLocks rows violate emitOk)' +
                          ('; the goroutine-leak run with the downstream closing inside the delivery did not hang' if rows else '; no harness scenario drives this operator with a downstream that closes inside the delivery'),
                          head, no_input=True)
        found = True
    return found


def parts(ctx):
    try:
        emits, td = tables()
        n = f'{len(emits)} lock-holding emission sites, {len(td)} operators whose teardown takes a lock'
    except OSError:
        n = 'table missing'
    return dict(rule_part='EmitLocks table regenerated from operator_*.go (' + n + '): no emission under a lock the teardown takes, decided by the kernel (C03lock.emit_table_ok)', search=search)

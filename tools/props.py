"""Per-property check logic. Each `check_Cxx(ctx)` adds violations / known findings to ctx."""
import json, os, re, sys
import runner as R


# ---------------------------------------------------------------- projections and oracles

def toks(s):
    return [] if s in (None, '-', '') else s.split(',')


def kinds(trace):
    return [t[0] for t in toks(trace)]


def strip_ctx(trace):
    return [t.rsplit('/', 1)[0] for t in toks(trace)]


def ctx_of(trace):
    return [t.rsplit('/', 1)[1] if '/' in t else '?' for t in toks(trace)]


def grammar_ok(trace):
    ks = kinds(trace)
    for i, k in enumerate(ks):
        if k in ('E', 'C') and i != len(ks) - 1:
            return False
    return True


def flag(d):
    return d.get('_flag')


def proj_values(d):      # C04: what is delivered (values, kinds, order), not the contexts
    return (flag(d), strip_ctx(d.get('trace')), d.get('alias'))


def proj_grammar(d):     # C01: shape of the delivered trace and of the refused notifications
    return (flag(d), kinds(d.get('trace')), sorted(toks(d.get('drops'))) if 'drops' in d else None)


def proj_all(d):
    return {k: v for k, v in d.items() if not k.startswith('_') or k == '_flag'}


def oracle_grammar(case, gd):
    if flag(gd):
        return f'harness flag {flag(gd)}'
    if not grammar_ok(gd.get('trace')):
        return 'grammar: a notification was delivered after a terminal'
    return None


def nontrivial_op(case, gd):
    return 'N' in case.split('src=')[-1] and (gd.get('trace', '-') != '-' or gd.get('drops', '-') != '-')


# ---------------------------------------------------------------- regenerated table, Python view
# Mirrors lean/RoModel/FactPreds.lean. Used only to NAME the offending rows and to focus the
# dynamic search when the Lean `decide` over the regenerated table fails; it decides nothing.

KNOWN_UNSAFE_PASSTHROUGH = []
ASYNC_BY_DESIGN = ["Interval", "IntervalWithInitial", "FromChannel", "Never", "Future", "ToChannel", "Delay", "Timeout", "detachOn", "ThrowOnContextCancel"]
KNOWN_CTX_ROWS = {("MergeAll", "complete", "lastSeen"), ("OnErrorResumeNextWith", "error", "lastSeen"), ("OnErrorResumeNextWith", "complete", "lastSeen"),
                  ("WhileIWithContext", "subscribe", "lastSeen"), ("ReduceIWithContext", "next", "lastSeen"), ("RepeatWith", "complete", "lastSeen"),
                  ("Timeout", "error", "lastSeen"), ("DefaultIfEmptyWithContext", "next", "outer"), ("ContextReset", "next", "outer"),
                  ("ContextReset", "error", "outer"), ("ContextReset", "complete", "outer")}
KNOWN_STATE_ROWS = {("ShareWithConfig", "refCount")}
KNOWN_WAITING = ["ConcatAll", "OnErrorResumeNextWith", "RetryWithConfig", "DoWhileIWithContext", "WhileIWithContext", "RepeatWith", "Timer", "detachOn"]


def catalogue():
    path = os.path.join(R.LEAN, 'RoGen', 'catalogue.json')
    return json.load(open(path)) if os.path.exists(path) else []


def serialized(r):
    return r['Ctor'] in ('safe', 'eventuallySafe')


def bad_rows(prop):
    """rows of the regenerated table that are neither fine nor a listed known deviation"""
    out = []
    for r in catalogue():
        n = r['Name']
        if prop == 'C02':
            if r['Ctor'] == 'unknown' or (r['Feeders'] >= 2 and not serialized(r)) or (r['PassThrough'] and not serialized(r) and n not in KNOWN_UNSAFE_PASSTHROUGH):
                out.append((n, f"ctor={r['Ctor']} feeders={r['Feeders']} passThrough={r['PassThrough']} ({r['File']}:{r['Line']})"))
        elif prop == 'C08':
            if r['AsyncEmit'] and n not in ASYNC_BY_DESIGN:
                out.append((n, f"emits downstream from a goroutine/timer of its own ({r['File']}:{r['Line']})"))
        elif prop == 'C09':
            for c in r['CtxRows'] or []:
                if c['Prov'] not in ('param', 'subscriber', 'derived', 'stored') and (n, c['Kind'], c['Prov']) not in KNOWN_CTX_ROWS:
                    out.append((n, f"{c['Kind']} with context of provenance {c['Prov']} ({r['File']}:{c['Line']})"))
        elif prop == 'C12':
            for s_ in r['StateRows'] or []:
                if (n, s_['Var']) not in KNOWN_STATE_ROWS:
                    out.append((n, f"variable {s_['Var']} declared in the {s_['DeclScope']} scope is written from the {s_['WriteScope']} scope ({r['File']}:{s_['Line']})"))
        elif prop == 'C14':
            blocks = r['Waits'] > 0 or r['RecvOutsideGo']
            if blocks and n not in KNOWN_WAITING:
                out.append((n, f"subscribe function blocks (Wait/receive) ({r['File']}:{r['Line']})"))
            if r['Discarded'] > 0:
                out.append((n, f"{r['Discarded']} upstream subscription(s) dropped ({r['File']}:{r['Line']})"))
            if r['SubscribeSites'] > 0 and r['Returns'] in ('nil', 'none') and n != 'RepeatWith':
                out.append((n, f"subscribes upstream but returns no teardown ({r['File']}:{r['Line']})"))
        elif prop == 'C07':
            for g in r['GoStmts'] or []:
                if g['Kind'] == 'go' and g['CallsUser'] and not g['Recovered']:
                    out.append((n, f"goroutine running user code without recover ({r['File']}:{g['Line']})"))
    return out


def combine_search(*fns):
    """several searches for one property: each is asked in turn; True as soon as one reported something"""
    fns = [f for f in fns if f]
    def search(ctx, out):
        found = False
        for f in fns:
            try:
                found = bool(f(ctx, out)) or found
            except Exception as e:            # a diagnosis helper must never hide the violation itself
                ctx.notes.append(f'search helper failed: {e!r}')
        return found
    return search


def run_reuse(ctx, extra=None, shards=None):
    """kind=reuse; when the harness dies (a fatal runtime error under the concurrent subscriptions of an operator whose
    state became shared) the run is repeated without the concurrent subscriptions, so that the sequential part yields
    a concrete case; the death itself stays reported"""
    before = len(ctx.violations)
    rows = R.run_kind(ctx, 'reuse', extra=extra, shards=shards)
    if any('harness-failed' in v[0] for v in ctx.violations[before:]):
        R.GOENV['VERIF_REUSE_SEQ'] = '1'
        try:
            rows = R.run_kind(ctx, 'reuse', extra=extra, shards=shards)
        finally:
            R.GOENV.pop('VERIF_REUSE_SEQ', None)
    return rows


def table_search(prop, dynamic=None):
    """search function for report_lake_failure: name the changed rows; `dynamic(ctx, rows)` may turn
    them into a concrete failing input (returns True when it reported a violation with a replay)"""
    def search(ctx, out):
        rows = bad_rows(prop)
        if not rows:
            return False
        if dynamic is not None and dynamic(ctx, rows):
            return True
        txt = 'proof obligation over the regenerated table RoGen.Catalogue no longer holds (lean/RoProps)\n' + \
              '\n'.join(f'row {n}: {why}' for n, why in rows) + '\n'
        ctx.violation(f'{prop}: regenerated fact rows violate the predicate: ' + ', '.join(sorted({n for n, _ in rows})), txt, no_input=True)
        return True
    return search


# ---------------------------------------------------------------- common preamble

def preamble(ctx, race=False, modules=None):
    ok, out = R.build_go(race=race)
    if not ok:
        print('ERROR: the Go harness does not build against ' + R.REPO + ' (with -tags verif):\n' + out[-4000:])
        return False
    R.run_extract(ctx)
    targets = ['RoProps.' + m for m in (modules or [ctx.prop])]
    ctx.checker_cmds.append('cd lean && lake build ' + ' '.join(targets) + ' driver')
    ok, out = R.lake_build(targets + ['driver'])
    if not ok:
        # a regenerated fact table no longer satisfies its predicate (the hand-written Lean is static)
        errs = re.findall(r'error: (\S+\.lean:\d+:\d+): (.*)', out)
        broken = sorted({e[0] for e in errs})
        ctx.notes.append('lake build failed: ' + out[-4000:])
        ctx.lake_failed = (broken, out)
    else:
        ctx.lake_failed = None
    return True


def audit(ctx, modules=None):
    if ctx.lake_failed:
        # nothing is discharged while the build is broken: list the obligations as open
        for m in (modules or [ctx.prop]):
            try:
                src = open(os.path.join(R.LEAN, 'RoProps', m + '.lean')).read()
            except OSError:
                continue
            for name in re.findall(r'^#print axioms\s+(\S+)', src, flags=re.M):
                ctx.obligations.append((name, False, None))
        return
    for m in (modules or [ctx.prop]):
        R.axiom_audit(ctx, m)
    for name, good, ax in ctx.obligations:
        if not good:
            ctx.violation(f'theorem {name} is not discharged with the allowed axioms (axioms: {ax})',
                          f'theorem {name}\naxioms {ax}\n', no_input=True)


def report_lake_failure(ctx, search=None):
    """The proof obligations over the regenerated tables no longer check. `search` may turn the
    changed rows into a concrete failing input; otherwise: no-failing-input-found."""
    if not ctx.lake_failed:
        return
    broken, out = ctx.lake_failed
    found = search(ctx, out) if search else False
    if not found:
        ctx.violation('proof obligations no longer check: ' + ', '.join(broken or ['lake build']),
                      'lake build RoProps.' + ctx.prop + ' failed\n' + '\n'.join(broken) + '\n\n' + out[-6000:], no_input=True)


# ---------------------------------------------------------------- properties
# one module per property under tools/checks/Cxx.py, each exposing
#   check(ctx) -> dict(rule=..., assumptions=[...], extra={...}, search=fn)   and   MANIFEST = dict(text=, technique=, ref=)

def load_check(prop):
    import importlib
    sys.path.insert(0, os.path.join(os.path.dirname(os.path.abspath(__file__)), 'checks'))
    try:
        return importlib.import_module(prop)
    except ModuleNotFoundError:
        return None


def run(ctx):
    mod = load_check(ctx.prop)
    if mod is None:
        print(f'{ctx.prop}: no check registered')
        return 2
    fn = mod.check
    if not preamble(ctx, race=getattr(mod, 'NEEDS_RACE', False), modules=getattr(mod, 'LEAN_MODULES', None)):
        return 2
    audit(ctx, getattr(mod, 'LEAN_MODULES', None))
    if ctx.tier == 'thorough' and not ctx.lake_failed:
        # independent re-check of the compiled property modules by the toolchain's olean checker
        for m in (getattr(mod, 'LEAN_MODULES', None) or [ctx.prop]):
            cmd = ['lake', 'env', 'leanchecker', 'RoProps.' + m]
            ctx.checker_cmds.append('cd lean && ' + ' '.join(cmd))
            with R.Lock('lake'):
                rc, o, e = R.sh(cmd, cwd=R.LEAN, timeout=1800)
            if rc != 0:
                ctx.violation(f'leanchecker rejects RoProps.{m}', f'leanchecker RoProps.{m}\n' + (o + e)[-3000:], no_input=True)
            else:
                ctx.notes.append(f'leanchecker RoProps.{m}: ok')
    replay_known(ctx)
    info = fn(ctx) or {}
    report_lake_failure(ctx, info.get('search'))
    return R.finish(ctx, rule=info.get('rule', ''), assumptions=info.get('assumptions'), extra=info.get('extra'))


def replay_known(ctx):
    """known_findings.jsonl: each open finding of this property carries a witness `case` line and the
    implementation result that shows the deviation. Still showing it => KNOWN-FINDING line.
    (If the implementation no longer shows it, the correspondence run reports the difference.)"""
    for k in R.load_known(ctx.prop):
        if k.get('status') != 'open':
            continue
        if k.get('case'):
            res = R.replay_cases(ctx, [k['case']], exe=k.get('exe', 'harness'))
            got = ' '.join(res[0][1].split()[2:]) if res else '?'
            if got == k.get('impl'):
                ctx.known.append(f"{k['key']}: {k['what']}")
            else:
                ctx.notes.append(f"known finding {k['key']} no longer reproduces (implementation now gives: {got})")
        else:
            # findings witnessed by a regenerated fact row / theorem are re-derived by the check itself
            ctx.known_static = getattr(ctx, 'known_static', []) + [k]


def replay(ctx, path):
    """re-run the case lines of a replay file on the implementation and the model"""
    mod = load_check(ctx.prop)
    if getattr(mod, 'replay', replay) is not replay:   # a property whose replay is not a case-by-case diff (C13: race-detector run); `from props import *` re-exports this very function
        return mod.replay(ctx, path)
    if not preamble(ctx, modules=getattr(mod, 'LEAN_MODULES', None)):
        return 2
    lines = [l.strip() for l in open(path if os.path.isabs(path) else os.path.join(R.VERIF, path)) if l.startswith('case ')]
    if not lines:
        print(open(path if os.path.isabs(path) else os.path.join(R.VERIF, path)).read())
        print('(no case line in this replay file: it names the theorem / table rows that no longer check)')
        return 1
    bad = 0
    # a check module may judge a replayed case itself (`replay_judge(case, go_res, lean_res) -> list of reasons`),
    # e.g. when the implementation line carries oracle fields the model line does not have, or say which
    # fields of a result line take part in the comparison (`replay_proj`)
    judge = getattr(load_check(ctx.prop), 'replay_judge', None)
    rproj = getattr(load_check(ctx.prop), 'replay_proj', None)
    for c, g, l in R.replay_cases(ctx, lines):
        print(c)
        print('  implementation:', g)
        print('  model/spec:    ', l)
        if judge is not None:
            reasons = judge(c, g, l)
            for r in reasons:
                print('  ->', r)
            if reasons:
                bad += 1
        elif rproj is not None:
            if rproj(R.parse_res(g)) != rproj(R.parse_res(l)):
                bad += 1
        elif R.parse_res(g).get('_raw', '').split()[2:] != R.parse_res(l).get('_raw', '').split()[2:]:
            bad += 1
    print('differs' if bad else 'agrees')
    return 1 if bad else 0

"""Per-property check logic. Each `check_Cxx(ctx)` adds violations / known findings to ctx."""
import json, os, re, sys
import runner as R


# ---------------------------------------------------------------- projections and oracles

def toks(s):
    return [] if s in (None, '-', '') else s.split(',')


def kinds(trace):
    return [t[0] for t in toks(trace)]


def strip_ctx(trace):
    return [t.rsplit('/', 1)[0] for t in toks(trace)]


def ctx_of(trace):
    return [t.rsplit('/', 1)[1] if '/' in t else '?' for t in toks(trace)]


def grammar_ok(trace):
    ks = kinds(trace)
    for i, k in enumerate(ks):
        if k in ('E', 'C') and i != len(ks) - 1:
            return False
    return True


def flag(d):
    return d.get('_flag')


def proj_values(d):      # C04: what is delivered (values, kinds, order), not the contexts
    return (flag(d), strip_ctx(d.get('trace')))


def proj_grammar(d):     # C01: shape of the delivered trace and of the refused notifications
    return (flag(d), kinds(d.get('trace')), sorted(toks(d.get('drops'))))


def proj_all(d):
    return {k: v for k, v in d.items() if not k.startswith('_') or k == '_flag'}


def oracle_grammar(case, gd):
    if flag(gd):
        return f'harness flag {flag(gd)}'
    if not grammar_ok(gd.get('trace')):
        return 'grammar: a notification was delivered after a terminal'
    return None


def nontrivial_op(case, gd):
    return 'N' in case.split('src=')[-1] and (gd.get('trace', '-') != '-' or gd.get('drops', '-') != '-')


# ---------------------------------------------------------------- common preamble

def preamble(ctx, race=False):
    ok, out = R.build_go(race=race)
    if not ok:
        print('ERROR: the Go harness does not build against ' + R.REPO + ' (with -tags verif):\n' + out[-4000:])
        return False
    R.run_extract(ctx)
    module = 'RoProps.' + ctx.prop
    ctx.checker_cmds.append(f'cd lean && lake build {module} driver')
    ok, out = R.lake_build([module, 'driver'])
    if not ok:
        # a regenerated fact table no longer satisfies its predicate (the hand-written Lean is static)
        errs = re.findall(r'error: (\S+\.lean:\d+:\d+): (.*)', out)
        broken = sorted({e[0] for e in errs})
        ctx.notes.append('lake build failed: ' + out[-4000:])
        ctx.lake_failed = (broken, out)
    else:
        ctx.lake_failed = None
    return True


def audit(ctx):
    if ctx.lake_failed:
        return
    R.axiom_audit(ctx, ctx.prop)
    for name, good, ax in ctx.obligations:
        if not good:
            ctx.violation(f'theorem {name} is not discharged with the allowed axioms (axioms: {ax})',
                          f'theorem {name}\naxioms {ax}\n', no_input=True)


def report_lake_failure(ctx, search=None):
    """The proof obligations over the regenerated tables no longer check. `search` may turn the
    changed rows into a concrete failing input; otherwise: no-failing-input-found."""
    if not ctx.lake_failed:
        return
    broken, out = ctx.lake_failed
    found = search(ctx, out) if search else False
    if not found:
        ctx.violation('proof obligations no longer check: ' + ', '.join(broken or ['lake build']),
                      'lake build RoProps.' + ctx.prop + ' failed\n' + '\n'.join(broken) + '\n\n' + out[-6000:], no_input=True)


# ---------------------------------------------------------------- properties
# one module per property under tools/checks/Cxx.py, each exposing
#   check(ctx) -> dict(rule=..., assumptions=[...], extra={...}, search=fn)   and   MANIFEST = dict(text=, technique=, ref=)

def load_check(prop):
    import importlib
    sys.path.insert(0, os.path.join(os.path.dirname(os.path.abspath(__file__)), 'checks'))
    try:
        return importlib.import_module(prop)
    except ModuleNotFoundError:
        return None


def run(ctx):
    mod = load_check(ctx.prop)
    if mod is None:
        print(f'{ctx.prop}: no check registered')
        return 2
    fn = mod.check
    if not preamble(ctx, race=getattr(mod, 'NEEDS_RACE', False)):
        return 2
    audit(ctx)
    replay_known(ctx)
    info = fn(ctx) or {}
    report_lake_failure(ctx, info.get('search'))
    return R.finish(ctx, rule=info.get('rule', ''), assumptions=info.get('assumptions'), extra=info.get('extra'))


def replay_known(ctx):
    """known_findings.jsonl: each open finding of this property carries a witness `case` line and the
    implementation result that shows the deviation. Still showing it => KNOWN-FINDING line.
    (If the implementation no longer shows it, the correspondence run reports the difference.)"""
    for k in R.load_known(ctx.prop):
        if k.get('status') != 'open':
            continue
        if k.get('case'):
            res = R.replay_cases(ctx, [k['case']], exe=k.get('exe', 'harness'))
            got = ' '.join(res[0][1].split()[2:]) if res else '?'
            if got == k.get('impl'):
                ctx.known.append(f"{k['key']}: {k['what']}")
            else:
                ctx.notes.append(f"known finding {k['key']} no longer reproduces (implementation now gives: {got})")
        else:
            # findings witnessed by a regenerated fact row / theorem are re-derived by the check itself
            ctx.known_static = getattr(ctx, 'known_static', []) + [k]


def replay(ctx, path):
    """re-run the case lines of a replay file on the implementation and the model"""
    if not preamble(ctx):
        return 2
    lines = [l.strip() for l in open(path if os.path.isabs(path) else os.path.join(R.VERIF, path)) if l.startswith('case ')]
    if not lines:
        print(open(path if os.path.isabs(path) else os.path.join(R.VERIF, path)).read())
        print('(no case line in this replay file: it names the theorem / table rows that no longer check)')
        return 1
    bad = 0
    # a check module may say which fields of a result line take part in the comparison (`replay_proj`)
    rproj = getattr(load_check(ctx.prop), 'replay_proj', None)
    for c, g, l in R.replay_cases(ctx, lines):
        print(c)
        print('  implementation:', g)
        print('  model/spec:    ', l)
        if rproj is not None:
            if rproj(R.parse_res(g)) != rproj(R.parse_res(l)):
                bad += 1
        elif R.parse_res(g).get('_raw', '').split()[2:] != R.parse_res(l).get('_raw', '').split()[2:]:
            bad += 1
    print('differs' if bad else 'agrees')
    return 1 if bad else 0

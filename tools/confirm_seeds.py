#!/usr/bin/env python3
"""Confirm seeded changes produced by independent sub-agents (in /tmp/seed_out/<Cxx>/<A|B>) in their scratch
worktrees /tmp/wt/<Cxx>: the patch applies, the tree builds, the pinned baseline still passes, the demonstration
fails with the patch and passes without it. Writes /tmp/seed_confirm.json; confirmed seeds are copied to
/verif/seeded/<Cxx>-<A|B>/ (patch.diff, demonstration, meta.json with what was run)."""
import json, os, re, shutil, subprocess, sys
from concurrent.futures import ThreadPoolExecutor
ENV = dict(os.environ, GOFLAGS='', GOPROXY='off', GOSUMDB='off', GOTOOLCHAIN='local')
OUT = os.environ.get('SEED_OUT', '/tmp/seed_out')
WT = os.environ.get('SEED_WT', '/tmp/wt')
VARIANTS = os.environ.get('SEED_VARIANTS', 'A,B').split(',')
VERIF = os.path.dirname(os.path.dirname(os.path.abspath(__file__)))

def sh(cmd, cwd, timeout=900):
    p = subprocess.run(cmd, cwd=cwd, shell=True, env=ENV, capture_output=True, text=True, timeout=timeout)
    return p.returncode, p.stdout + p.stderr

def demo_result(out):
    if re.search(r'--- FAIL|^FAIL\b|\nFAIL\b|panic:|DATA RACE|exit status [1-9]', out, re.M):
        return 'fail'
    if re.search(r'^ok\s|\nok\s|PASS', out, re.M):
        return 'pass'
    return 'unknown'

def one(prop):
    wt = f'{WT}/{prop}'
    res = {}
    for v in VARIANTS:
        d = f'{OUT}/{prop}/{v}'
        if not os.path.exists(f'{d}/patch.diff'):
            res[v] = {'status': 'missing'}
            continue
        r = {}
        sh('git checkout -- . && git clean -fdq', wt)
        demo = open(f'{d}/demo_cmd.txt').read()
        script = f'cd {wt}\n' + demo
        open(f'{d}/_demo.sh', 'w').write(script)
        rc, o = sh(f'bash {d}/_demo.sh', wt)
        r['demo_without_patch'] = demo_result(o)
        sh('git checkout -- . && git clean -fdq', wt)
        rc, o = sh(f'git apply {d}/patch.diff', wt)
        r['applies'] = rc == 0
        if rc == 0:
            files = subprocess.run('git diff --name-only', cwd=wt, shell=True, capture_output=True, text=True).stdout.split()
            r['files'] = files
            mods = set()
            for f in files:
                p = os.path.dirname(f)
                while p and not os.path.exists(os.path.join(wt, p, 'go.mod')):
                    p = os.path.dirname(p)
                mods.add(p or '.')
            rc, o = sh('python3 /tmp/seedtools/baseline_check.py ' + wt + ' ' + ' '.join(sorted(mods)), wt, timeout=2400)
            r['baseline'] = (rc == 0)
            r['baseline_out'] = o.strip().splitlines()[-3:]
            rc, o = sh(f'bash {d}/_demo.sh', wt)
            r['demo_with_patch'] = demo_result(o)
            r['demo_with_patch_tail'] = o.strip().splitlines()[-6:]
        sh('git checkout -- . && git clean -fdq', wt)
        r['confirmed'] = bool(r.get('applies') and r.get('baseline') and r.get('demo_with_patch') == 'fail' and r.get('demo_without_patch') == 'pass')
        res[v] = r
        if r['confirmed']:
            dst = f'{VERIF}/seeded/{prop}-{v}'
            os.makedirs(dst, exist_ok=True)
            for fn in os.listdir(d):
                if fn.startswith('_') or fn == 'baseline.log':
                    continue
                shutil.copy(os.path.join(d, fn), os.path.join(dst, fn))
            try:
                meta = json.load(open(f'{d}/meta.json'))
            except Exception:
                meta = {}
            meta['confirmed_by_integrator'] = {'worktree': wt, 'applies': True, 'baseline_modules': sorted(mods), 'baseline_passed': True,
                                               'demo_with_patch': 'fail', 'demo_without_patch': 'pass', 'ran': 'tools/confirm_seeds.py'}
            json.dump(meta, open(f'{dst}/meta.json', 'w'), indent=1)
    return prop, res

props = sys.argv[1:] or sorted(os.listdir(OUT))
with ThreadPoolExecutor(max_workers=3) as ex:
    allres = dict(ex.map(one, [p for p in props if re.match(r'^C\d\d$', p)]))
json.dump(allres, open(os.environ.get('SEED_JSON', '/tmp/seed_confirm.json'), 'w'), indent=1)
for p, r in sorted(allres.items()):
    for v, x in sorted(r.items()):
        print(p, v, 'CONFIRMED' if x.get('confirmed') else 'NOT', {k: x.get(k) for k in ('applies', 'baseline', 'demo_with_patch', 'demo_without_patch')})

"""C02 (b): chains — table theorem RoProps/C02b + the overlap search. Used by tools/checks/C02.py."""
import runner as R
from props import *

LEAN_MODULES = ['C02b']


def dynamic_overlap2(ctx, rows):
    """the C02b table decision failed: if the overlap2 run of this check observed an overlap below one of the
    operators whose rows the model now marks may-overlap, that run is the failing input"""
    may = getattr(ctx, 'overlap2_may', [])
    if not may:
        return False
    names = ', '.join(sorted({n for n, _ in rows}))
    may = [m for m in may if any(n in m[0] for n, _ in rows)] or may     # prefer a run below one of the offending rows
    c, g, l = may[0]
    ctx.violation(f'C02: regenerated fact rows violate the predicate ({names}) and the callbacks of one observer overlap (max inside = {R.parse_res(g).get("maxinside")}) '
                  f'with every input driven from its own goroutine ({len(may)} set-ups)',
                  '# proof obligation over the regenerated table RoGen.Catalogue no longer holds (RoProps/C02b): ' + '; '.join(f'{n}: {why}' for n, why in rows) +
                  f'\n# concrete run: raw observer with an inside counter, every input of the operator pumped from a goroutine of its own\n{c}\n# implementation: {g}\n# model: {l}\n')
    return True


def parts(ctx):
    rows = R.run_kind(ctx, 'overlap', shards=4)
    confirmed = 0
    ctx.overlap2_may = []
    for c, g, l in rows:
        ctx.evaluations += 1
        gd, ld = R.parse_res(g), R.parse_res(l)
        ctx.distinct.add(c.split(' ', 2)[2])
        if len(ctx.samples) < 3:
            ctx.samples.append({'case': c, 'impl': g, 'model': l})
        if flag(gd) or flag(ld):
            ctx.violation('C02 overlap run could not be evaluated', f'{c}\n# implementation: {g}\n# model: {l}\n', no_input=True)
            continue
        if ld.get('expect') == 'serialized' and gd.get('observed') != 'serialized':
            ctx.violation(f"C02: callbacks of one observer overlap (max inside = {gd.get('maxinside')}) in a chain the model proves serialized",
                          f'# Merge of 3 goroutine-driven sources |> {c}\n{c}\n# implementation: {g}\n# model: {l}\n')
        else:
            ctx.traces_validated += 1
            if ld.get('expect') == 'may-overlap' and gd.get('observed') == 'overlap':
                confirmed += 1
                ctx.overlap2_may.append((c, g, l))
    # every multi-feeder operator with all its inputs driven from goroutines of their own (kind=overlap2): the
    # model's expectation comes from the regenerated rows; an overlap where the rows say may-overlap is the
    # concrete input for a failed table decision (recorded for the search below)
    for c, g, l in R.run_kind(ctx, 'overlap2', shards=6):
        ctx.evaluations += 1
        gd, ld = R.parse_res(g), R.parse_res(l)
        ctx.distinct.add(c.split(' ', 2)[2])
        if flag(gd) or flag(ld):
            ctx.violation('C02 overlap2 run could not be evaluated', f'{c}\n# implementation: {g}\n# model: {l}\n', no_input=True)
        elif ld.get('expect') == 'serialized' and gd.get('observed') != 'serialized':
            ctx.violation(f"C02: callbacks of one observer overlap (max inside = {gd.get('maxinside')}) below an operator the model proves serialized",
                          f'# every input of the operator is driven from a goroutine of its own; raw observer with an inside counter\n{c}\n# implementation: {g}\n# model: {l}\n')
        else:
            ctx.traces_validated += 1
            if ld.get('expect') == 'may-overlap' and gd.get('observed') == 'overlap':
                ctx.overlap2_may.append((c, g, l))
    # the library's own sources and the context operators, context cancelled while a callback runs (kind=overlap3)
    for c, g, l in R.run_kind(ctx, 'overlap3', shards=4):
        ctx.evaluations += 1
        gd, ld = R.parse_res(g), R.parse_res(l)
        ctx.distinct.add(c.split(' ', 2)[2])
        if flag(gd) or flag(ld):
            ctx.violation('C02 overlap3 run could not be evaluated', f'{c}\n# implementation: {g}\n# model: {l}\n', no_input=True)
        elif ld.get('expect') == 'serialized' and gd.get('observed') != 'serialized':
            ctx.violation(f"C02: callbacks of one observer overlap (max inside = {gd.get('maxinside')}) on a source of the library whose subscription context is cancelled during a callback",
                          f'# raw observer with an inside counter; the context is cancelled while the first value callback runs\n{c}\n# implementation: {g}\n# model: {l}\n')
        else:
            ctx.traces_validated += 1
            if ld.get('expect') == 'may-overlap' and gd.get('observed') == 'overlap':
                ctx.overlap2_may.append((c, g, l))
    # (c) subjects under several producer goroutines, observed directly and through the unsafe pass-throughs
    uni = 0
    for c, g, l in R.run_kind(ctx, 'subjoverlap', shards=4):
        ctx.evaluations += 1
        gd, ld = R.parse_res(g), R.parse_res(l)
        ctx.distinct.add(c.split(' ', 2)[2])
        if flag(gd) or flag(ld):
            ctx.violation('C02 subject overlap run could not be evaluated', f'{c}\n# implementation: {g}\n# model: {l}\n', no_input=True)
        elif gd.get('grammar') != 'ok' and ld.get('expect') == 'serialized':
            ctx.violation('C01/C02: a subscriber of a subject received a notification after its terminal', f'{c}\n# implementation: {g}\n# model: {l}\n')
        elif ld.get('expect') == 'serialized' and gd.get('observed') != 'serialized':
            ctx.violation(f"C02: callbacks of one subscriber of a subject overlap (max inside = {gd.get('maxinside')})", f'{c}\n# implementation: {g}\n# model: {l}\n')
        else:
            ctx.traces_validated += 1
            if ld.get('expect') == 'may-overlap' and gd.get('observed') == 'overlap':
                uni += 1
    if uni:
        ctx.notes.append(f'unicast subject observed through an unsafe pass-through: overlap seen in {uni} set-ups (same root cause as the unsafe pass-through finding: NewSubscriber reuses the non-locking subscriber and unicast delivers outside its mutex)')
    # the static known finding, re-derived from the regenerated table on every run
    for r in catalogue():
        if r['PassThrough'] and not serialized(r) and r['Name'] in KNOWN_UNSAFE_PASSTHROUGH:
            ctx.known.append(f"op={r['Name']} ctor=unsafe passThrough: hands its own non-locking subscriber upstream ({r['File']}:{r['Line']}); "
                             f"directly downstream of a multi-source operator the observer's callbacks overlap (Lean: unsafe_passthrough_witness)")
    ctx.notes.append(f'overlap observed on the implementation in {confirmed} chains the model marks may-overlap (dynamic confirmation of the known finding)')
    return dict(rule_part='Merge of 3 goroutine-driven sources |> each operator / random chains of 2-3 operators into a raw observer with an inside counter; '
                          'model verdict from emitMode over the regenerated rows; kind=overlap2: 23 multi-feeder set-ups (notifier / boundary / second source / inner observables / multi-source fallbacks / timers) x {second input completes, fails} with every input pumped from its own goroutine; kind=overlap3: 10 sources of the library / context operators with the subscription context cancelled while the first value callback runs',
                search=table_search('C02', dynamic_overlap2))

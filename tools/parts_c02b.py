"""C02 (b): chains — table theorem RoProps/C02b + the overlap search. Used by tools/checks/C02.py."""
import runner as R
from props import *

LEAN_MODULES = ['C02b']


def parts(ctx):
    rows = R.run_kind(ctx, 'overlap', shards=4)
    confirmed = 0
    for c, g, l in rows:
        ctx.evaluations += 1
        gd, ld = R.parse_res(g), R.parse_res(l)
        ctx.distinct.add(c.split(' ', 2)[2])
        if len(ctx.samples) < 3:
            ctx.samples.append({'case': c, 'impl': g, 'model': l})
        if flag(gd) or flag(ld):
            ctx.violation('C02 overlap run could not be evaluated', f'{c}\n# implementation: {g}\n# model: {l}\n', no_input=True)
            continue
        if ld.get('expect') == 'serialized' and gd.get('observed') != 'serialized':
            ctx.violation(f"C02: callbacks of one observer overlap (max inside = {gd.get('maxinside')}) in a chain the model proves serialized",
                          f'# Merge of 3 goroutine-driven sources |> {c}\n{c}\n# implementation: {g}\n# model: {l}\n')
        else:
            ctx.traces_validated += 1
            if ld.get('expect') == 'may-overlap' and gd.get('observed') == 'overlap':
                confirmed += 1
    # (c) subjects under several producer goroutines, observed directly and through the unsafe pass-throughs
    uni = 0
    for c, g, l in R.run_kind(ctx, 'subjoverlap', shards=4):
        ctx.evaluations += 1
        gd, ld = R.parse_res(g), R.parse_res(l)
        ctx.distinct.add(c.split(' ', 2)[2])
        if flag(gd) or flag(ld):
            ctx.violation('C02 subject overlap run could not be evaluated', f'{c}\n# implementation: {g}\n# model: {l}\n', no_input=True)
        elif gd.get('grammar') != 'ok' and ld.get('expect') == 'serialized':
            ctx.violation('C01/C02: a subscriber of a subject received a notification after its terminal', f'{c}\n# implementation: {g}\n# model: {l}\n')
        elif ld.get('expect') == 'serialized' and gd.get('observed') != 'serialized':
            ctx.violation(f"C02: callbacks of one subscriber of a subject overlap (max inside = {gd.get('maxinside')})", f'{c}\n# implementation: {g}\n# model: {l}\n')
        else:
            ctx.traces_validated += 1
            if ld.get('expect') == 'may-overlap' and gd.get('observed') == 'overlap':
                uni += 1
    if uni:
        ctx.notes.append(f'unicast subject observed through an unsafe pass-through: overlap seen in {uni} set-ups (same root cause as the unsafe pass-through finding: NewSubscriber reuses the non-locking subscriber and unicast delivers outside its mutex)')
    # the static known finding, re-derived from the regenerated table on every run
    for r in catalogue():
        if r['PassThrough'] and not serialized(r) and r['Name'] in KNOWN_UNSAFE_PASSTHROUGH:
            ctx.known.append(f"op={r['Name']} ctor=unsafe passThrough: hands its own non-locking subscriber upstream ({r['File']}:{r['Line']}); "
                             f"directly downstream of a multi-source operator the observer's callbacks overlap (Lean: unsafe_passthrough_witness)")
    ctx.notes.append(f'overlap observed on the implementation in {confirmed} chains the model marks may-overlap (dynamic confirmation of the known finding)')
    return dict(rule_part='Merge of 3 goroutine-driven sources |> each operator / random chains of 2-3 operators into a raw observer with an inside counter; '
                          'model verdict from emitMode over the regenerated rows',
                search=table_search('C02'))

#!/usr/bin/env python3
"""Mutation self-tests of the operator translator tie (docs/opgen.md).
Each mutation is applied to a scratch worktree of the pinned repository (created here, removed at
the end), the check is pointed at it through VERIF_REPO, and must exit 1 naming the operator
(`rename-only` is the harmless control: must exit 0).
usage: tools/opgen_selftest.py [-p C04_gen|C04] [-v] [mutation …]"""
import os, re, subprocess, sys
V = os.path.dirname(os.path.dirname(os.path.abspath(__file__)))
RW = '/tmp/rw/opgen-selftest'
T = '\t'
MUTS = {
 # name: (file, old, new, operator expected in the report, expect a concrete failing input?)
 'take-ge-gt': ('operator_filter.go', 'if index >= count {\n' + T*7 + 'destination.CompleteWithContext(ctx)', 'if index > count {\n' + T*7 + 'destination.CompleteWithContext(ctx)', 'Take', True),
 'skip-ge-gt': ('operator_filter.go', 'if index >= count {\n' + T*7 + 'destination.NextWithContext(ctx, value)', 'if index > count {\n' + T*7 + 'destination.NextWithContext(ctx, value)', 'Skip', True),
 'filter-wrong-ctx': ('operator_filter.go', 'ctx, ok := predicate(ctx, value, i)\n' + T*6 + 'if ok {\n' + T*7 + 'destination.NextWithContext(ctx, value)',
                      'newCtx, ok := predicate(ctx, value, i)\n' + T*6 + '_ = newCtx\n' + T*6 + 'if ok {\n' + T*7 + 'destination.NextWithContext(ctx, value)', 'FilterIWithContext', True),
 'first-no-complete': ('operator_filter.go', 'destination.NextWithContext(currentCtx, value)\n' + T*7 + 'destination.CompleteWithContext(currentCtx)\n', 'destination.NextWithContext(currentCtx, value)\n', 'FirstIWithContext', True),
 'max-drop-first': ('operator_math.go', None, None, 'Max', True),
 'max-gt-ge': ('operator_math.go', 'if first || value > mAx.B {', 'if first || value >= mAx.B {', 'Max', True),
 'take-guard': ('operator_filter.go', 'if count < 0 {\n\t\tpanic(ErrTakeWrongCount)', 'if count < -1 {\n\t\tpanic(ErrTakeWrongCount)', 'Take', False),
 'takewhile-loop': ('operator_filter.go', 'destination.CompleteWithContext(currentCtx)\n' + T*8 + 'skipping = true',
                    'for k := 0; k < 1; k++ {\n' + T*9 + 'destination.CompleteWithContext(currentCtx)\n' + T*8 + '}\n' + T*8 + 'skipping = true', 'TakeWhileIWithContext', False),
 'scan-index-late': ('operator_transformations.go', 'ctx, accumulator = reduce(ctx, accumulator, value, i)\n' + T*6 + 'i++', 'i++\n' + T*6 + 'ctx, accumulator = reduce(ctx, accumulator, value, i)', 'ScanIWithContext', True),
 # operators tied by refinement (Machine.Sim)
 'skiplast-lt-le': ('operator_filter.go', 'if size < count {\n' + T*7 + 'buffer[index] = lo.T2(ctx, value)', 'if size <= count {\n' + T*7 + 'buffer[index] = lo.T2(ctx, value)', 'SkipLast', True),
 'takelast-ge-gt': ('operator_filter.go', 'if index >= count {\n' + T*7 + 'buffer = buffer[1:]', 'if index > count {\n' + T*7 + 'buffer = buffer[1:]', 'TakeLast', True),
 'pairwise-gt-ge': ('operator_combining.go', 'if count > 0 {\n' + T*7 + 'destination.NextWithContext(ctx, []T{last, value})', 'if count >= 0 {\n' + T*7 + 'destination.NextWithContext(ctx, []T{last, value})', 'Pairwise', True),
 'throwifempty-eq-ne': ('operator_error_handling.go', 'if atomic.LoadUint64(&count) == 0 {', 'if atomic.LoadUint64(&count) != 0 {', 'ThrowIfEmpty', True),
 'tomap-index-late': ('operator_sink.go', 'k, v := mapper(ctx, value, i)\n' + T*6 + 'i++', 'i++\n' + T*6 + 'k, v := mapper(ctx, value, i)', 'ToMapIWithContext', False),
 'cast-swallow': ('operator_transformations.go', 'destination.ErrorWithContext(ctx, newCastError[T, U]())', 'destination.CompleteWithContext(ctx)', 'Cast', True),
 'rename-only': ('operator_filter.go', None, None, None, False),
}


def mutate(name):
    f, a, b, _, _ = MUTS[name]
    p = os.path.join(RW, f)
    s = open(p).read()
    if name == 'max-drop-first':      # Max without its `first` flag at all
        blk = s[s.index('func Max['):s.index('func Clamp[')]
        nb = blk.replace(T*3 + 'first := true\n\n', '').replace('first || ', '').replace(T*7 + 'first = false\n', '')
        assert nb != blk and 'first' not in nb
        s = s.replace(blk, nb)
    elif name == 'rename-only':       # harmless: rename Skip's counter
        blk = s[s.index('func Skip['):s.index('func SkipWhile[')]
        s = s.replace(blk, blk.replace('index', 'seenSoFar'))
    else:
        assert s.count(a) == 1, (name, s.count(a))
        s = s.replace(a, b)
    open(p, 'w').write(s)


def main(argv):
    prop, verbose = 'C04_gen', False
    names = []
    it = iter(argv)
    for a in it:
        if a == '-p':
            prop = next(it)
        elif a == '-v':
            verbose = True
        else:
            names.append(a)
    subprocess.run(['git', '-C', '/repo', 'worktree', 'remove', '--force', RW], capture_output=True)
    os.makedirs(os.path.dirname(RW), exist_ok=True)
    subprocess.run(['git', '-C', '/repo', 'worktree', 'add', '--detach', RW], check=True, capture_output=True)
    env = dict(os.environ, GOFLAGS='', GOPROXY='off', GOSUMDB='off', GOTOOLCHAIN='local')
    bad = 0
    try:
        for n in names or list(MUTS):
            subprocess.run(['git', '-C', RW, 'checkout', '-q', '.'], check=True)
            mutate(n)
            r = subprocess.run(['./check', prop, 'quick'], cwd=V, env=dict(env, VERIF_REPO=RW), capture_output=True, text=True)
            _, _, _, op, concrete = MUTS[n]
            replays = re.findall(r'replay=(\S+)( no-failing-input-found)?', r.stdout)
            text = ''.join(open(os.path.join(V, p)).read() for p, _ in replays)
            if op is None:
                ok = r.returncode == 0
            else:
                ok = r.returncode == 1 and f'`{op}`' in text and (any(not nf for _, nf in replays) if concrete else True)
            bad += not ok
            print(f"{'ok  ' if ok else 'FAIL'} {n}: exit {r.returncode}" + (f", names {op}" if op and f'`{op}`' in text else '') +
                  (', concrete failing input' if any(not nf for _, nf in replays) else (', no-failing-input-found' if replays else '')))
            if verbose or not ok:
                print(r.stdout[-1500:])
                print(text[:2500])
    finally:
        subprocess.run(['git', '-C', '/repo', 'worktree', 'remove', '--force', RW], capture_output=True)
        # leave lean/RoGen regenerated from the pinned tree
        subprocess.run(['python3', os.path.join(V, 'tools', 'opgen_snapshot.py'), '--check'], env=env, capture_output=True)
    return 1 if bad else 0


if __name__ == '__main__':
    sys.exit(main(sys.argv[1:]))

#!/usr/bin/env python3
"""Rewrite the table of DESIGN.md section 0.1 from the committed quick-tier evidence (evidence/Cxx.json) and the check modules."""
import json, os, re, sys, importlib
VERIF = os.path.dirname(os.path.dirname(os.path.abspath(__file__)))
sys.path.insert(0, os.path.join(VERIF, 'tools')); sys.path.insert(0, os.path.join(VERIF, 'tools', 'checks'))
p = os.path.join(VERIF, 'DESIGN.md')
s = open(p).read()
a0 = s.index('| property | Lean property modules')
old_notes = dict(re.findall(r'^\| (C\d\d) \|.*\| ([^|]*) \|$', s[a0:s.index('\n\n', a0)], re.M))
rows = ['| property | Lean property modules (audited on every run) | theorems discharged | cases compared (quick) | open known findings | quick wall time | slice notes |', '|---|---|---|---|---|---|---|']
for i in range(1, 21):
    pid = 'C%02d' % i
    e = json.load(open(os.path.join(VERIF, 'evidence', pid + '.json')))
    c = e['coverage']
    mods = re.findall(r'lake env lean RoProps/(\w+)\.lean', c.get('checker_cmd', ''))
    mods = list(dict.fromkeys(mods))
    rows.append(f"| {pid} | {', '.join('RoProps.' + m for m in mods)} | {c['discharged']}/{c['obligations']} | {c['evaluations']:,} | {len(c.get('known_findings_replayed', []))} | {round(e['wall_s'])} s | {old_notes.get(pid, '-').strip()} |")
a = s.index('| property | Lean property modules')
b = s.index('\n\n', a)
s = s[:a] + '\n'.join(rows) + s[b:]
open(p, 'w').write(s)
print('\n'.join(rows))

#!/usr/bin/env python3
"""merge_slice.py <branch>: merge a slice branch into main, resolving the mechanical conflicts:
MANIFEST.json / evidence (ours, regenerated afterwards), lean/RoModel/Driver.lean (union of imports and handlers)."""
import re, subprocess, sys, os
VERIF = os.path.dirname(os.path.dirname(os.path.abspath(__file__)))
br = sys.argv[1]
def git(*a, check=False):
    return subprocess.run(['git', '-C', VERIF] + list(a), capture_output=True, text=True, check=check)
r = git('merge', '--no-commit', '--no-ff', br)
print(r.stdout[-1500:], r.stderr[-500:])
conf = git('diff', '--name-only', '--diff-filter=U').stdout.split()
for f in conf:
    if f == 'MANIFEST.json' or f.startswith('evidence/') or f == '.gitignore':
        git('checkout', '--ours', f); git('add', f)
    elif f == 'lean/RoModel/Driver.lean':
        ours = git('show', ':2:' + f).stdout
        theirs = git('show', ':3:' + f).stdout
        imps = [l for l in ours.splitlines() if l.startswith('import ')]
        for l in theirs.splitlines():
            if l.startswith('import ') and l not in imps:
                imps.append(l)
        hre = re.compile(r'^\s*\("([^"]+)",\s*([^)]+)\),?\s*$')
        hs = []
        for src in (ours, theirs):
            for l in src.splitlines():
                m = hre.match(l)
                if m and (m.group(1), m.group(2).strip()) not in hs:
                    hs.append((m.group(1), m.group(2).strip()))
        body = ours
        body = re.sub(r'(?m)^import .*\n', '', body)
        head_end = body.index('namespace Ro.Driver')
        pre = body[:head_end]
        # keep the leading comment, then imports
        m = re.match(r'(?s)(/-.*?-/\n)(.*)', pre)
        comment, rest = (m.group(1), m.group(2)) if m else ('', pre)
        new_handlers = 'def handlers : List (String × (Case → String)) := [\n' + ',\n'.join(f'  ("{k}", {v})' for k, v in hs) + '\n]'
        body2 = re.sub(r'(?s)def handlers : List \(String × \(Case → String\)\) := \[.*?\n\]', new_handlers, body[head_end:])
        open(os.path.join(VERIF, f), 'w').write(comment + '\n'.join(imps) + '\n' + rest.lstrip('\n') + body2)
        git('add', f)
    else:
        print('UNRESOLVED:', f)
left = git('diff', '--name-only', '--diff-filter=U').stdout.split()
print('left unresolved:', left)

#!/usr/bin/env python3
"""Run the pinned baseline (stable_pass of /root/.vp/BASELINE.json) on a tree.
usage: baseline_check.py <repo-root> [module-dir ...]   (module dirs relative to root; default: all modules of go.work)
exit 0 iff every stable_pass test of the packages that were run passed."""
import json, os, re, subprocess, sys
root = os.path.abspath(sys.argv[1])
mods = sys.argv[2:]
if not mods:
    mods = []
    for line in open(os.path.join(root, 'go.work')):
        line = line.split('//')[0].strip()
        m = re.match(r'^(?:use\s+)?(\./\S*|\.)$', line)
        if m and not m.group(1).startswith('./examples'):
            mods.append(m.group(1))
base = json.load(open('/root/.vp/BASELINE.json'))
stable = set(base['stable_pass'])
env = dict(os.environ, GOFLAGS='', GOPROXY='off', GOSUMDB='off', GOTOOLCHAIN='local')
passed, pkgs, buildfail = set(), set(), []
for m in mods:
    d = os.path.join(root, m)
    p = subprocess.run(['go', 'test', '-json', '-vet=off', '-count=1', '-timeout', '25m', './...'], cwd=d, env=env, capture_output=True, text=True)
    for line in p.stdout.splitlines():
        try: ev = json.loads(line)
        except Exception: continue
        if ev.get('Package'): pkgs.add(ev['Package'])
        if ev.get('Action') == 'pass' and ev.get('Test'):
            passed.add(ev['Package'] + '::' + ev['Test'])
        if ev.get('Action') == 'fail' and not ev.get('Test') and 'build failed' in (ev.get('Output') or ''):
            buildfail.append(ev['Package'])
    if p.returncode != 0 and 'build failed' in p.stdout + p.stderr:
        buildfail.append(m)
want = {t for t in stable if t.split('::')[0] in pkgs}
missing = sorted(want - passed)
# timing-based tests flake under load: re-run the missing ones alone, up to twice
for _ in range(2):
    if not missing or buildfail: break
    bypkg = {}
    for t in missing:
        pk, name = t.split('::'); bypkg.setdefault(pk, set()).add(name.split('/')[0])
    for pk, names in bypkg.items():
        p = subprocess.run(['go', 'test', '-json', '-vet=off', '-count=1', '-run', '^(' + '|'.join(sorted(names)) + ')$', pk], cwd=root, env=env, capture_output=True, text=True)
        for line in p.stdout.splitlines():
            try: ev = json.loads(line)
            except Exception: continue
            if ev.get('Action') == 'pass' and ev.get('Test'):
                passed.add(ev['Package'] + '::' + ev['Test'])
    missing = sorted(want - passed)
print(f'modules={len(mods)} packages={len(pkgs)} baseline_tests_in_scope={len(want)} passed_of_those={len(want)-len(missing)}')
if buildfail: print('BUILD FAILED:', sorted(set(buildfail)))
for t in missing[:50]: print('MISSING', t)
sys.exit(1 if missing or buildfail else 0)

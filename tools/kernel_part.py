"""The concurrent-kernel part shared by C01(b), C02(a), C03 and C06 (docs/kernel.md).

   kernel_part(ctx, prop=None, lean_module=None)

* (F) the theorems of RoProps/C0{1b,2,3,6}.lean are about `Kernel.Expected.table`; RoProps/KernelTie.lean
  decides that it equals `RoGen.Kernel.table`, regenerated from subscriber.go / subscription.go /
  observer.go / internal/xsync/mutex.go by go/extract on this run. The property module is built by the
  common preamble; for C01 (whose module RoProps.C01 does not import the kernel part) pass
  lean_module='C01b' to build and audit it here.
* (K) harness kind `kernel`: one-thread scripts — implementation log must equal the model log exactly;
  2-4 goroutines with yields — the log predicates of the property evaluated on the recorded log
  (the model side prints the verdict of the same predicates on canonical schedules: always `ok`, which
  the theorems guarantee; so for concurrent cases the comparison is "implementation verdict = ok").
* (X) when the tie no longer checks (lake build of the property module fails), `search` looks for a
  concrete failing input with the thorough kernel scope.
"""
import os, re
import runner as R
from props import *

# for C01: `import kernel_part`, add kernel_part.LEAN_MODULES to the check's LEAN_MODULES and call kernel_part.parts(ctx)
LEAN_MODULES = ['C01b']

# which verdicts of the log predicates belong to which property
VERDICTS = {
    'C01': {'grammar'},
    'C02': {'overlap'},
    'C03': {'fin-twice', 'fin-missing', 'raise-early'},
    'C06': {'delivered-after-close', 'isclosed-false', 'wait-early', 'wait-hang'},
    'C07': {'terminal-lost'},
    # a teardown that was registered (Add returned) on a subscription that got disposed, and never ran: the upstream it stands
    # for is never cancelled although the downstream has ended
    'C14': {'fin-missing'},
}
ALWAYS = {'harness-timeout', 'harness-panic'}


def _verdict(prop, d):
    mine = VERDICTS.get(prop, set())
    v = d.get('verdict', flag(d) or '?')
    if v != 'ok' and v not in mine and not v.startswith('harness'):
        v = 'ok'              # another kernel property's predicate: reported by that property's check
    return v


def _proj_seq(prop):
    # one-thread cases carry the whole log: the model must reproduce it exactly
    return lambda d: (flag(d), d.get('log'), _verdict(prop, d))


def _nontrivial(case, gd):
    return gd.get('log', '-') != '-'


def _is_seq(case):
    return ';' not in case.split('scripts=')[-1].split()[0]


def _run(ctx, prop, tier=None, what='kernel'):
    rows = R.run_kind(ctx, 'kernel', tier=tier)
    # a deadline hit while the machine is overloaded is not evidence: such cases are re-run once, alone
    slow = [i for i, (c, g, l) in enumerate(rows) if 'harness-timeout' in g]
    if slow:
        again = R.replay_cases(ctx, [rows[i][0] for i in slow[:20]])
        for i, (c, g, l) in zip(slow, again):
            rows[i] = (c, g, l)
        dist0 = ctx.dist.setdefault('kernel', {})
        dist0['harness_timeouts_rerun'] = dist0.get('harness_timeouts_rerun', 0) + len(slow)
        dist0['harness_timeouts_persisting'] = dist0.get('harness_timeouts_persisting', 0) + sum(1 for _, g, _ in again if 'harness-timeout' in g)
    seq = [r for r in rows if _is_seq(r[0])]
    conc = [r for r in rows if not _is_seq(r[0])]
    dist = ctx.dist.setdefault('kernel', {})
    dist['sequential_exact_log'] = dist.get('sequential_exact_log', 0) + len(seq)
    dist['concurrent_predicates'] = dist.get('concurrent_predicates', 0) + len(conc)
    for c, g, _ in rows:
        m = re.search(r'\bmode=(\S+)', c)
        k = 'mode_' + (m.group(1) if m else '?')
        dist[k] = dist.get(k, 0) + 1
    before = len(ctx.violations)
    R.compare(ctx, seq, _proj_seq(prop), f'{prop} {what}: subscriber/subscription kernel, one thread, implementation log against model log', nontrivial=_nontrivial)
    # concurrent cases: real schedules are not replayable, so the failing run itself is the evidence
    bad = []
    for c, g, l in conc:
        ctx.evaluations += 1
        gd, ld = R.parse_res(g), R.parse_res(l)
        ctx.distinct.add(c.split(None, 2)[2])
        gv, lv = _verdict(prop, gd), _verdict(prop, ld)
        if gv == lv == 'ok':
            ctx.traces_validated += 1
        else:
            bad.append((c, g, l, gv))
    if bad:
        kinds = sorted({b[3] for b in bad})
        c, g, l, gv = min(bad, key=lambda t: len(t[0]))
        cr = re.sub(r'\breps=\d+', 'reps=400', c)
        ctx.violation(f'{prop} {what}: the real subscriber violates the log predicate(s) {", ".join(kinds)} under concurrent calls ({len(bad)} cases)',
                      f'# {prop}: log predicate "{gv}" fails on the log recorded from the real subscriber (free-running goroutines with yields; the run below is the evidence,\n'
                      f'# a replay re-runs the scripts 400 times and usually, not always, finds it again)\n{cr}\n# implementation: {g}\n# model/spec:     {l}\n')
    return len(ctx.violations) > before


def kernel_part(ctx, prop=None, lean_module=None):
    prop = prop or ctx.prop
    if lean_module:
        ctx.checker_cmds.append(f'cd lean && lake build RoProps.{lean_module}')
        ok, out = R.lake_build(['RoProps.' + lean_module])
        if not ok:
            broken = sorted({e[0] for e in re.findall(r'error: (\S+\.lean:\d+:\d+): (.*)', out)})
            ctx.notes.append('lake build failed: ' + out[-3000:])
            if not getattr(ctx, 'lake_failed', None):
                ctx.lake_failed = (broken, out)
        else:
            n0 = len(ctx.obligations)
            R.axiom_audit(ctx, lean_module)
            for name, good, ax in ctx.obligations[n0:]:
                if not good:
                    ctx.violation(f'theorem {name} is not discharged with the allowed axioms (axioms: {ax})', f'theorem {name}\naxioms {ax}\n', no_input=True)
    found = _run(ctx, prop)
    ctx.kernel_found = found

    def search(ctx2, out):
        """the tie (F) broke: the kernel methods are no longer the programs the theorems are about"""
        if 'Kernel' not in out and 'kernel' not in out:
            return False
        if getattr(ctx2, 'kernel_found', False):
            return True
        return _run(ctx2, prop, tier='thorough', what='kernel (search after the program tie broke)')

    return dict(
        search=search,
        rule='kind=kernel: corpus of races + every one-thread script over {N,E,C,U,A,A!,Q,W} up to length 3 (quick) / 5 (thorough) x 3 modes '
             '(+ nil destination) + seeded longer scripts: implementation log = model log exactly; 2-4 goroutines x seeded scripts x reps with '
             'yields: log predicates (no overlap, grammar, finalizers once / all at the end, raise after loop, nothing delivered for calls begun '
             'after a closing call returned, IsClosed true afterwards, Wait returns only when closed) on the recorded log; '
             'tie (F): RoGen.Kernel.table = Kernel.Expected.table decided by the Lean kernel on this run',
        assumptions=['destination callbacks and teardowns do not call back into the same subscriber and the destination does not panic (C07 covers panicking observers)',
                     'sync.Mutex / atomic.LoadInt32 / CompareAndSwapInt32 / a capacity-1 channel behave as in the Go memory model (sequentially consistent atomics, mutual exclusion)',
                     'concurrent schedules of the real subscriber are sampled (stress with yields), not enumerated: for them the tie is program equality (F), the stress run is a search'],
        extra={'distribution': ctx.dist})


def parts(ctx):
    """the C01(b) part, for tools/checks/C01.py (its LEAN_MODULES must include kernel_part.LEAN_MODULES;
    when it does not, pass lean_module='C01b' to kernel_part instead)"""
    return kernel_part(ctx, 'C01')

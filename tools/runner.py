"""Orchestration shared by every property check (see ../check)."""
import fcntl, hashlib, json, os, re, shutil, subprocess, sys, time
from concurrent.futures import ThreadPoolExecutor

VERIF = os.path.dirname(os.path.dirname(os.path.abspath(__file__)))
REPO = os.environ.get('VERIF_REPO', '/repo')
LEAN = os.path.join(VERIF, 'lean')
GO = os.path.join(VERIF, 'go')
NCPU = os.cpu_count() or 4
ALLOWED_AXIOMS = {'propext', 'Classical.choice', 'Quot.sound'}
# extra build tags tried for the harness: `promhook` = ee/plugins/prometheus carries VerifSetLicenseBypass
# (repo_hooks/prometheus_license.patch); without it kind=prom covers the licence-off half only
OPTIONAL_TAGS = ['promhook']
GOENV = dict(os.environ, GOFLAGS='', GOPROXY='off', GOSUMDB='off', GOTOOLCHAIN='local', GOWORK=os.path.join(GO, 'go.work'))

TRUSTED_BASE = [
    "Lean 4.33.0 kernel; axioms limited to propext, Classical.choice, Quot.sound (audited by #print axioms on every run); no native_decide, no bv_decide, no sorry",
    "go/extract: the Go AST fact extractor that regenerates lean/RoGen/*.lean from /repo on every run (unknown constructs become failing rows)",
    "go/harness + lean driver: probe sources, recording observer, canonical rendering, line protocol; the diff of the two result streams",
    "modelled, not verified: sync.Mutex / atomics / channels (textbook semantics), timers fire no earlier than asked, context as marker set, lo.TryCatchWithErrorValue as recover",
]


class Ctx:
    """one run of one property check"""
    def __init__(self, prop, tier, seed):
        self.prop, self.tier, self.seed = prop, tier, seed
        self.work = os.path.join(VERIF, 'work', f'{prop}-{tier}')
        shutil.rmtree(self.work, ignore_errors=True)
        os.makedirs(self.work, exist_ok=True)
        self.t0 = time.time()
        self.violations = []       # (message, replay path, no_input_found)
        self.known = []            # KNOWN-FINDING lines
        self.evaluations = 0
        self.distinct = set()
        self.samples = []
        self.traces_validated = 0
        self.obligations = []      # (name, discharged?, axioms)
        self.notes = []
        self.dist = {}
        self.checker_cmds = []

    def violation(self, msg, replay_text, no_input=False):
        os.makedirs(os.path.join(VERIF, 'replays'), exist_ok=True)
        h = hashlib.sha1(replay_text.encode()).hexdigest()[:10]
        path = os.path.join('replays', f'{self.prop}-{h}.txt')
        with open(os.path.join(VERIF, path), 'w') as f:
            f.write(replay_text if replay_text.endswith('\n') else replay_text + '\n')
        self.violations.append((msg, path, no_input))


def sh(cmd, cwd=None, env=None, timeout=None, inp=None):
    p = subprocess.run(cmd, cwd=cwd, env=env, capture_output=True, text=True, timeout=timeout, input=inp)
    return p.returncode, p.stdout, p.stderr


class Lock:
    def __init__(self, name):
        os.makedirs(os.path.join(VERIF, 'work'), exist_ok=True)
        self.path = os.path.join(VERIF, 'work', name + '.lock')
    def __enter__(self):
        self.f = open(self.path, 'w')
        fcntl.flock(self.f, fcntl.LOCK_EX)
    def __exit__(self, *a):
        fcntl.flock(self.f, fcntl.LOCK_UN)
        self.f.close()


# ---------------------------------------------------------------- Go side

def write_gowork():
    """go/go.work mirrors REPO/go.work with absolute paths (so the harness always builds
    against the working tree that is being checked) plus our two modules."""
    out = []
    for line in open(os.path.join(REPO, 'go.work')):
        line = line.rstrip('\n')
        m = re.match(r'^(\s*)(use\s+)?(\./\S*|\.)\s*$', line)
        if m and not line.strip().startswith('//'):
            p = m.group(3)
            ap = REPO if p == '.' else os.path.join(REPO, p[2:])
            out.append(f"{m.group(1)}{m.group(2) or ''}{ap}")
        else:
            out.append(line)
    out += ['use ./harness', 'use ./extract']
    txt = '\n'.join(out) + '\n'
    path = os.path.join(GO, 'go.work')
    if not os.path.exists(path) or open(path).read() != txt:
        open(path, 'w').write(txt)
    shutil.copyfile(os.path.join(REPO, 'go.work.sum'), os.path.join(GO, 'go.work.sum'))


def build_go(race=False):
    """returns (ok, output). Binaries: go/bin/harness[-race], go/bin/extract"""
    with Lock('gobuild'):
        write_gowork()
        os.makedirs(os.path.join(GO, 'bin'), exist_ok=True)
        outs = []
        targets = [('extract', [])]
        targets.append(('harness', ['-tags', 'verif']))
        if race:
            targets.append(('harness-race', ['-tags', 'verif', '-race']))
        for name, flags in targets:
            pkg = './harness' if name.startswith('harness') else './extract'
            rc = 1
            if name.startswith('harness') and OPTIONAL_TAGS:
                # harness files guarded by an optional tag use a hook of the repository that may not
                # be there yet (repo_hooks/*.patch): build with them if that compiles, else without
                f2 = [x if not x.startswith('verif') else x + ',' + ','.join(OPTIONAL_TAGS) for x in flags]
                rc, o, e = sh(['go', 'build'] + f2 + ['-o', os.path.join(GO, 'bin', name), pkg], cwd=GO, env=GOENV, timeout=900)
            if rc != 0:
                rc, o, e = sh(['go', 'build'] + flags + ['-o', os.path.join(GO, 'bin', name), pkg], cwd=GO, env=GOENV, timeout=900)
            outs.append(o + e)
            if rc != 0:
                return False, '\n'.join(outs)
        return True, '\n'.join(outs)


def run_extract(ctx):
    """regenerate lean/RoGen/*.lean from REPO (files rewritten only when their content changes)"""
    exe = os.path.join(GO, 'bin', 'extract')
    rc, o, e = sh([exe, '-repo', REPO, '-out', os.path.join(LEAN, 'RoGen')], cwd=GO, env=GOENV, timeout=600)
    if rc != 0:
        ctx.notes.append('extractor failed: ' + (o + e)[-2000:])
    return rc == 0, o + e


# ---------------------------------------------------------------- Lean side

def lake_build(targets):
    with Lock('lake'):
        rc, o, e = sh(['lake', 'build'] + targets, cwd=LEAN, timeout=3600)
    return rc == 0, o + e


def axiom_audit(ctx, module):
    """Elaborate RoProps/<module>.lean on its own and read the `#print axioms` lines at its end.
    obligations = theorems listed there; discharged = those depending on allowed axioms only."""
    path = os.path.join('RoProps', module + '.lean')
    src = open(os.path.join(LEAN, path)).read()
    body = re.sub(r'/-.*?-/', '', src, flags=re.S)
    body = re.sub(r'--.*', '', body)
    bad = re.findall(r'\b(sorry|admit|native_decide|bv_decide|implemented_by)\b|^axiom\s|\bunsafe\s|maxHeartbeats\s+0', body, flags=re.M)
    cmd = ['lake', 'env', 'lean', path]
    ctx.checker_cmds.append('cd lean && ' + ' '.join(cmd))
    with Lock('lake'):
        rc, o, e = sh(cmd, cwd=LEAN, timeout=1800)
    out = o + e
    wanted = re.findall(r'^#print axioms\s+(\S+)', src, flags=re.M)
    found = {}
    for m in re.finditer(r"'([^']+)' depends on axioms: \[([^\]]*)\]", out, flags=re.S):
        found[m.group(1)] = set(x.strip() for x in m.group(2).replace('\n', ' ').split(',') if x.strip())
    for m in re.finditer(r"'([^']+)' does not depend on any axioms", out):
        found[m.group(1)] = set()
    ok = rc == 0 and not bad
    for name in wanted:
        short = name.split('.')[-1]
        ax = None
        for k, v in found.items():
            if k == name or k.split('.')[-1] == short:
                ax = v
        good = ax is not None and ax <= ALLOWED_AXIOMS and 'sorryAx' not in (ax or set())
        ctx.obligations.append((name, bool(good and ok), sorted(ax) if ax is not None else None))
    if bad:
        ctx.notes.append(f'forbidden token(s) in {path}: {sorted(set(filter(None, sum([list(b) if isinstance(b, tuple) else [b] for b in bad], []))))}')
    if rc != 0:
        ctx.notes.append('lean failed on ' + path + ': ' + out[-3000:])
    return ok, out


def run_driver(cases_path, out_path):
    exe = os.path.join(LEAN, '.lake', 'build', 'bin', 'driver')
    with open(cases_path) as fin, open(out_path, 'w') as fout:
        p = subprocess.run([exe], stdin=fin, stdout=fout, stderr=subprocess.PIPE, text=True, timeout=3600)
    return p.returncode == 0, p.stderr


# ---------------------------------------------------------------- correspondence

def parse_res(line):
    f = line.split()
    d = {'_id': f[1] if len(f) > 1 else '?', '_raw': line}
    for kv in f[2:]:
        if '=' in kv:
            k, v = kv.split('=', 1)
            d[k] = v
        else:
            d['_flag'] = kv
    return d


def case_key(line):
    f = line.split()
    return ' '.join(f[2:])


def run_kind(ctx, kind, extra=None, shards=None, exe='harness', tier=None, timeout=3000):
    """run one harness kind in parallel shards; returns list of (case_line, go_res, lean_res)"""
    shards = shards or min(NCPU, 8)
    tier = tier or ctx.tier
    def one(i):
        cp = os.path.join(ctx.work, f'{kind}.{i}.cases')
        gp = os.path.join(ctx.work, f'{kind}.{i}.go')
        lp = os.path.join(ctx.work, f'{kind}.{i}.lean')
        cmd = [os.path.join(GO, 'bin', exe), kind, '-tier', tier, '-seed', str(ctx.seed), '-shard', f'{i}/{shards}', '-cases', cp, '-res', gp] + (extra or [])
        rc, o, e = sh(cmd, cwd=ctx.work, env=GOENV, timeout=timeout)
        if rc != 0:
            return ('harness-failed', (o + e)[-3000:])
        ok, err = run_driver(cp, lp)
        if not ok:
            return ('driver-failed', err[-3000:])
        return (cp, gp, lp)
    with ThreadPoolExecutor(max_workers=shards) as ex:
        results = list(ex.map(one, range(shards)))
    # a shard that died (killed under memory pressure, or past its deadline on an overloaded machine) is run once more, alone,
    # when the others have finished: only a failure that repeats is reported
    for i, r in enumerate(results):
        if r[0] == 'harness-failed':
            results[i] = one(i)
            dist = ctx.dist.setdefault('shards_rerun', {})
            dist[kind] = dist.get(kind, 0) + 1
    rows = []
    for r in results:
        if r[0] in ('harness-failed', 'driver-failed'):
            ctx.violation(f'{kind}: {r[0]}', f'{kind} {r[0]}\n{r[1]}', no_input=True)
            continue
        cp, gp, lp = r
        cs = open(cp).read().splitlines()
        gs = open(gp).read().splitlines()
        ls = open(lp).read().splitlines()
        if not (len(cs) == len(gs) == len(ls)):
            ctx.violation(f'{kind}: result streams have different lengths ({len(cs)} cases, {len(gs)} go, {len(ls)} lean)',
                          f'{kind}: stream length mismatch\n', no_input=True)
            continue
        rows += list(zip(cs, gs, ls))
        # the streams are in memory now: the files of a thorough run add up to tens of GB over the twenty checks
        for fp in (cp, gp, lp):
            try:
                os.remove(fp)
            except OSError:
                pass
    if not rows and extra and '-only' in extra and not any(r[0] in ('harness-failed', 'driver-failed') for r in results):
        # a filter that matches no case must not pass for a run (C17 claimed `-only Dematerialize` runs that did not exist)
        empty = ctx.dist.setdefault('empty_filters', [])
        empty.append(f'{kind} ' + ' '.join(extra))
        ctx.notes.append(f'kind={kind} {" ".join(extra)}: the filter generated no case')
    return rows


def replay_cases(ctx, case_lines, exe='harness'):
    """run explicit case lines on both sides; returns list of (case, go, lean)"""
    if not case_lines:
        return []
    n = getattr(ctx, '_replay_n', 0) + 1
    ctx._replay_n = n
    cp = os.path.join(ctx.work, f'replay{n}.cases')
    gp = os.path.join(ctx.work, f'replay{n}.go')
    lp = os.path.join(ctx.work, f'replay{n}.lean')
    open(cp, 'w').write('\n'.join(case_lines) + '\n')
    rc, o, e = sh([os.path.join(GO, 'bin', exe), 'replay', '-cases', cp, '-res', gp], cwd=ctx.work, env=GOENV, timeout=60 if len(case_lines) <= 5 else (180 if len(case_lines) <= 50 else 1200))
    if rc != 0:
        return [(c, 'res ? harness-failed', 'res ? -') for c in case_lines]
    run_driver(cp, lp)
    gs = open(gp).read().splitlines()
    ls = open(lp).read().splitlines()
    return list(zip(case_lines, gs, ls))


def shrink(ctx, case_line, differs):
    """greedy shrink of the `src=` script (and numeric parameters) while `differs(go, lean)` holds"""
    cur = case_line
    for _ in range(12):
        f = cur.split()
        cands = []
        for i, kv in enumerate(f):
            if kv.startswith(('src=', 'srcs=')) and kv.split('=', 1)[1] not in ('-', ''):
                key, val = kv.split('=', 1)
                groups = val.split(';')
                for gi, g in enumerate(groups):
                    toks = g.split(',') if g not in ('-', '') else []
                    for j in range(len(toks)):
                        nt = toks[:j] + toks[j + 1:]
                        ng = groups[:gi] + [','.join(nt) if nt else '-'] + groups[gi + 1:]
                        cands.append(' '.join(f[:i] + [key + '=' + ';'.join(ng)] + f[i + 1:]))
        if not cands:
            break
        # cut positions may exceed the shorter script; harmless on both sides
        res = replay_cases(ctx, cands)
        nxt = None
        for c, g, l in res:
            if differs(g, l):
                nxt = c
                break
        if nxt is None:
            break
        cur = nxt
    return cur


def _rerun_ok(ctx):
    """re-runs of single cases are for scheduler noise; a change that hangs everywhere must not turn a check into an hour of 60-second
    re-runs: at most 24 per check, and none once 6 of them have themselves hit the deadline"""
    n = getattr(ctx, '_reruns', 0)
    if n >= 24 or getattr(ctx, '_reruns_dead', 0) >= 6:
        return False
    ctx._reruns = n + 1
    return True


def _rerun(ctx, c):
    res = replay_cases(ctx, [c])
    if res and 'harness-failed' in res[0][1]:
        ctx._reruns_dead = getattr(ctx, '_reruns_dead', 0) + 1
    return res


WATCHDOG_RE = re.compile(r'harness-timeout|did not return|\bhang|hung|timed out|never returned|never-returned|never-entered')


def compare(ctx, rows, proj, what, oracle=None, nontrivial=None, max_report=3, oracle_is_property=False, recheck=0):
    """diff projected results; group disagreements by operator; shrink and report.
    `proj(resdict) -> comparable`, `oracle(case_line, go_resdict) -> None | message`."""
    bad = {}
    orc = {}
    wd_rerun = []
    for c, g, l in rows:
        ctx.evaluations += 1
        gd, ld = parse_res(g), parse_res(l)
        key = case_key(c)
        if nontrivial is None or nontrivial(c, gd):
            ctx.distinct.add(hashlib.md5(key.encode()).digest()[:8])
        if len(ctx.samples) < 4 and (ctx.evaluations % 9973 == 1):
            ctx.samples.append({'case': c, 'impl': g, 'model': l})
        if proj(gd) != proj(ld):
            op = re.search(r'\bops?=(\S+)', c)
            bad.setdefault(op.group(1) if op else '?', []).append((c, g, l))
        else:
            ctx.traces_validated += 1
        if oracle is not None:
            msg = oracle(c, gd)
            if msg and WATCHDOG_RE.search(msg) and len(wd_rerun) < 40 and _rerun_ok(ctx):
                # the message comes from a wall-clock watchdog of the harness (a call that did not return in time, a case past its
                # deadline): on an overloaded machine that can happen once; the case is run again alone and judged on that run
                wd_rerun.append(c)
                again = _rerun(ctx, c)
                if again:
                    msg = oracle(c, parse_res(again[0][1]))
                    if msg is None:
                        ctx.notes.append(f'{what}: a watchdog flag did not reproduce when the case was re-run alone ({c.split()[1]})')
            if msg:
                op = re.search(r'\bop=(\S+)', c)
                orc.setdefault((op.group(1) if op else '?', msg.split(':')[0]), []).append((c, g, msg))
    # disagreements whose implementation line carries a watchdog flag of the harness (deadline passed, a call that did not return
    # in time): re-run alone once - on an overloaded machine a deadline can pass once; a defect reproduces
    nwd = 0
    for op in list(bad):
        keep = []
        for c, g, l in bad[op]:
            if nwd < 40 and (WATCHDOG_RE.search(g) or 'usable=0' in g or 'harness-failed' in g) and _rerun_ok(ctx):
                nwd += 1
                again = _rerun(ctx, c)
                if again and proj(parse_res(again[0][1])) == proj(parse_res(again[0][2])):
                    ctx.notes.append(f'{what}: a watchdog flag did not reproduce when the case was re-run alone ({c.split()[1]})')
                    continue
            keep.append((c, g, l))
        if keep:
            bad[op] = keep
        else:
            del bad[op]
    if recheck and bad:
        # kinds that observe goroutines / wall-clock grace periods: a disagreement must reproduce when the case
        # is run again alone (a loaded machine can stretch a grace period once; a defect does it every time)
        transient = 0
        for op in list(bad):
            keep = []
            for c, g, l in bad[op][:8]:
                if len(keep) >= 2:
                    break      # two cases of this operator have reproduced: that is the finding; the rest is not re-run
                if not _rerun_ok(ctx):
                    keep.append((c, g, l))      # no budget left for re-runs: the disagreement stands
                    continue
                again = [r for _ in range(recheck) for r in _rerun(ctx, c)]
                if again and all(proj(parse_res(gg)) != proj(parse_res(ll)) for _, gg, ll in again):
                    keep.append((c, g, l))
                else:
                    transient += 1
            if keep:
                bad[op] = keep
            else:
                del bad[op]
        if transient:
            ctx.notes.append(f'{what}: {transient} transient disagreement(s) did not reproduce on re-run (machine load)')
    n = 0
    for op, lst in bad.items():
        if n >= max_report:
            break
        n += 1
        c, g, l = min(lst, key=lambda t: len(t[0]))
        small = shrink(ctx, c, lambda gg, ll: proj(parse_res(gg)) != proj(parse_res(ll)))
        res = replay_cases(ctx, [small])
        sg, sl = (res[0][1], res[0][2]) if res else (g, l)
        # with a direct oracle for the property: the disagreement is a concrete failing input only if the
        # implementation's own result violates the property on it; otherwise the correspondence is broken
        # but no failing input was found
        holds = oracle_is_property and oracle is not None and oracle(small, parse_res(sg)) is None
        ctx.violation(f'{what}: implementation and model disagree for {op} ({len(lst)} cases)',
                      f'# {what}: implementation differs from the Lean model (which is proved equal to the specification)\n'
                      f'{small}\n# implementation: {sg}\n# model/spec:     {sl}\n# replay: ./check {ctx.prop} --replay <this file>\n' +
                      ('# the implementation result on this input still satisfies the property itself: correspondence broken, no failing input found\n' if holds else ''),
                      no_input=holds)
    for (op, kind), lst in orc.items():
        if n >= max_report * 2:
            break
        n += 1
        c, g, msg = min(lst, key=lambda t: len(t[0]))
        ctx.violation(f'{what}: {msg} for {op} ({len(lst)} cases)',
                      f'# {what}: {msg}\n{c}\n# implementation: {g}\n')
    return not bad and not orc


# ---------------------------------------------------------------- known findings

def load_known(prop):
    path = os.path.join(VERIF, 'known_findings.jsonl')
    out = []
    if os.path.exists(path):
        for line in open(path):
            line = line.strip()
            if line.startswith('{'):
                d = json.loads(line)
                if d.get('property') == prop:
                    out.append(d)
    return out


# ---------------------------------------------------------------- evidence / exit

def finish(ctx, level='proof', rule='', assumptions=None, extra=None):
    obligations = len(ctx.obligations)
    discharged = sum(1 for o in ctx.obligations if o[1])
    cov = {
        'obligations': obligations,
        'discharged': discharged,
        'checker_cmd': ' ; '.join(ctx.checker_cmds) or 'cd lean && lake build',
        'trusted_base': TRUSTED_BASE,
        'evaluations': ctx.evaluations,
        'distinct_nontrivial': len(ctx.distinct),
        'rule': rule,
        'samples': ctx.samples[:6] or [{'note': 'no correspondence case sampled'}],
        'traces_validated_against_impl': ctx.traces_validated,
        'theorems': [{'name': n, 'discharged': d, 'axioms': a} for n, d, a in ctx.obligations],
        'notes': ctx.notes,
        'known_findings_replayed': ctx.known,
    }
    if extra:
        cov.update(extra)
    ev = {
        'property_id': ctx.prop, 'tier': ctx.tier, 'seed': ctx.seed, 'level': level, 'coverage': cov,
        'assumptions': assumptions or [], 'wall_s': round(time.time() - ctx.t0, 2), 'violations': len(ctx.violations),
    }
    # a run against a scratch tree (VERIF_REPO: self-tests, seeded changes) must not overwrite the evidence of the
    # repository under check: it goes to evidence/scratch/ (ignored by git)
    evdir = os.path.join(VERIF, 'evidence') if os.path.realpath(REPO) == os.path.realpath('/repo') else os.path.join(VERIF, 'evidence', 'scratch')
    os.makedirs(evdir, exist_ok=True)
    with open(os.path.join(evdir, ctx.prop + '.json'), 'w') as f:
        json.dump(ev, f, indent=1)
    for k in ctx.known:
        print(f'KNOWN-FINDING: property={ctx.prop} {k}')
    for msg, path, no_input in ctx.violations:
        print('# ' + msg)
        print(f'VIOLATION property={ctx.prop} replay={path}' + (' no-failing-input-found' if no_input else ''))
    print(f'{ctx.prop} {ctx.tier}: obligations {discharged}/{obligations}, cases {ctx.evaluations} (distinct non-trivial {len(ctx.distinct)}), '
          f'violations {len(ctx.violations)}, known findings {len(ctx.known)}, {ev["wall_s"]}s')
    return 1 if ctx.violations else 0


def main(argv):
    import props
    if len(argv) < 2:
        print(__doc__)
        return 2
    prop = argv[0]
    seed = int(os.environ.get('VERIF_SEED', '1') or '1')
    if argv[1] == '--replay':
        ctx = Ctx(prop, 'quick', seed)
        return props.replay(ctx, argv[2])
    tier = argv[1]
    if tier not in ('quick', 'thorough'):
        print('tier must be quick or thorough')
        return 2
    ctx = Ctx(prop, tier, seed)
    return props.run(ctx)

#!/usr/bin/env python3
"""Refresh lean/RoGen/OpsGen.snapshot and SubjGen.snapshot: the committed copies of the operator machines and
subject methods regenerated from the PINNED tree (/repo). tools/checks/C04_gen.py diffs the machines regenerated at check time
against it to name the operator that changed. Run this only when the pinned tree or the translator
changed and RoProps/C04gen.lean builds again; never at check time.   usage: tools/opgen_snapshot.py [--check]"""
import os, shutil, subprocess, sys
sys.path.insert(0, os.path.dirname(os.path.abspath(__file__)))
import runner as R

if os.environ.get('VERIF_REPO') and os.path.realpath(os.environ['VERIF_REPO']) != os.path.realpath('/repo'):
    sys.exit('refusing: VERIF_REPO points at a scratch tree; the snapshot is of the pinned tree')
ok, out = R.build_go()
if not ok:
    sys.exit(out)
subprocess.run([os.path.join(R.GO, 'bin', 'extract'), '-repo', R.REPO, '-out', os.path.join(R.LEAN, 'RoGen')], check=True)
# (generated file, snapshot, the property module that has to build before a snapshot is taken)
PAIRS = [('OpsGen.lean', 'OpsGen.snapshot', 'RoProps.C04gen'), ('SubjGen.lean', 'SubjGen.snapshot', 'RoProps.C10gen'),
         ('GenGen.lean', 'GenGen.snapshot', 'RoProps.C04create'), ('MultiGen.lean', 'MultiGen.snapshot', 'RoProps.C05gen'),
         ('LoopGen.lean', 'LoopGen.snapshot', 'RoProps.C15gen')]
rc = 0
for g, sn, mod in PAIRS:
    gen = os.path.join(R.LEAN, 'RoGen', g)
    snap = os.path.join(R.LEAN, 'RoGen', sn)
    if '--check' in sys.argv:
        same = os.path.exists(snap) and open(snap).read() == open(gen).read()
        print(sn, 'is current' if same else 'is STALE')
        rc |= 0 if same else 1
        continue
    ok, out = R.lake_build([mod])
    if not ok:
        sys.exit(mod + ' does not build on the pinned tree; not snapshotting\n' + out[-3000:])
    shutil.copyfile(gen, snap)
    print('wrote', snap)
sys.exit(rc)

#!/usr/bin/env python3
"""Refresh lean/RoGen/OpsGen.snapshot: the committed copy of the operator machines regenerated from
the PINNED tree (/repo). tools/checks/C04_gen.py diffs the machines regenerated at check time
against it to name the operator that changed. Run this only when the pinned tree or the translator
changed and RoProps/C04gen.lean builds again; never at check time.   usage: tools/opgen_snapshot.py [--check]"""
import os, shutil, subprocess, sys
sys.path.insert(0, os.path.dirname(os.path.abspath(__file__)))
import runner as R

if os.environ.get('VERIF_REPO') and os.path.realpath(os.environ['VERIF_REPO']) != os.path.realpath('/repo'):
    sys.exit('refusing: VERIF_REPO points at a scratch tree; the snapshot is of the pinned tree')
ok, out = R.build_go()
if not ok:
    sys.exit(out)
gen = os.path.join(R.LEAN, 'RoGen', 'OpsGen.lean')
snap = os.path.join(R.LEAN, 'RoGen', 'OpsGen.snapshot')
subprocess.run([os.path.join(R.GO, 'bin', 'extract'), '-repo', R.REPO, '-out', os.path.join(R.LEAN, 'RoGen')], check=True)
if '--check' in sys.argv:
    same = os.path.exists(snap) and open(snap).read() == open(gen).read()
    print('snapshot is current' if same else 'snapshot is STALE')
    sys.exit(0 if same else 1)
ok, out = R.lake_build(['RoProps.C04gen'])
if not ok:
    sys.exit('RoProps.C04gen does not build on the pinned tree; not snapshotting\n' + out[-3000:])
shutil.copyfile(gen, snap)
print('wrote', snap)

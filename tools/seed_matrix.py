#!/usr/bin/env python3
"""Run every seeded change against the checks that should notice it and write seeded/MATRIX.md.
   seed_matrix.py [--props C01,C04 | --all-props] [--only C04-A,C09-B] [--shard i/n] [--out MATRIX-part.md]
For each seed: scratch worktree of /repo + patch, VERIF_REPO, `./check <prop> quick` for the seed's own property
(and the extra properties given), record exit code and VIOLATION lines. Sequential (checks share go/ and lean/)."""
import json, os, re, subprocess, sys, time
VERIF = os.path.dirname(os.path.dirname(os.path.abspath(__file__)))
args = sys.argv[1:]
extra, only = [], None
if '--props' in args:
    extra = args[args.index('--props') + 1].split(',')
if '--only' in args:
    only = set(args[args.index('--only') + 1].split(','))
shard = None
if '--shard' in args:
    a, b = args[args.index('--shard') + 1].split('/')
    shard = (int(a), int(b))
outname = args[args.index('--out') + 1] if '--out' in args else 'MATRIX.md'
claimed = [c['property_id'] for c in json.load(open(os.path.join(VERIF, 'MANIFEST.json')))['checks']]
rows = []
for k, sd in enumerate(x for x in sorted(os.listdir(os.path.join(VERIF, 'seeded'))) if os.path.isdir(os.path.join(VERIF, 'seeded', x))):
    d = os.path.join(VERIF, 'seeded', sd)
    if (only and sd not in only) or (shard and k % shard[1] != shard[0]):
        continue
    prop = sd.split('-')[0]
    props = [p for p in dict.fromkeys([prop] + extra) if p in claimed]
    if '--all-props' in args:
        props = claimed
    rw = f'/tmp/rw/matrix-{os.getpid()}-{sd}'
    subprocess.run(['git', '-C', '/repo', 'worktree', 'add', '--detach', '-q', rw, 'HEAD'], check=True)
    try:
        if subprocess.run(['git', 'apply', os.path.join(d, 'patch.diff')], cwd=rw).returncode != 0:
            rows.append((sd, '-', 'patch does not apply', ''))
            continue
        env = dict(os.environ, VERIF_REPO=rw)
        for p in props:
            t0 = time.time()
            r = subprocess.run([os.path.join(VERIF, 'check'), p, 'quick'], cwd=VERIF, env=env, capture_output=True, text=True)
            vio = [l for l in r.stdout.splitlines() if l.startswith('VIOLATION')]
            why = [l[2:] for l in r.stdout.splitlines() if l.startswith('# ')]
            rows.append((sd, p, f'exit {r.returncode}', '; '.join(why[:2])[:240] + (' [no-failing-input-found]' if vio and all('no-failing-input-found' in v for v in vio) else '')))
            print(rows[-1], f'{time.time()-t0:.0f}s', flush=True)
    finally:
        subprocess.run(['git', '-C', '/repo', 'worktree', 'remove', '--force', rw])
subprocess.run(['python3', '-c', 'import sys, os, subprocess; sys.path.insert(0, "%s/tools"); import runner; runner.write_gowork(); '
                'subprocess.run([os.path.join(runner.GO, "bin", "extract"), "-repo", "/repo", "-out", os.path.join(runner.LEAN, "RoGen")], env=runner.GOENV)' % VERIF])
with open(os.path.join(VERIF, 'seeded', outname), 'w') as f:
    f.write('# Seeded changes vs checks (quick tier)\n\n| seed | what it changes (from its meta.json) | check | result | reported as |\n|---|---|---|---|---|\n')
    for sd, p, res, why in rows:
        try:
            summ = json.load(open(os.path.join(VERIF, 'seeded', sd, 'meta.json'))).get('summary', '')[:160].replace('|', '/').replace('\n', ' ')
        except Exception:
            summ = ''
        f.write(f'| {sd} | {summ} | {p} | {res} | {why.replace("|", "/")} |\n')
print('written seeded/' + outname)

#!/bin/sh
# Build the framework from files on disk only (offline).
set -e
cd "$(dirname "$0")"
export GOFLAGS= GOPROXY=off GOSUMDB=off GOTOOLCHAIN=local
python3 - <<'PY'
import sys; sys.path.insert(0, 'tools')
import runner
ok, out = runner.build_go(race=False)
print(out)
if not ok: sys.exit(1)
import os, subprocess
subprocess.run([os.path.join(runner.GO, 'bin', 'extract'), '-repo', runner.REPO, '-out', os.path.join(runner.LEAN, 'RoGen')], check=True)
PY
cd lean && lake build

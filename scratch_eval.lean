import RoModel.Ops.Create
import RoModel.Ops.Filter
open Ro
#eval ((ofG [1, 2, 3] : Gen Int).pipe (takeM 1) {}).drops
#eval ((ofG [1, 2, 3] : Gen Int).pipe (takeM 1) {}).out
#eval ((ofG [1, 2, 3] : Gen Int).pipe (takeM 1) {}).steps

import RoModel.Basic
import RoModel.Machine
import RoModel.Ops.Filter
import RoModel.Ops.Transform
import RoModel.Ops.Aggregate
import RoModel.Render
import RoModel.Driver
import RoModel.Spec.Ops

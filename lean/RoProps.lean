import RoProps.C01
import RoProps.C04

import RoProps.C01
import RoProps.C04
import RoProps.C05a
import RoProps.C05

import RoProps.C01
import RoProps.C04
import RoProps.C11

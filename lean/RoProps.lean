import RoProps.C01
import RoProps.C04
import RoProps.C02b
import RoProps.C08s
import RoProps.C12
import RoProps.C14
import RoProps.C09
import RoProps.C13

import RoProps.C01
import RoProps.C04
import RoProps.C08
import RoProps.C17

import RoProps.C01
import RoProps.C04
import RoProps.KernelTie
import RoProps.C01b
import RoProps.C02
import RoProps.C03
import RoProps.C06

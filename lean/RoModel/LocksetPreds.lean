/-
  RoModel.LocksetPreds — the decidable per-pair predicate of C13 over the regenerated `Locksets`
  table, and the list of locations of the pinned tree whose accesses do not satisfy it (each one
  confirmed with the race detector on the real code: known_findings.jsonl, harness kind `race`).
-/
import RoModel.LockFacts
namespace Ro.LockFacts

def Prot.isAtomic : Prot → Bool
  | .atomic => true
  | _ => false

def Prot.isInit : Prot → Bool
  | .initBeforePublication => true
  | _ => false

def Prot.lockList : Prot → List Nat
  | .under ls => ls
  | _ => []

/-- the subscribe body, the callbacks of subscriptions it waits for, and the teardown it returns -/
def EmCtx.inBodyOrTeardown : EmCtx → Bool
  | .body | .teardown => true
  | _ => false

def EmCtx.isAwaited : EmCtx → Bool
  | .awaitedCb _ => true
  | _ => false

/-- the same context, and that context runs on one goroutine at a time -/
def EmCtx.sameSequential : EmCtx → EmCtx → Bool
  | .sourceCb s false, .sourceCb s' false => s == s'
  | .goBody s false, .goBody s' false => s == s'
  | .timerCb s false, .timerCb s' false => s == s'
  | .finalizer s false, .finalizer s' false => s == s'
  | _, _ => false

/-! the four structural rules, as decidable relations on rows of one location -/
def ruleInit (a b : Access) : Bool := a.prot.isInit || b.prot.isInit
def ruleBodyTeardown (a b : Access) : Bool := a.ctx.inBodyOrTeardown && b.ctx.inBodyOrTeardown
def ruleSameSource (a b : Access) : Bool := a.ctx.sameSequential b.ctx
def ruleAwaited (a b : Access) : Bool :=
  (a.ctx.isAwaited && (b.ctx.isAwaited || b.ctx.inBodyOrTeardown)) ||
  (b.ctx.isAwaited && a.ctx.inBodyOrTeardown)

def ordered (a b : Access) : Bool := ruleInit a b || ruleBodyTeardown a b || ruleSameSource a b || ruleAwaited a b

def bothAtomic (a b : Access) : Bool := a.prot.isAtomic && b.prot.isAtomic
def commonLock (a b : Access) : Bool := a.prot.lockList.any (fun l => b.prot.lockList.contains l)

/-- the label of a plain access names the rule of its own context class, nothing else -/
def labelOk (a : Access) : Bool :=
  match a.prot with
  | .subscribeBodyBeforeTeardown => a.ctx.inBodyOrTeardown
  | .sameSequentialSource => a.ctx.sameSequential a.ctx
  | .awaitedSourceBeforeContinuation => a.ctx.isAwaited
  | .unknown => false
  | _ => true

/-- conflicting accesses that can run concurrently are both atomic or share a lock -/
def pairOk (a b : Access) : Bool :=
  !(a.write || b.write) || ordered a b || bothAtomic a b || commonLock a b

def locOk (l : Loc) : Bool :=
  l.rows.all labelOk && l.rows.all (fun a => l.rows.all (fun b => pairOk a b))

/-- locations of the pinned tree with an unprotected conflicting pair (known findings, each replayed
    under the race detector by the check) -/
def knownRacy : List String :=
  [ "connectableObservableImpl.subject",       -- observable.go:551 written in the disconnect finalizer, :547/:566 read, no common lock
    "connectableObservableImpl.subscription",  -- observable.go:547 written under mu, :549/:558 read after Unlock
    "detachOn.ch",                             -- operator_utility.go:585 teardown closes the channel the source callback sends on (:597)
    "ToChannel.ch" ]                           -- operator_sink.go:130 same shape (:150)
-- Repaired in the repository since the first run of this check and therefore no longer excused
-- (known_findings.jsonl, `fixed:` lines): MergeMapIWithContext.i (11bf135), OnErrorResumeNextWith.finally
-- (fd0e106), ShareWithConfig.sourceSubscription (a510ca9), BufferWithCount.buffer (40f71f8),
-- GroupByIWithContext.groups (32b7a93: emptied in place through sync.Map methods, all rows atomic).

def tableOk (known : List String) (t : List Loc) : Bool :=
  t.all (fun l => known.contains l.name || locOk l)

end Ro.LockFacts

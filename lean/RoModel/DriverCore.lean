/-
  RoModel.DriverCore — the line protocol (DESIGN.md Appendix B): one `case` line in, one `res` line
  out, computed by the executable model definitions the theorems are about.
-/
import RoModel.Render
import RoModel.Ops.Aggregate
import RoModel.Ops.More
namespace Ro.Driver
open Ro

structure Case where
  id : String
  fields : List (String × String)

def Case.get (c : Case) (k : String) : Option String := (c.fields.find? (·.1 == k)).map (·.2)
def Case.getD (c : Case) (k : String) (d : String) : String := (c.get k).getD d

def splitKV (s : String) : Option (String × String) :=
  match s.splitOn "=" with
  | k :: v :: rest => some (k, "=".intercalate (v :: rest))
  | _ => none

def parseCase (line : String) : Option Case :=
  match (line.trimAscii.toString.splitOn " ").filter (· ≠ "") with
  | "case" :: id :: rest => some { id := id, fields := rest.filterMap splitKV }
  | _ => none

def parseInts (s : String) : List Int :=
  if s == "-" || s == "" then [] else (s.splitOn ",").filterMap String.toInt?

def parseCtx (s : String) : Ctx :=
  if s == "nil" then Ctx.nil
  else if s == "-" || s == "" then {}
  else { marks := (s.splitOn ".").filterMap String.toNat? }

/-- `N3`, `N3@7`, `E1`, `C`, `C@2` -/
def parseTok (sub : Ctx) (t : String) : Option (Notif Int) :=
  let (body, c) := match t.splitOn "@" with
    | [b, m] => (b, match m.toNat? with | some k => sub.tag k | none => sub)
    | _ => (t, sub)
  match body.toList with
  | 'N' :: r => (String.ofList r).toInt?.map (Notif.next c)
  -- `E0` = Error(nil): an error ending whose error value is nil; carried as the reserved value `sentinel 0`
  | 'E' :: r => (String.ofList r).toNat?.map (fun n => Notif.error c (if n = 0 then .sentinel 0 else .user n))
  | ['C'] => some (.complete c)
  | _ => none

def parseScript (sub : Ctx) (s : String) : Option (List (Notif Int)) :=
  if s == "-" || s == "" then some [] else (s.splitOn ",").mapM (parseTok sub)

/-! ### the named callback library (mirrored in go/harness/callbacks.go) -/

structure Cb where
  name : String
  tag : Option Nat

def parseCb (s : String) : Cb :=
  match s.splitOn "+t" with
  | [n, m] => { name := n, tag := m.toNat? }
  | _ => { name := s, tag := none }

def unary : String → Option (Int → Int)
  | "id" => some id
  | "dbl" => some (· * 2)
  | "inc" => some (· + 1)
  | "neg" => some (fun x => 0 - x)
  | "sq" => some (fun x => x * x)
  | "mod3" => some (fun x => x.tmod 3)
  | "mod2" => some (fun x => x.tmod 2)
  | "zero" => some (fun _ => 0)
  | _ => none

def unaryI : String → Option (Int → Nat → Int)
  | "addi" => some (fun v i => v + i)
  | "muli" => some (fun v i => v * i)
  | "idx" => some (fun _ i => i)
  | _ => none

def predU : String → Option (Int → Bool)
  | "even" => some (fun x => x.tmod 2 == 0)
  | "pos" => some (fun x => x > 0)
  | "lt3" => some (fun x => x < 3)
  | "ne2" => some (fun x => x != 2)
  | "eq2" => some (fun x => x == 2)
  | "T" => some (fun _ => true)
  | "F" => some (fun _ => false)
  | _ => none

def predI : String → Option (Int → Nat → Bool)
  | "ilt2" => some (fun _ i => i < 2)
  | "ige1" => some (fun _ i => i ≥ 1)
  | "veqi" => some (fun v i => v == (i : Int))
  | "ieven" => some (fun _ i => i % 2 == 0)
  | _ => none

def red : String → Option (Int → Int → Int)
  | "add" => some (· + ·)
  | "mad" => some (fun a v => a * 2 + v)
  | "sub" => some (· - ·)
  | "last" => some (fun _ v => v)
  | _ => none

def redI : String → Option (Int → Int → Nat → Int)
  | "addvi" => some (fun a v i => a + v * i)
  | "madi" => some (fun a v i => a * 2 + v + i)
  | _ => none

def tagWith (t : Option Nat) (c : Ctx) : Ctx := match t with | some m => c.tag m | none => c

def hasI (var : String) : Bool := var == "i" || var == "ictx"
def hasCtx (var : String) : Bool := var == "ctx" || var == "ictx"

def mkProj (var : String) (cb : Cb) : Option (Ctx → Int → Nat → Ctx × Int) :=
  let t := if hasCtx var then cb.tag else none
  if hasI var then (unaryI cb.name).map (fun f c v i => (tagWith t c, f v i))
  else (unary cb.name).map (fun f c v _ => (tagWith t c, f v))

def mkPred (var : String) (cb : Cb) : Option (Pred Int) :=
  let t := if hasCtx var then cb.tag else none
  if hasI var then (predI cb.name).map (fun f c v i => (tagWith t c, f v i))
  else (predU cb.name).map (fun f c v _ => (tagWith t c, f v))

def mkBoolPred (var : String) (cb : Cb) : Option (Ctx → Int → Nat → Bool) :=
  if hasI var then (predI cb.name).map (fun f _ v i => f v i)
  else (predU cb.name).map (fun f _ v _ => f v)

def mkRed (var : String) (cb : Cb) : Option (Ctx → Int → Int → Nat → Ctx × Int) :=
  let t := if hasCtx var then cb.tag else none
  if hasI var then (redI cb.name).map (fun f c a v i => (tagWith t c, f a v i))
  else (red cb.name).map (fun f c a v _ => (tagWith t c, f a v))

/-- `errOn k`: user error k when the value equals k -/
def mkProjErr (var : String) (cb : Cb) (k : Int) : Option (Ctx → Int → Nat → Int × Ctx × Option Err) :=
  (mkProj var cb).map (fun f c v i =>
    ((f c v i).2, (f c v i).1, if v == k then some (Err.user k.toNat) else none))

/-! ### running a machine and printing the canonical result -/

abbrev Runner := SrcMode → Ctx → List (Notif Int) → Option Nat → String

def runner {σ β : Type} [Render β] (m : Machine σ Int β) : Runner := fun mode sub raw cut =>
  let r := match cut with
    | none => runOp m mode sub raw
    | some k => runOpCut m sub raw k
  let rel := if m.subscribes && (!r.upOpen || !r.downOpen) then 1 else 0
  let steps := if m.subscribes then r.steps else []
  s!"trace={renderTrace r.out} drops={renderDrops r.drops} steps={renderNats steps} subs={m.subs} rel={rel} alias=ok"

def natOf (i : Int) : Nat := i.toNat

/-! ### helpers of the operators of RoModel/Ops/More.lean -/

/-- the result of an uninterpreted float function, printed symbolically (`round(3)`, `avg(7:2)`);
    the harness prints the same token when the float it received equals Go's own `math` function
    applied to the same item -/
structure Sym where
  s : String

instance : Render Sym := ⟨fun x => x.s⟩

def symApp (fn : String) (v : Int) : Sym := ⟨s!"{fn}({v})"⟩
def symNaN : Sym := ⟨"?NaN"⟩
def symDiv (sum : Int) (n : Nat) : Sym := if n == 0 then symNaN else ⟨s!"avg({sum}:{n})"⟩

/-- the marker by which the harness makes "the source was subscribed with the key" visible on every
    notification (go/harness/more.go `viewSource`) -/
def upMark : Nat := 99

/-- `Cast`: the harness renders the cast error by its message -/
def castErrText : String := "other(ro.Cast:_unable_to_cast_<nil>_to_int)"

def withCastText (r : Runner) : Runner := fun mode sub raw cut =>
  (r mode sub raw cut).replace (renderErr (.sentinel 7)) castErrText

def ctxMapCb (var : String) (cb : Cb) : Option (Ctx → Nat → Ctx) :=
  if cb.name != "ctag" then none
  else match cb.tag with
    | none => none
    | some t => some (if hasI var then (fun c i => c.tag (t + i)) else (fun c _ => c.tag t))

/-- the `Tap*` / `Do*` family (by Go function name): which callbacks are the user's -/
def tapSel : String → Option (Notif Int → Bool)
  | "Tap" | "TapWithContext" | "Do" | "DoWithContext" => some selAll
  | "TapOnNext" | "TapOnNextWithContext" | "DoOnNext" | "DoOnNextWithContext" => some selNext
  | "TapOnError" | "TapOnErrorWithContext" | "DoOnError" | "DoOnErrorWithContext" => some selError
  | "TapOnComplete" | "TapOnCompleteWithContext" | "DoOnComplete" | "DoOnCompleteWithContext" => some selComplete
  | _ => none

/-- operator name × parameters × variant × callbacks → runner -/
def lookup (op : String) (p : List Int) (var : String) (cbs : List Cb) : Option Runner :=
  match op, p, cbs with
  -- operator_filter.go
  | "Filter", [], [cb] => (mkPred var cb).map (fun f => runner (filterM f))
  | "Distinct", [], [] => some (runner (distinctByM (fun c (v : Int) => (c, v))))
  | "DistinctBy", [], [cb] =>
      (unary cb.name).map (fun f => runner (distinctByM (fun c (v : Int) => (tagWith (if hasCtx var then cb.tag else none) c, f v))))
  | "IgnoreElements", [], [] => some (runner (ignoreElementsM (α := Int)))
  | "Skip", [n], [] => some (runner (skipM (α := Int) (natOf n)))
  | "SkipWhile", [], [cb] => (mkPred var cb).map (fun f => runner (skipWhileM f))
  | "SkipLast", [n], [] => some (runner (skipLastM (α := Int) (natOf n)))
  | "Take", [n], [] => some (if n == 0 then runner (emptyM (α := Int) (β := Int)) else runner (takeM (α := Int) (natOf n)))
  | "TakeWhile", [], [cb] => (mkPred var cb).map (fun f => runner (takeWhileM f))
  | "TakeLast", [n], [] => some (if n == 0 then runner (emptyM (α := Int) (β := Int)) else runner (takeLastM (α := Int) (natOf n)))
  | "Head", [], [] => some (runner (headM (α := Int)))
  | "Tail", [], [] => some (runner (tailM (α := Int)))
  | "First", [], [cb] => (mkPred var cb).map (fun f => runner (firstM f))
  | "Last", [], [cb] => (mkPred var cb).map (fun f => runner (lastM f))
  | "ElementAt", [n], [] => some (runner (elementAtM (α := Int) (natOf n)))
  | "ElementAtOrDefault", [n, d], [] => some (runner (elementAtOrDefaultM (natOf n) d))
  -- operator_transformations.go
  | "Map", [], [cb] => (mkProj var cb).map (fun f => runner (mapM f))
  | "MapTo", [b], [] => some (runner (mapToM (α := Int) b))
  | "MapErr", [k], [cb] => (mkProjErr var cb k).map (fun f => runner (mapErrM f))
  | "Flatten", [k], [] =>
      -- harness: probe |> Map(v ↦ [v, v+1, …, v+k-1]) |> Flatten
      some (runner ((mapM (fun c (v : Int) _ => (c, (List.range (natOf k)).map (fun (j : Nat) => v + Int.ofNat j)))).seq flattenM))
  | "Scan", [seed], [cb] => (mkRed var cb).map (fun f => runner (scanM f seed))
  | "BufferWithCount", [n], [] => some (runner (bufferCountM (α := Int) (natOf n)))
  | "Pairwise", [], [] => some (runner (pairwiseM (α := Int)))
  | "StartWith", pre, [] => some (runner (startWithM pre))
  | "EndWith", suf, [] => some (runner (endWithM suf))
  | "Tap", [], [] => some (runner (idM (α := Int)))
  | "TapOnSubscribe", [], [] => some (runner (idM (α := Int)))
  | "TapOnFinalize", [], [] => some (runner (idM (α := Int)))
  | "Serialize", [], [] => some (runner (idM (α := Int)))
  | "OnErrorReturn", [v], [] => some (runner (onErrorReturnM v))
  | "ThrowIfEmpty", [k], [] => some (runner (throwIfEmptyM (α := Int) (.user (natOf k))))
  | "Materialize", [], [] => some (runner (materializeM (α := Int)))
  | "MaterializeDematerialize", [], [] => some (runner ((materializeM (α := Int)).seq dematerializeM))
  | "ToSlice", [], [] => some (runner (toSliceM (α := Int)))
  | "ToMap", [], [cb] =>
      (unary cb.name).map (fun f => runner ((toMapM (fun _ (v : Int) _ => (f v, v))).mapOut (fun m => MapVal.mk m)))
  -- operator_conditional.go / operator_math.go
  | "All", [], [cb] => (mkBoolPred var cb).map (fun f => runner (allM f))
  | "Contains", [], [cb] => (mkBoolPred var cb).map (fun f => runner (containsM f))
  | "Find", [], [cb] => (mkBoolPred var cb).map (fun f => runner (findM f))
  | "DefaultIfEmpty", [d], [] => some (runner (defaultIfEmptyM Ctx.bg d))
  | "DefaultIfEmptyWithContext", [d, m], [] => some (runner (defaultIfEmptyM ({ marks := [natOf m] }) d))
  | "Count", [], [] => some (runner (countM (α := Int)))
  | "Sum", [], [] => some (runner sumM)
  | "Min", [], [] => some (runner minM)
  | "Max", [], [] => some (runner maxM)
  | "Clamp", [lo, hi], [] => some (runner (clampM lo hi))
  | "Reduce", [seed], [cb] => (mkRed var cb).map (fun f => runner (reduceM f seed))
  -- RoModel/Ops/More.lean: operator_context.go
  | "ContextWithValue", [m], [] =>
      -- harness: probe |> viewSource |> ContextWithValue(key, m) |> keyToMark; `viewSource` re-roots the
      -- contexts (markers only) and adds `upMark` when the context it was subscribed with carries the key
      some (if (ctxWithValueUp (natOf m) Ctx.bg).marks.contains (natOf m)
        then runner ((ctxWithValueM (α := Int) upMark).seq (ctxWithValueM (natOf m)))
        else runner (ctxWithValueM (α := Int) (natOf m)))
  | "ContextWithTimeout", [], [] => some (runner (contextMapM (α := Int) (fun c _ => c)))
  | "ContextWithDeadline", [], [] => some (runner (contextMapM (α := Int) (fun c _ => c)))
  | "ContextReset", [m], [] => some (runner (contextResetM (α := Int) { marks := [natOf m] }))
  | "ContextReset", [], [] => some (runner (contextResetM (α := Int) Ctx.bg))
  | "ContextMap", [], [cb] => (ctxMapCb var cb).map (fun f => runner (contextMapM (α := Int) f))
  -- operator_transformations.go
  | "Cast", [k], [] =>
      -- harness: probe |> Map(v ↦ any: a string when v = k, the int otherwise) |> Cast[any, int]
      some (withCastText (runner ((mapM (fun c (v : Int) _ => (c, if v == k then none else some v))).seq (castM id (.sentinel 7)))))
  -- operator_utility.go
  | "TapOnSubscribeWithContext", [], [] => some (runner (idM (α := Int)))
  | "DoOnSubscribe", [], [] => some (runner (idM (α := Int)))
  | "DoOnFinalize", [], [] => some (runner (idM (α := Int)))
  | "DelayEach", [], [] => some (runner (idM (α := Int)))
  | "TimeInterval", [], [] => some (runner ((timedM (α := Int) (fun _ => ())).mapOut Prod.fst))
  | "Timestamp", [], [] => some (runner ((timedM (α := Int) (fun _ => ())).mapOut Prod.fst))
  -- operator_math.go (float functions uninterpreted)
  | "Average", [], [] => some (runner (averageM symDiv symNaN))
  | "Round", [], [] => some (runner (mapM (fun c (v : Int) _ => (c, symApp "round" v))))
  | "Abs", [], [] => some (runner (mapM (fun c (v : Int) _ => (c, symApp "abs" v))))
  | "Floor", [], [] => some (runner (mapM (fun c (v : Int) _ => (c, symApp "floor" v))))
  | "Ceil", [], [] => some (runner (mapM (fun c (v : Int) _ => (c, symApp "ceil" v))))
  | "Trunc", [], [] => some (runner (mapM (fun c (v : Int) _ => (c, symApp "trunc" v))))
  | name, [], [] => (tapSel name).map (fun sel => runner (tapM sel))
  | _, _, _ => none

end Ro.Driver

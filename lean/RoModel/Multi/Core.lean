/-
  RoModel.Multi.Core — multi-source operators as machines over events tagged by source index.

  What is modelled (DESIGN.md §2.3 "Multi-source machines", logical semantics):
   * every source `k` is handed its own `subscriberImpl` by the operator (`X.SubscribeWithContext(ctx,
     NewObserverWithContext(...))`, `observable.go:303-321`). That subscriber is the *upstream gate*
     of source `k`: it is open from the moment the source is subscribed until the source's own
     first terminal (`subscriber.go:203-241`, status CAS) or until somebody calls `Unsubscribe` on it
     (`subscriber.go:259-263`); a notification arriving at a closed gate goes to
     `OnDroppedNotification` and nowhere else.
   * the operator's reaction to one notification is ordinary sequential Go code that calls the
     destination (`emit`), subscribes further sources (`sub`) and unsubscribes sources (`unsub`).
     Because a *synchronous* (cold) source plays its whole script inside `Subscribe`, the code
     after a `sub` must see the state as the nested notifications left it: a reaction is therefore a
     list of *phases*, each reading the state at the moment it starts.
   * the *downstream gate* is the subscriber the operator's `NewObservableWithContext` wraps around
     the final observer: closed by the first terminal the operator emits or by an external
     `Unsubscribe`; when it closes, the `Teardown` the subscribe function returned runs at once if
     it is already registered, otherwise as soon as the subscribe function returns
     (`subscription.go:79-92`: `Add` on a disposed subscription runs the finalizer immediately).
   * `runMulti m cfg sub order`: after the subscribe function (`boot`), the interleaving `order`
     says which hot source delivers its next notification; each is processed to quiescence.

  Core Lean only (linked into the driver).
-/
import RoModel.Basic
namespace Ro.Multi
open Ro

/-- a notification tagged with the index of the source that sent it -/
abbrev MEvent (α : Type) := Nat × Notif α

/-- what the operator's code does, in program order -/
inductive Act (β : Type)
  | emit (n : Notif β)          -- `destination.XWithContext(...)`
  | sub (k : Nat) (c : Ctx)     -- `source_k.SubscribeWithContext(c, NewObserverWithContext(...))`
  | unsub (k : Nat)             -- `Unsubscribe()` on the subscription of source `k`
deriving Repr

/-- a stretch of code that reads the operator's locals when it starts -/
abbrev Phase (σ β : Type) := σ → σ × List (Act β)

structure MMachine (σ α β : Type) where
  init : σ
  /-- the subscribe function, phase by phase (argument: the subscriber's context) -/
  boot : Ctx → List (Phase σ β)
  /-- the three callbacks handed to source `k`, as one function of the notification -/
  react : Nat → Notif α → List (Phase σ β)
  /-- the `Teardown` returned by the subscribe function: which sources it unsubscribes -/
  teardown : σ → σ × List Nat

/-- The composite `subscriptions := NewSubscription(nil)` most operators collect their upstream
    subscriptions in (`subscription.go:65-144`): `Add` on a disposed one unsubscribes at once. -/
structure Comp where
  members : List Nat := []
  done : Bool := false
deriving DecidableEq, Repr

def Comp.add {β : Type} (c : Comp) (k : Nat) : Comp × List (Act β) :=
  if c.done then (c, [.unsub k]) else ({ c with members := c.members ++ [k] }, [])

def Comp.unsubscribe (c : Comp) : Comp × List Nat :=
  if c.done then (c, []) else ({ members := [], done := true }, c.members)

/-- the sources of one run: `script k` is what source `k` sends (absolute contexts), `sync k` says
    whether it sends all of it inside `Subscribe` (cold) or later, when the interleaving says so -/
structure Sources (α : Type) where
  n : Nat
  script : Nat → List (Notif α)
  sync : Nat → Bool

def Sources.ofLists {α : Type} (scripts : List (List (Notif α))) (syncs : List Bool) : Sources α where
  n := scripts.length
  script k := (scripts[k]?).getD []
  sync k := (syncs[k]?).getD false

/-- all sources hot -/
def Sources.hot {α : Type} (scripts : List (List (Notif α))) : Sources α := Sources.ofLists scripts []

inductive MDrop (α β : Type)
  | up (k : Nat) (n : Notif α)   -- refused by the (closed) subscriber of source `k`
  | down (n : Notif β)           -- refused by the (closed) downstream subscriber
deriving Repr

structure MSt (σ α β : Type) where
  st : σ
  /-- how many times source `k` has been subscribed -/
  subs : Nat → Nat := fun _ => 0
  /-- the subscriber handed to source `k` has status 0 -/
  sopen : Nat → Bool := fun _ => false
  /-- the context source `k` was subscribed with -/
  sctx : Nat → Ctx := fun _ => {}
  downOpen : Bool := true
  /-- the subscribe function has returned and its Teardown is registered -/
  booted : Bool := false
  out : List (Notif β) := []
  drops : List (MDrop α β) := []
  /-- nesting of synchronous subscriptions deeper than the run was given fuel for -/
  overflow : Bool := false

variable {σ α β : Type}

def setAt {γ : Type} (f : Nat → γ) (k : Nat) (v : γ) : Nat → γ := fun j => if j = k then v else f j

@[simp] theorem setAt_same {γ : Type} (f : Nat → γ) (k : Nat) (v : γ) : setAt f k v k = v := by simp [setAt]
theorem setAt_other {γ : Type} (f : Nat → γ) {k j : Nat} (v : γ) (h : j ≠ k) : setAt f k v j = f j := by simp [setAt, h]

/-- `Unsubscribe()` on source `k`'s subscriber, or its own terminal: status leaves 0 -/
def MSt.closeSrc (r : MSt σ α β) (k : Nat) : MSt σ α β := { r with sopen := setAt r.sopen k false }

/-- run the operator's Teardown -/
def MSt.runTeardown (m : MMachine σ α β) (r : MSt σ α β) : MSt σ α β :=
  (m.teardown r.st).2.foldl MSt.closeSrc { r with st := (m.teardown r.st).1 }

/-- hand one notification to the downstream subscriber (`subscriber.go:176-241`); a terminal
    closes it and runs the registered teardown before the call returns -/
def MSt.emit (m : MMachine σ α β) (r : MSt σ α β) (n : Notif β) : MSt σ α β :=
  if r.downOpen then
    if n.isTerminal then
      if r.booted then MSt.runTeardown m { r with out := r.out ++ [n], downOpen := false }
      else { r with out := r.out ++ [n], downOpen := false }
    else { r with out := r.out ++ [n] }
  else { r with drops := r.drops ++ [.down n] }

/-- an external `Unsubscribe()` on the subscription returned to the final subscriber -/
def MSt.cut (m : MMachine σ α β) (r : MSt σ α β) : MSt σ α β :=
  if r.downOpen then MSt.runTeardown m { r with downOpen := false } else r

section interp
variable (m : MMachine σ α β) (cfg : Sources α)

/-- source `k` sends `n`: through its gate into the operator's callbacks. `rec` runs the phases
    of the reaction (one level of synchronous nesting less). -/
def deliver (rec : List (Phase σ β) → MSt σ α β → MSt σ α β) (k : Nat) (r : MSt σ α β) (n : Notif α) : MSt σ α β :=
  if r.sopen k then
    rec (m.react k n) (if n.isTerminal then r.closeSrc k else r)
  else { r with drops := r.drops ++ [.up k n] }

def act (rec : List (Phase σ β) → MSt σ α β → MSt σ α β) (r : MSt σ α β) : Act β → MSt σ α β
  | .emit n => r.emit m n
  | .unsub k => r.closeSrc k
  | .sub k c =>
    let r1 := { r with subs := setAt r.subs k (r.subs k + 1), sopen := setAt r.sopen k true, sctx := setAt r.sctx k c }
    if cfg.sync k then (cfg.script k).foldl (deliver m rec k) r1 else r1

def phase (rec : List (Phase σ β) → MSt σ α β → MSt σ α β) (r : MSt σ α β) (p : Phase σ β) : MSt σ α β :=
  (p r.st).2.foldl (act m cfg rec) { r with st := (p r.st).1 }

def phases (rec : List (Phase σ β) → MSt σ α β → MSt σ α β) (ps : List (Phase σ β)) (r : MSt σ α β) : MSt σ α β :=
  ps.foldl (phase m cfg rec) r

/-- phases with `d` levels of synchronous nesting available -/
def phasesAt : Nat → List (Phase σ β) → MSt σ α β → MSt σ α β
  | 0 => phases m cfg (fun _ r => { r with overflow := true })
  | d + 1 => phases m cfg (phasesAt d)

/-- nesting fuel: a synchronous source can only be subscribed from inside the script of another
    one, so `n + 1` levels are enough when every source is subscribed at most once -/
def depth : Nat := cfg.n + 1

/-- the subscribe function, then registration of its teardown -/
def bootSt (sub : Ctx) : MSt σ α β :=
  let r1 := phasesAt m cfg (depth cfg) (m.boot sub) { st := m.init }
  if r1.downOpen then { r1 with booted := true } else MSt.runTeardown m { r1 with booted := true }

/-- source `k` sends `n` after the subscribe function has returned; a source nobody subscribed
    loses its notification (hot) -/
def feed (r : MSt σ α β) (e : MEvent α) : MSt σ α β :=
  if r.subs e.1 = 0 then r else deliver m (phasesAt m cfg (depth cfg)) e.1 r e.2

end interp

/-- the notification (if any) that step `k` of an interleaving makes a probe send, given how far
    each hot probe is in its script: entries naming an exhausted or synchronous source send nothing -/
def nextEvent (cfg : Sources α) (pos : Nat → Nat) (k : Nat) : Option (MEvent α) :=
  match (cfg.script k)[pos k]? with
  | none => none
  | some n => if cfg.sync k then none else some (k, n)

/-- the notifications the hot sources send along an interleaving, tagged, in arrival order -/
def eventsFrom (cfg : Sources α) : (Nat → Nat) → List Nat → List (MEvent α)
  | _, [] => []
  | pos, k :: ks =>
    match nextEvent cfg pos k with
    | none => eventsFrom cfg pos ks
    | some e => e :: eventsFrom cfg (setAt pos k (pos k + 1)) ks

/-- script positions after an interleaving prefix -/
def posAfter (cfg : Sources α) : (Nat → Nat) → List Nat → (Nat → Nat)
  | pos, [] => pos
  | pos, k :: ks =>
    match nextEvent cfg pos k with
    | none => posAfter cfg pos ks
    | some _ => posAfter cfg (setAt pos k (pos k + 1)) ks

def eventsOf (cfg : Sources α) (order : List Nat) : List (MEvent α) := eventsFrom cfg (fun _ => 0) order

section run
variable (m : MMachine σ α β) (cfg : Sources α)

/-- a sequence of arrivals, each processed to quiescence -/
def feedAll (r : MSt σ α β) (evs : List (MEvent α)) : MSt σ α β := evs.foldl (feed m cfg) r

/-- Run: subscribe with context `sub`, then follow the interleaving `order` (entry `k`: hot source
    `k` sends the next notification of its script). -/
def runMulti (sub : Ctx) (order : List Nat) : MSt σ α β :=
  feedAll m cfg (bootSt m cfg sub) (eventsOf cfg order)

/-- Run with an external `Unsubscribe` after `c` steps of the interleaving. -/
def runMultiCut (sub : Ctx) (order : List Nat) (c : Nat) : MSt σ α β :=
  feedAll m cfg ((runMulti m cfg sub (order.take c)).cut m)
    (eventsFrom cfg (posAfter cfg (fun _ => 0) (order.take c)) (order.drop c))

end run

/-- teardown counter of source `k`'s probe: its subscriber has been closed (own terminal or
    `Unsubscribe`), which runs the source's teardown exactly once (`subscriber.go:265-268`) -/
def MSt.rel (r : MSt σ α β) (k : Nat) : Nat := if r.subs k = 0 then 0 else if r.sopen k then 0 else 1

/-- sources that are subscribed and still held -/
def MSt.live (r : MSt σ α β) (k : Nat) : Bool := decide (0 < r.subs k) && r.sopen k

end Ro.Multi

/-
  RoModel.Multi.GenStm — the statement language the multi-source translator (go/extract/multigen.go) targets.

  A callback of a multi-source operator (and its subscribe function) is ordinary sequential Go code over the
  operator's locals that calls the destination, subscribes sources and registers their subscriptions in the
  operator's composite subscription. `Stm σ β` is that code, statement by statement; `phasesOf` cuts it into
  the *phases* of `RoModel.Multi.Core` (a phase reads the locals when it starts; a new phase starts after every
  top-level statement that calls out — a destination call can run the teardown, a `SubscribeWithContext` can
  run the callbacks of a synchronous source, so whatever follows has to see the locals as those calls left them).

  `build` turns (initial locals, subscribe function, the three callbacks of every source, teardown) into the
  `MMachine` whose runs `RoProps/C05gen.lean` proves indistinguishable from the runs of the hand-written machines of
  `RoModel/Multi/OpsA.lean` (the ones the C05 theorems are about).

  Conventions shared with the translator (its header lists the Go fragment):
   * `mu.Lock()` / `mu.Unlock()` of the operator's own mutex are dropped: in the logical semantics every
     notification is processed to quiescence (the micro-step models cover the windows between them);
   * an atomic `Store`/`Load`/`CompareAndSwap` is the plain assignment / read / test-and-set;
   * a `defer destination.X(...)` inside a callback is the same call made last (arguments evaluated at the `defer`).

  Core Lean only.
-/
import RoModel.Multi.Core
namespace Ro.Multi.GenB
open Ro Ro.Multi

/-- where the operator keeps its composite subscription among its locals -/
structure CompLens (σ : Type) where
  get : σ → Comp
  put : σ → Comp → σ

inductive Stm (σ β : Type) where
  /-- nothing (an empty branch, an early `return`) -/
  | skip
  /-- assignments to the operator's locals (plain or atomic) -/
  | set (f : σ → σ)
  /-- `destination.NextWithContext / ErrorWithContext / CompleteWithContext`; the arguments may read the locals -/
  | emit (n : σ → Notif β)
  /-- `X.SubscribeWithContext(c, NewObserverWithContext(...))` for source number `k` (a parameter of the
      operator, or — higher-order operators — the source a value of the outer observable stands for) -/
  | sub (k : σ → Nat) (c : σ → Ctx)
  /-- `subscriptions.AddUnsubscribable(<the subscription of source k>)` -/
  | add (L : CompLens σ) (k : σ → Nat)
  | ite (c : σ → Bool) (t e : Stm σ β)
  | seq (a b : Stm σ β)

variable {σ α β : Type}

/-- a statement run as ONE phase: what it does to the locals and the calls it makes, in program order -/
def single : Stm σ β → Phase σ β
  | .skip => fun s => (s, [])
  | .set f => fun s => (f s, [])
  | .emit n => fun s => (s, [.emit (n s)])
  | .sub k c => fun s => (s, [.sub (k s) (c s)])
  | .add L k => fun s => (L.put s ((L.get s).add (β := β) (k s)).1, ((L.get s).add (k s)).2)
  | .ite c t e => fun s => if c s then single t s else single e s
  | .seq a b => fun s => ((single b (single a s).1).1, (single a s).2 ++ (single b (single a s).1).2)

/-- the statement calls out (destination, source, composite subscription) -/
def hasAct : Stm σ β → Bool
  | .skip => false
  | .set _ => false
  | .emit _ => true
  | .sub _ _ => true
  | .add _ _ => true
  | .ite _ t e => hasAct t || hasAct e
  | .seq a b => hasAct a || hasAct b

/-- the top-level statements, in order -/
def atoms : Stm σ β → List (Stm σ β)
  | .skip => []
  | .seq a b => atoms a ++ atoms b
  | x => [x]

/-- group top-level statements into phases: assignments join the phase of the next statement that calls
    out; that statement ends the phase -/
def group : Option (Stm σ β) → List (Stm σ β) → List (Phase σ β)
  | none, [] => []
  | some acc, [] => [single acc]
  | none, x :: xs => if hasAct x then single x :: group none xs else group (some x) xs
  | some acc, x :: xs => if hasAct x then single (.seq acc x) :: group none xs else group (some (.seq acc x)) xs

/-- the phases of a statement; code that does nothing is one phase that does nothing -/
def phasesOf (p : Stm σ β) : List (Phase σ β) :=
  match group none (atoms p) with
  | [] => [single .skip]
  | l => l

/-- `return subscriptions.Unsubscribe` -/
def unsubAll (L : CompLens σ) : σ → σ × List Nat :=
  fun s => (L.put s (L.get s).unsubscribe.1, (L.get s).unsubscribe.2)

def build (init : σ) (boot : Ctx → Stm σ β) (react : Nat → Notif α → Stm σ β) (teardown : σ → σ × List Nat) :
    MMachine σ α β where
  init := init
  boot c := phasesOf (boot c)
  react k n := phasesOf (react k n)
  teardown := teardown

end Ro.Multi.GenB

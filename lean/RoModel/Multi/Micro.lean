/-
  RoModel.Multi.Micro — TakeUntil at the granularity of its atomic actions (true concurrency).

  The logical semantics (RoModel/Multi/Core.lean) processes each notification to quiescence. When the
  source and the signal are driven by different goroutines, the callbacks of TakeUntil interleave at
  the level of their atomic actions (operator_filter.go:519-545, after fix 3e5361a):

      source Next:   if Load(ready) == 1 { return };  destination.Next        (destination serialises)
      source Error / Complete:                        destination.Error / Complete
      signal Next:   destination.Complete     ← micro-step 1
                     Store(ready, 1)          ← micro-step 2
      signal Error / Complete: the empty callbacks of OnNextWithContext (one step, no effect)

  A schedule is a list of thread ids: `0` = the source thread handles its next notification (its
  load-then-call window is harmless: a value that passes the load after the completion was
  delivered is refused by the closed destination, which is the outcome of the arrival order
  "signal first"), any other id = the signal thread performs its next micro-step.
  (Before the fix the two micro-steps of the signal were in the other order; the schedule
  source N · signal Store · source N (skipped) · source E · signal Complete then delivered `N, E`,
  the output of no arrival order.)
-/
import RoModel.Multi.Core
namespace Ro.Multi.Micro
open Ro Ro.Multi

variable {α : Type}

structure St (α : Type) where
  ready : Bool := false
  /-- what the source thread still has to send -/
  src : List (Notif α)
  /-- what the signal thread still has to send; the head is in progress when `mid` -/
  sig : List (Notif α)
  /-- the signal thread has done the first micro-step (Complete) of its current value, not yet the second (Store) -/
  mid : Bool := false
  /-- raw calls of the destination, in order (the downstream subscriber's gate is applied at the end) -/
  calls : List (Notif α) := []

def step (s : St α) (tid : Nat) : St α :=
  match tid with
  | 0 =>
    match s.src with
    | [] => s
    | .next c v :: r => if s.ready then { s with src := r } else { s with src := r, calls := s.calls ++ [.next c v] }
    | .error c e :: r => { s with src := r, calls := s.calls ++ [.error c e] }
    | .complete c :: r => { s with src := r, calls := s.calls ++ [.complete c] }
  | _ + 1 =>
    match s.sig with
    | [] => s
    | .next c _ :: r =>
      if s.mid then { s with sig := r, mid := false, ready := true }
      else { s with mid := true, calls := s.calls ++ [.complete c] }
    | _ :: r => { s with sig := r, mid := false }

def run (s : St α) (sched : List Nat) : St α := sched.foldl step s

/-- delivered trace of TakeUntil(signal)(source) under a schedule of atomic actions; each script is cut at
    its own first terminal (the per-source subscriber) -/
def takeUntilMicro (source signal : List (Notif α)) (sched : List Nat) : List (Notif α) :=
  gate (run { src := gate source, sig := gate signal } sched).calls

/-- the arrival order a schedule amounts to: a source step is the arrival of the source's notification; the
    signal's value arrives at its first micro-step; the second micro-step (raising the flag) is no arrival -/
def arrival : St α → List Nat → List (MEvent α)
  | _, [] => []
  | s, 0 :: t =>
    match s.src with
    | [] => arrival s t
    | x :: _ => (0, x) :: arrival (step s 0) t
  | s, (k + 1) :: t =>
    match s.sig with
    | [] => arrival s t
    | x :: _ => if s.mid then arrival (step s (k + 1)) t else (1, x) :: arrival (step s (k + 1)) t

end Ro.Multi.Micro

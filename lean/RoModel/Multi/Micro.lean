/-
  RoModel.Multi.Micro — TakeUntil at the granularity of its atomic actions (true concurrency).

  The logical semantics (RoModel/Multi/Core.lean) processes each notification to quiescence. When the
  source and the signal are driven by different goroutines, the callbacks of TakeUntil interleave at
  the level of their atomic actions (operator_filter.go:521-540):

      source Next:   if Load(ready) == 1 { return };  destination.Next        (destination serialises)
      source Error / Complete:                        destination.Error / Complete
      signal Next:   Store(ready, 1)          ← micro-step 1
                     destination.Complete     ← micro-step 2

  A schedule is a list of thread ids: `0` = the source thread handles its next notification (its
  load-then-call window is harmless: a value that passes the load after the completion was
  delivered is refused by the closed destination, which is the outcome of the arrival order
  "signal first"), `1` = the signal thread performs its next micro-step.
-/
import RoModel.Multi.Core
namespace Ro.Multi.Micro
open Ro Ro.Multi

variable {α : Type}

/-- one atomic action of the signal thread -/
inductive SigStep
  | store                 -- `atomic.StoreUint32(&ready, 1)`
  | complete (c : Ctx)    -- `destination.CompleteWithContext(ctx)`
  | nothing               -- the empty onError / onComplete of `OnNextWithContext`
deriving Repr, DecidableEq

/-- the signal thread's program for its script: every value is two steps -/
def sigProgram : List (Notif α) → List SigStep
  | [] => []
  | .next c _ :: r => .store :: .complete c :: sigProgram r
  | _ :: r => .nothing :: sigProgram r

structure St (α : Type) where
  ready : Bool := false
  src : List (Notif α)
  sig : List SigStep
  /-- raw calls of the destination, in order (the downstream subscriber's gate is applied at the end) -/
  calls : List (Notif α) := []

def step (s : St α) (tid : Nat) : St α :=
  if tid = 0 then
    match s.src with
    | [] => s
    | .next c v :: r => if s.ready then { s with src := r } else { s with src := r, calls := s.calls ++ [.next c v] }
    | .error c e :: r => { s with src := r, calls := s.calls ++ [.error c e] }
    | .complete c :: r => { s with src := r, calls := s.calls ++ [.complete c] }
  else
    match s.sig with
    | [] => s
    | .store :: r => { s with sig := r, ready := true }
    | .complete c :: r => { s with sig := r, calls := s.calls ++ [.complete c] }
    | .nothing :: r => { s with sig := r }

/-- delivered trace of TakeUntil(signal)(source) under a schedule of atomic actions; both scripts legal -/
def takeUntilMicro (source signal : List (Notif α)) (sched : List Nat) : List (Notif α) :=
  gate (sched.foldl step { src := gate source, sig := sigProgram (gate signal) }).calls

end Ro.Multi.Micro

/-
  RoModel.Multi.OpsA — the machines of the first half of the multi-source family, read line by line
  from the pinned tree:
    MergeAll / Merge / MergeWith* / MergeMap*     operator_combining.go:34-226, operator_creation.go:476
    RaceWith / Race / Amb                         operator_combining.go:1010-1093, operator_creation.go:581-593
    TakeUntil / SkipUntil                         operator_filter.go:302-338, 510-549
    SampleWhen / ThrottleWhen                     operator_transformations.go:707-762, 779-822
-/
import RoModel.Multi.Core
namespace Ro.Multi
open Ro

variable {α : Type}

/-! ### MergeAll (operator_combining.go:114-171)

Source 0 is the outer observable (its values name inner sources through `proj`), sources ≥ 1 are
the inner observables. `Merge(s₁…sₙ)` / `MergeWithN` are `MergeAll()(Just(s₁…sₙ))`: source 0 is then the
synchronous script `N1,…,Nn,C`. `MergeMap*` is `MergeAll` over an outer whose values go through the
user's projection (`:203-226`; `i` counts the outer values). -/

structure MergeSt where
  /-- `subscriptionsCount := int32(1)` (`:123`): the outer observable is counted from the start -/
  count : Int := 1
  /-- `var parentCtx context.Context` (`:117`): nil until the outer completes -/
  parentCtx : Ctx := Ctx.nil
  /-- `subscriptions := NewSubscription(nil)` (`:120`) -/
  comp : Comp := {}
  /-- `i := int64(0)` of MergeMapIWithContext (`:207`, per subscription since fix 11bf135) -/
  i : Nat := 0
deriving Repr

/-- `onDone` (`:125-134`) -/
def MergeSt.onDone (s : MergeSt) : MergeSt × List (Act α) :=
  let s' := { s with count := s.count - 1 }
  if s'.count = 0 then (s', [.emit (.complete s'.parentCtx)]) else (s', [])

/-- `proj c v i` = the context and the index of the inner source the outer value stands for -/
def mergeAllM (proj : Ctx → α → Nat → Ctx × Nat) : MMachine MergeSt α α where
  init := {}
  boot sub := [
    fun s => (s, [.sub 0 sub]),                                   -- :137 sources.SubscribeWithContext(subscriberCtx, …)
    fun s => ({ s with comp := (s.comp.add (β := α) 0).1 }, (s.comp.add 0).2) ]   -- :136 subscriptions.AddUnsubscribable(…)
  react k n :=
    if k = 0 then
      match n with
      | .next c v => [
          fun s => ({ s with count := s.count + 1 },               -- :141
                    [.sub (proj c v s.i).2 (proj c v s.i).1]),      -- :144 source.SubscribeWithContext(ctx, …)
          fun s => ({ s with comp := (s.comp.add (β := α) (proj c v s.i).2).1, i := s.i + 1 },
                    (s.comp.add (proj c v s.i).2).2) ]              -- :143 AddUnsubscribable; MergeMap :215 i++
      | .error c e => [fun s => (s, [.emit (.error c e)])]         -- :156
      | .complete c => [fun s => ({ s with parentCtx := c }.onDone)]  -- :157-163
    else
      match n with
      | .next c v => [fun s => (s, [.emit (.next c v)])]           -- :147
      | .error c e => [fun s => (s, [.emit (.error c e)])]         -- :148
      | .complete _ => [fun s => s.onDone]                         -- :149-151
  teardown s := ({ s with comp := s.comp.unsubscribe.1 }, s.comp.unsubscribe.2)   -- :168

/-- the script of `Just(s₁…sₙ)` subscribed with context `sub` (operator_creation.go `Of`) -/
def justScript (sub : Ctx) (n : Nat) : List (Notif Int) :=
  (List.range n).map (fun j => Notif.next sub (Int.ofNat (j + 1))) ++ [.complete sub]

/-- `MergeAll` over an outer whose value `k` stands for source `k` -/
def mergeM : MMachine MergeSt Int Int := mergeAllM (fun c v _ => (c, v.toNat))

/-! ### RaceWith (operator_combining.go:1010-1093) -/

structure RaceSt where
  /-- `won := int32(-1)` (`:1022`) -/
  won : Int := -1
  /-- the non-nil entries of `subscriptions` (`:1021`, written at `:1079`) -/
  stored : List Nat := []
  /-- the loop body is past `SubscribeWithContext` for this source and has not yet reached `:1072` -/
  pending : Option Nat := none
deriving Repr

/-- `unsubscribeOthers(except)` (`:1025-1038`) -/
def RaceSt.others {β : Type} (s : RaceSt) (except : Int) : List (Act β) :=
  (s.stored.filter (fun i => (Int.ofNat i) != except)).map .unsub

/-- the guard shared by the three callbacks (`:1051`, `:1057`, `:1063`):
    `CompareAndSwap(&won, -1, j) || Load(&won) == j`, then forward, then `unsubscribeOthers(j)` -/
def raceReact (j : Nat) (n : Notif α) : Phase RaceSt α := fun s =>
  let s' := if s.won = -1 then { s with won := Int.ofNat j } else s
  if s'.won = Int.ofNat j then (s', [.emit n] ++ s'.others (Int.ofNat j)) else (s', [])

/-- `n` = number of raced observables (`len(all)`, ≥ 2; `RaceWith()` with no argument returns the source itself) -/
def raceM (n : Nat) : MMachine RaceSt α α where
  init := {}
  boot sub := (List.range n).flatMap (fun j => [
    -- :1043-1069  if a winner exists: `continue`; else subscribe
    (fun s => if s.won != -1 then ({ s with pending := none }, []) else ({ s with pending := some j }, [.sub j sub])),
    -- :1072-1085  `if !hasWinner || isWinner { subscriptions[j] = sub } else { sub.Unsubscribe() }`
    -- (since fix 5ca7c2d a source that won inside its own Subscribe is stored too)
    (fun s => if s.pending = some j then
        (if s.won = -1 || s.won = Int.ofNat j then ({ s with stored := s.stored ++ [j], pending := none }, [])
         else ({ s with pending := none }, [.unsub j]))
      else (s, [])) ])
  react j n := [raceReact j n]
  teardown s := (s, s.stored)                                       -- :1088-1090 unsubscribeOthers(-1)

/-! ### TakeUntil / SkipUntil (operator_filter.go:510-549, 302-338). Source 0 = source, 1 = signal. -/

structure UntilSt where
  /-- `ready := uint32(0)` -/
  ready : Bool := false
  comp : Comp := {}
deriving Repr

def untilBoot {β : Type} (sub : Ctx) : List (Phase UntilSt β) := [
  fun s => (s, [.sub 0 sub]),
  fun s => ({ s with comp := (s.comp.add (β := β) 0).1 }, (s.comp.add 0).2),
  fun s => (s, [.sub 1 sub]),
  fun s => ({ s with comp := (s.comp.add (β := β) 1).1 }, (s.comp.add 1).2) ]

def takeUntilM : MMachine UntilSt α α where
  init := {}
  boot := untilBoot
  react k n :=
    if k = 0 then
      match n with
      | .next c v => [fun s => if s.ready then (s, []) else (s, [.emit (.next c v)])]   -- :521-527
      | .error c e => [fun s => (s, [.emit (.error c e)])]                             -- :528
      | .complete c => [fun s => (s, [.emit (.complete c)])]                           -- :529
    else
      match n with
      | .next c _ => [fun s => (s, [.emit (.complete c)]),               -- :542 destination.CompleteWithContext(ctx)
                      fun s => ({ s with ready := true }, [])]           -- :543 then Store(ready, 1) (order since fix 3e5361a)
      | .error _ _ => [fun s => (s, [])]      -- OnNextWithContext: empty onError (observer.go:213-218)
      | .complete _ => [fun s => (s, [])]     -- … and empty onComplete
  teardown s := ({ s with comp := s.comp.unsubscribe.1 }, s.comp.unsubscribe.2)

def skipUntilM : MMachine UntilSt α α where
  init := {}
  boot := untilBoot
  react k n :=
    if k = 0 then
      match n with
      | .next c v => [fun s => if s.ready then (s, [.emit (.next c v)]) else (s, [])]   -- :313-317
      | .error c e => [fun s => (s, [.emit (.error c e)])]
      | .complete c => [fun s => (s, [.emit (.complete c)])]
    else
      match n with
      | .next _ _ => [fun s => ({ s with ready := true }, [])]                          -- :327-329
      | .error _ _ => [fun s => (s, [])]
      | .complete _ => [fun s => (s, [])]
  teardown s := ({ s with comp := s.comp.unsubscribe.1 }, s.comp.unsubscribe.2)

/-! ### SampleWhen (operator_transformations.go:707-762). Source 0 = source, 1 = tick. -/

structure SampleSt (α : Type) where
  /-- `var last lo.Tuple2[context.Context, T]` -/
  last : Option (Ctx × α) := none
  hasValue : Bool := false
  comp : Comp := {}

def sampleWhenM : MMachine (SampleSt α) α α where
  init := {}
  boot sub := [
    fun s => (s, [.sub 0 sub]),
    fun s => ({ s with comp := (s.comp.add (β := α) 0).1 }, (s.comp.add 0).2),
    fun s => (s, [.sub 1 sub]),
    fun s => ({ s with comp := (s.comp.add (β := α) 1).1 }, (s.comp.add 1).2) ]
  react k n :=
    match n with
    | .error c e => [fun s => (s, [.emit (.error c e)])]           -- :731 / :753
    | .complete c => [fun s => (s, [.emit (.complete c)])]         -- :732 / :754
    | .next c v =>
      if k = 0 then [fun s => ({ s with last := some (c, v), hasValue := true }, [])]   -- :723-729
      else [fun s =>                                                                 -- :740-751
        if s.hasValue then
          match s.last with
          | some (lc, lv) => ({ s with hasValue := false }, [.emit (.next lc lv)])     -- deferred call, stored ctx
          | none => ({ s with hasValue := false }, [])
        else (s, [])]
  teardown s := ({ s with comp := s.comp.unsubscribe.1 }, s.comp.unsubscribe.2)

/-! ### ThrottleWhen (operator_transformations.go:779-822). Source 0 = source, 1 = tick;
    the tick is subscribed first (`:790-801`). -/

structure ThrottleSt where
  /-- `var send int32` (0: don't send, 1: send) -/
  send : Bool := false
  comp : Comp := {}
deriving Repr

def throttleWhenM : MMachine ThrottleSt α α where
  init := {}
  boot sub := [
    fun s => (s, [.sub 1 sub]),
    fun s => ({ s with comp := (s.comp.add (β := α) 1).1 }, (s.comp.add 1).2),
    fun s => (s, [.sub 0 sub]),
    fun s => ({ s with comp := (s.comp.add (β := α) 0).1 }, (s.comp.add 0).2) ]
  react k n :=
    match n with
    | .error c e => [fun s => (s, [.emit (.error c e)])]
    | .complete c => [fun s => (s, [.emit (.complete c)])]
    | .next c v =>
      if k = 0 then [fun s => if s.send then ({ s with send := false }, [.emit (.next c v)]) else (s, [])]  -- :807-811 CAS(1→0)
      else [fun s => ({ s with send := true }, [])]                                                        -- :794-796
  teardown s := ({ s with comp := s.comp.unsubscribe.1 }, s.comp.unsubscribe.2)

end Ro.Multi

/-
  RoModel.ResubGen — the statement language the loop translator (go/extract/loopgen.go) targets, and its meaning.

  The subscribe functions of the re-subscribing operators (RetryWithConfig, OnErrorResumeNextWith, Catch,
  DoWhileIWithContext, WhileIWithContext: operator_error_handling.go; RepeatWith: operator_utility.go) are ordinary
  sequential Go: a `for` loop whose body subscribes the source with three callbacks, registers the subscription,
  waits for it (`sub.Wait()`), and then decides — from locals the callbacks wrote — whether to go round again.
  `LStm σ` is that code, statement by statement, over the operator's locals `σ` (a structure generated per operator);
  expressions are Lean functions of the locals, statements and control flow are constructors.

  `exec` gives a statement its meaning in the world of `RoModel.Resub`: the n-th subscription of the (cold) source plays
  the n-th *attempt outcome*; the condition callback answers from a truth sequence and tags the context; the
  subscription context is cancelled at the point `cancel`; the destination refuses what comes after `b` values / a
  terminal. The meaning of a statement is what it does to the locals and the world, the control signal it ends with,
  and the list of things it made happen, in program order (`Out`: a notification handed to the destination, a
  subscribe / teardown event of the source, an evaluation of the condition). `Result.ofOuts` folds that list into the
  `Result` the hand-written loops of `RoModel.Resub` compute; `RoProps/C15gen.lean` proves the two equal for every
  operator, every configuration, every list of outcomes.

  Readings built into `exec` (shared with the hand-written model, hence tied by kind=resub, not by the equality):
   * `subscriptions.IsClosed()` inside the subscribe function is false: `subscriptions` is created by the function and
     handed out only when it returns (`ifSubsClosed t e` means `e`);
   * `attempt` = `sub := X.SubscribeWithContext(c, NewObserverWithContext(n, e, c)); subscriptions.AddUnsubscribable(sub);
     sub.Wait()`: the attempt plays its whole outcome through the three callbacks, then its teardown runs, then the
     statement ends (the schedules in which `Wait` returns early are `Resub.overlapLog`, a listed finding of C15);
     a `return` inside a callback ends the callback;
   * `forward` = the source subscribed with `destination` itself as observer and registered, not waited for; in
     `Mode.async` the teardown of the attempt it is nested in runs first (the terminal callback that subscribed it
     returns, the subscriber closes itself);
   * a `select` on `subscriberCtx.Done()` (with `default`, or against `time.After`) sees the context cancelled iff the
     cancellation point lies before the attempt that would come next (`Resub.cancelledBefore`).

  Core Lean only.
-/
import RoModel.Resub
namespace Ro.Resub.Gen
open Ro Ro.Resub

/-- Go's `error` values: `nil` or an error -/
abbrev GoErr := Option Err

/-- the error handed to `destination.ErrorWithContext` (a nil error: the marker the drivers print as `E0`) -/
def goErr : GoErr → Err
  | some e => e
  | none => .sentinel 0

/-- what a run makes happen, in program order -/
inductive Out
  | raw (n : Notif Int)
  | ev (e : Ev)
  | eval
deriving DecidableEq, Repr

/-- how a statement ends -/
inductive Sig
  | normal
  | brk
  | cont
  | ret
  /-- a loop ran out of fuel (never with the fuel the theorems give it) -/
  | stuck
deriving DecidableEq, Repr

/-- the part of the world a loop can ask about -/
structure World where
  /-- outcomes of the subscriptions still to come -/
  outs : List Outcome
  /-- answers the condition callback still has to give (false past the end) -/
  conds : List Bool
  /-- attempts started so far -/
  att : Nat := 0
  /-- the destination's budget (`Resub.deliver`) -/
  b : Option Nat := none
  /-- teardowns of forwarded subscriptions that run after the enclosing attempt's -/
  pend : List Ev := []
deriving Repr

/-- what does not change during a run -/
structure Env where
  sub : Ctx
  cancel : Option Nat := none
  ct : Nat := 0
  mode : Mode := .sync
  fuel : Nat

inductive LStm (σ : Type) where
  | skip
  /-- assignments to the operator's locals -/
  | set (f : σ → σ)
  /-- `destination.NextWithContext / ErrorWithContext / CompleteWithContext` -/
  | emit (n : σ → Notif Int)
  | ite (c : σ → Bool) (t e : LStm σ)
  | seq (a b : LStm σ)
  | brk
  | cont
  /-- `return subscriptions.Unsubscribe` (or `return nil`) -/
  | ret
  /-- `select { case <-subscriberCtx.Done(): t; default / case <-time.After(d): e }` -/
  | ifDone (t e : LStm σ)
  /-- `if subscriptions.IsClosed() { t } else { e }` inside the subscribe function -/
  | ifSubsClosed (t e : LStm σ)
  /-- `if destination.IsClosed() { t } else { e }` -/
  | ifDestClosed (t e : LStm σ)
  /-- `x, y = condition(c, i)` -/
  | cond (c : σ → Ctx) (i : σ → Nat) (k : σ → Ctx → Bool → σ)
  /-- subscribe the source with three callbacks, register the subscription, wait for it -/
  | attempt (c : σ → Ctx) (onNext : Ctx → Int → LStm σ) (onError : Ctx → Err → LStm σ) (onComplete : Ctx → LStm σ)
  /-- subscribe the source (`h e` applied to the error at hand, for Catch) with `destination` as its observer -/
  | forward (c : σ → Ctx)
  /-- `for cond; post { body }` -/
  | loop (c : σ → Bool) (post body : LStm σ)

variable {σ : Type}

abbrev St (σ : Type) := σ × World
abbrev Den (σ : Type) := St σ → Sig × St σ × List Out

/-- `a; b` -/
def dseq (a b : Den σ) : Den σ := fun s =>
  match a s with
  | (.normal, s1, o1) => let r := b s1; (r.1, r.2.1, o1 ++ r.2.2)
  | r => r

/-- the iterations of a `for` loop -/
def iterate (c : σ → Bool) (post body : Den σ) : Nat → Den σ
  | 0, s => (.stuck, s, [])
  | n + 1, s =>
    if c s.1 then
      match body s with
      | (.normal, s1, o1) | (.cont, s1, o1) =>
        (match post s1 with
         | (.normal, s2, o2) => let r := iterate c post body n s2; (r.1, r.2.1, o1 ++ (o2 ++ r.2.2))
         | (g, s2, o2) => (g, s2, o1 ++ o2))
      | (.brk, s1, o1) => (.normal, s1, o1)
      | r => r
    else (.normal, s, [])

/-- the values of an attempt through the `Next` callback; the callback's signal ends the callback only -/
def playVals (c : Ctx) (dN : Ctx → Int → Den σ) : List (Nat × Int) → St σ → St σ × List Out
  | [], s => (s, [])
  | p :: ps, s =>
    let r := dN (tagM c p.1) p.2 s
    let r' := playVals c dN ps r.2.1
    (r'.1, r.2.2 ++ r'.2)

/-- one whole attempt: subscribe, values, terminal, teardown; then the teardowns that had to wait for it -/
def playAttempt (cf : σ → Ctx) (dN : Ctx → Int → Den σ) (dE : Ctx → Err → Den σ) (dC : Ctx → Den σ) : Den σ := fun s =>
  let o := outcomeAt s.2.outs 0
  let c := cf s.1
  let i := s.2.att + 1
  let s1 : St σ := (s.1, { s.2 with outs := s.2.outs.tail, att := i })
  let r2 := playVals c dN o.vals s1
  let r3 := match o.fin with
    | .complete => dC (o.finCtx c) r2.1
    | .error e => dE (o.finCtx c) (.user e) r2.1
  (.normal, (r3.2.1.1, { r3.2.1.2 with pend := [] }),
    Out.ev (.s i) :: (r2.2 ++ (r3.2.2 ++ (Out.ev (.t i) :: r3.2.1.2.pend.map Out.ev))))

/-- the notifications of a list handed to the destination -/
def feedOuts (l : List (Notif Int)) : List Out := l.map Out.raw

/-- the source subscribed with the destination as its observer -/
def playForward (env : Env) (cf : σ → Ctx) : Den σ := fun s =>
  let o := outcomeAt s.2.outs 0
  let c := cf s.1
  let i := s.2.att + 1
  let raws := o.nexts c ++ [o.terminal c]
  let w : World := { s.2 with outs := s.2.outs.tail, att := i, b := feedB s.2.b raws }
  match env.mode with
  | .sync => (.normal, (s.1, w), Out.ev (.s i) :: (feedOuts raws ++ [Out.ev (.t i)]))
  | _ => (.normal, (s.1, { w with pend := w.pend ++ [.t i] }), Out.ev (.s i) :: feedOuts raws)

/-- the meaning of a statement -/
def exec (env : Env) : LStm σ → Den σ
  | .skip => fun s => (.normal, s, [])
  | .set f => fun s => (.normal, (f s.1, s.2), [])
  | .emit n => fun s => (.normal, (s.1, { s.2 with b := pushB s.2.b (n s.1) }), [.raw (n s.1)])
  | .ite c t e => fun s => if c s.1 then exec env t s else exec env e s
  | .seq a b => dseq (exec env a) (exec env b)
  | .brk => fun s => (.brk, s, [])
  | .cont => fun s => (.cont, s, [])
  | .ret => fun s => (.ret, s, [])
  | .ifDone t e => fun s => if cancelledBefore env.cancel (s.2.att + 1) then exec env t s else exec env e s
  | .ifSubsClosed _ e => exec env e
  | .ifDestClosed t e => fun s => if closedB s.2.b then exec env t s else exec env e s
  | .cond c i k => fun s =>
    (.normal, (k s.1 (condCtx env.ct (c s.1) (i s.1)) (s.2.conds.headD false), { s.2 with conds := s.2.conds.tail }), [.eval])
  | .attempt c n e k =>
    playAttempt c (fun x v => exec env (n x v)) (fun x v => exec env (e x v)) (fun x => exec env (k x))
  | .forward c => playForward env c
  | .loop c post body => iterate c (exec env post) (exec env body) env.fuel

/-! ### from the list of happenings to the `Result` of `RoModel.Resub` -/

def rawsOf : List Out → List (Notif Int)
  | [] => []
  | .raw n :: l => n :: rawsOf l
  | _ :: l => rawsOf l

def evsOf : List Out → List Ev
  | [] => []
  | .ev e :: l => e :: evsOf l
  | _ :: l => evsOf l

def attemptsOf : List Out → Nat
  | [] => 0
  | .ev (.s _) :: l => attemptsOf l + 1
  | _ :: l => attemptsOf l

def evalsOf : List Out → Nat
  | [] => 0
  | .eval :: l => evalsOf l + 1
  | _ :: l => evalsOf l

def Result.ofOuts (l : List Out) : Result :=
  { raw := rawsOf l, log := evsOf l, attempts := attemptsOf l, evals := evalsOf l }

/-- a generated loop: the initial locals and the body of the subscribe function -/
structure LoopProg (σ : Type) where
  init : Ctx → σ
  body : Ctx → LStm σ

/-- run the subscribe function of a generated operator -/
def LoopProg.run (p : LoopProg σ) (env : Env) (outs : List Outcome) (conds : List Bool) (cut : Option Nat) :
    Sig × Result :=
  let r := exec env (p.body env.sub) (p.init env.sub, { outs := outs, conds := conds, b := cut })
  (r.1, Result.ofOuts r.2.2)

end Ro.Resub.Gen

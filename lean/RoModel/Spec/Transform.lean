/-
  RoModel.Spec.Transform — the documented meaning of the transformation operators
  (operator_transformations.go and the single-source operators of operator_combining.go /
  operator_utility.go / operator_sink.go) as plain list functions of the source's values
  `vs : List (Ctx × α)` and its ending `e : Ending`.  Core Lean only.

  `Spec.mapTo`, `Spec.toSlice` and `Spec.nexts` are those of RoModel.Spec.Ops.
  `Ro.assocSet` (the last-write-wins insertion of RoModel.Ops.Transform) is the only thing taken
  from the machine side: it is the vocabulary in which `ToMap`'s result is stated.
-/
import RoModel.Spec.Ops
import RoModel.Ops.Transform
namespace Ro.Spec
open Ro
variable {α β κ : Type}

/-- MapErr: every value is projected (with its index).  The values are delivered (with the
    context returned by the projection) as long as the projection returns no error; the first
    projection that returns an error ends the stream with that error, carried by the context the
    projection returned; nothing is delivered after it.  No failing projection: the source's
    ending. -/
def mapErr (f : Ctx → α → Nat → β × Ctx × Option Err) (vs : List (Ctx × α)) (e : Ending) :
    List (Notif β) :=
  let rs := vs.zipIdx.map (fun q => f q.1.1 q.1.2 q.2)
  (rs.takeWhile (fun r => r.2.2.isNone)).map (fun r => Notif.next r.2.1 r.1) ++
    match rs.findSome? (fun r => r.2.2.map (fun err => (r.2.1, err))) with
    | some ce => [Notif.error ce.1 ce.2]
    | none => e.toList

/-- Flatten: the elements of every slice, in order, each with the context of its slice. -/
def flatten (vs : List (Ctx × List α)) (e : Ending) : List (Notif α) :=
  nexts (vs.flatMap (fun p => p.2.map (fun x => (p.1, x)))) ++ e.toList

/-- Scan: every intermediate accumulator (`List.scanl` without the seed); the reducer receives
    the value's context, the accumulator, the value and its index, and the emission carries the
    context the reducer returned. (The context paired with the seed is dropped with it.) -/
def scan (f : Ctx → β → α → Nat → Ctx × β) (seed : β) (vs : List (Ctx × α)) (e : Ending) :
    List (Notif β) :=
  nexts ((vs.zipIdx.scanl (fun acc q => f q.1.1 acc.2 q.1.2 q.2) (Ctx.bg, seed)).drop 1) ++ e.toList

/-- the `j`-th consecutive chunk of `size` elements -/
def chunk {γ : Type} (size : Nat) (l : List γ) (j : Nat) : List γ := (l.drop (j * size)).take size

/-- the full chunks of `size` values, each emitted with the context of the value that filled it -/
def fullChunks (size : Nat) (vs : List (Ctx × α)) : List (Notif (List α)) :=
  (List.range (vs.length / size)).flatMap (fun j =>
    match (chunk size vs j).getLast? with
    | some p => [Notif.next p.1 ((chunk size vs j).map (·.2))]
    | none => [])

/-- what is left after the full chunks -/
def remainder {γ : Type} (size : Nat) (l : List γ) : List γ := l.drop (l.length / size * size)

/-- BufferWithCount(size), size ≥ 1, **as the code behaves**: the consecutive full chunks of
    `size` values (context of the value that filled the chunk); at completion the non-empty
    remainder (completion's context) and the completion; an error is forwarded WITHOUT flushing
    the remainder.

    NOTE (deviation from the documentation): the doc comment of `BufferWithCount` promises that
    the pending buffer is flushed before the error too; the code does not do it.  `bufferCountDoc`
    below is the documented reading; `bufferCount_doc_deviation` (RoProofs/Ops/TransformSpecs.lean)
    exhibits a script on which the two differ. -/
def bufferCount (size : Nat) (vs : List (Ctx × α)) (e : Ending) : List (Notif (List α)) :=
  fullChunks size vs ++
    match e with
    | .complete c =>
      (if (remainder size vs).isEmpty then [] else [Notif.next c ((remainder size vs).map (·.2))]) ++
        [Notif.complete c]
    | e => e.toList

/-- BufferWithCount(size) **as documented**: like `bufferCount`, but the non-empty remainder is
    also emitted (with the error's context) before an error. The code does NOT satisfy this. -/
def bufferCountDoc (size : Nat) (vs : List (Ctx × α)) (e : Ending) : List (Notif (List α)) :=
  fullChunks size vs ++
    match e with
    | .complete c =>
      (if (remainder size vs).isEmpty then [] else [Notif.next c ((remainder size vs).map (·.2))]) ++
        [Notif.complete c]
    | .error c err =>
      (if (remainder size vs).isEmpty then [] else [Notif.next c ((remainder size vs).map (·.2))]) ++
        [Notif.error c err]
    | .never => []

/-- Pairwise: `[previous, current]` from the second value on, with the context of `current`. -/
def pairwise (vs : List (Ctx × α)) (e : Ending) : List (Notif (List α)) :=
  (vs.zip (vs.drop 1)).map (fun pq => Notif.next pq.2.1 [pq.1.2, pq.2.2]) ++ e.toList

/-- StartWith: the prefixes first, with the subscription context `sub`; then the source. -/
def startWith (pre : List α) (sub : Ctx) (vs : List (Ctx × α)) (e : Ending) : List (Notif α) :=
  pre.map (Notif.next sub) ++ nexts vs ++ e.toList

/-- EndWith: the source's values; at completion the suffixes (completion's context) and then the
    completion; nothing is added before an error. -/
def endWith (suf : List α) (vs : List (Ctx × α)) : Ending → List (Notif α)
  | .complete c => nexts vs ++ suf.map (Notif.next c) ++ [.complete c]
  | e => nexts vs ++ e.toList

/-- the pass-through operators (`TapOnSubscribe`, `TapOnFinalize`, `Serialize`, `Tap`): the
    source, unchanged -/
def identity (vs : List (Ctx × α)) (e : Ending) : List (Notif α) := nexts vs ++ e.toList

/-- OnErrorReturn(v): an error is replaced by the value `v` (error's context) and a completion. -/
def onErrorReturn (v : α) (vs : List (Ctx × α)) : Ending → List (Notif α)
  | .error c _ => nexts vs ++ [.next c v, .complete c]
  | e => nexts vs ++ e.toList

/-- ThrowIfEmpty(err): the completion of a source that delivered no value becomes the error
    `err` (completion's context); everything else is unchanged. -/
def throwIfEmpty (err : Err) (vs : List (Ctx × α)) : Ending → List (Notif α)
  | .complete c => nexts vs ++ (if vs.isEmpty then [.error c err] else [.complete c])
  | e => nexts vs ++ e.toList

/-- Materialize: every notification of the source becomes a value (carried by the notification's
    own context); a materialised terminal is followed by a completion. -/
def materialize (vs : List (Ctx × α)) (e : Ending) : List (Notif (Notif α)) :=
  vs.map (fun p => Notif.next p.1 (Notif.next p.1 p.2)) ++
    match e with
    | .never => []
    | .error c err => [.next c (.error c err), .complete c]
    | .complete c => [.next c (.complete c), .complete c]

/-- the notification `n`, carried by the context `c` -/
def withCtx (c : Ctx) : Notif α → Notif α
  | .next _ v => .next c v
  | .error _ err => .error c err
  | .complete _ => .complete c

/-- Dematerialize: every value of the source is a notification, replayed with the context of the
    value that carries it.  The replayed values up to the first replayed terminal are delivered,
    then that terminal, which ends the stream; no materialised terminal: the source's ending. -/
def dematerialize (vs : List (Ctx × Notif α)) (e : Ending) : List (Notif α) :=
  let ns := vs.map (fun p => withCtx p.1 p.2)
  ns.takeWhile (fun n => !n.isTerminal) ++
    match ns.find? Notif.isTerminal with
    | some t => [t]
    | none => e.toList

/-- the key/value pairs `ToMap` inserts, in order (the projection receives the value's index) -/
def kvPairs (kv : Ctx → α → Nat → κ × β) (vs : List (Ctx × α)) : List (κ × β) :=
  vs.zipIdx.map (fun q => kv q.1.1 q.1.2 q.2)

/-- the map built by inserting the pairs in order, last write wins (`Ro.assocSet`); its meaning
    as a lookup table is `assocSet_lookup` (RoProofs/Ops/TransformSpecs.lean) -/
def buildMap [DecidableEq κ] (pairs : List (κ × β)) : List (κ × β) :=
  pairs.foldl (fun m p => assocSet m p.1 p.2) []

/-- ToMap: at completion, the map of all the key/value pairs (last write wins), then the
    completion; nothing on error. -/
def toMap [DecidableEq κ] (kv : Ctx → α → Nat → κ × β) (vs : List (Ctx × α)) :
    Ending → List (Notif (List (κ × β)))
  | .complete c => [.next c (buildMap (kvPairs kv vs)), .complete c]
  | e => e.toList

end Ro.Spec

/-
  RoModel.Spec.Create — the documented meaning of the synchronous creation operators as plain
  list expressions (`List.map`, `List.range`, `List.replicate`, `List.flatten`) of their
  parameters and the subscription context `c`. Core Lean only.
-/
import RoModel.Basic
namespace Ro.Spec
open Ro
variable {α : Type}

/-- Of / Just: the values, in order, then completion. -/
def ofScript (vs : List α) (c : Ctx) : List (Notif α) := vs.map (Notif.next c) ++ [.complete c]

/-- FromSlice: the values of all the slices, in order, then completion. -/
def fromSliceScript (vss : List (List α)) (c : Ctx) : List (Notif α) :=
  vss.flatten.map (Notif.next c) ++ [.complete c]

/-- Empty: completion only. -/
def emptyScript (c : Ctx) : List (Notif α) := [.complete c]

/-- Throw: the error only. -/
def throwScript (e : Err) (c : Ctx) : List (Notif α) := [.error c e]

/-- the values of `Range(start, end)`: "[start:end) … if start is greater than end, the emitted
    values are in descending order; the step is 1" -/
def rangeValues (start endv : Int) : List Int :=
  if start ≤ endv then (List.range (endv - start).toNat).map (fun (i : Nat) => start + (i : Int))
  else (List.range (start - endv).toNat).map (fun (i : Nat) => start - (i : Int))

/-- Range: its values then completion (`start = end`: no value, completion — "an empty
    Observable is returned"). -/
def rangeScript (start endv : Int) (c : Ctx) : List (Notif Int) :=
  (rangeValues start endv).map (Notif.next c) ++ [.complete c]

/-- the values of `RangeWithStep(start, end, step)`, `step > 0`: "[start:end) … descending when start is greater than
    end": `start ± i·step` for every `i` with `i·step < |end - start|` — that is `⌈|end - start| / step⌉` values -/
def rangeStepValues (start endv : Int) (step : Nat) : List Int :=
  (List.range (((endv - start).natAbs + step - 1) / step)).map
    (fun (i : Nat) => if start ≤ endv then start + ((i * step : Nat) : Int) else start - ((i * step : Nat) : Int))

def rangeStepScript (start endv : Int) (step : Nat) (c : Ctx) : List (Notif Int) :=
  (rangeStepValues start endv step).map (Notif.next c) ++ [.complete c]

/-- Repeat: `count` copies of the item, then completion. -/
def repeatScript (item : α) (count : Nat) (c : Ctx) : List (Notif α) :=
  List.replicate count (Notif.next c item) ++ [.complete c]

/-- Start with a callback that returns `v`: that value, then completion. -/
def startScript (v : α) (c : Ctx) : List (Notif α) := [.next c v, .complete c]

/-- a subscribe function that panics with `p` before emitting: the panic surfaces once, as an
    Error wrapping the panic value (C07), with the subscription context -/
def panicScript (p : Err) (c : Ctx) : List (Notif α) := [.error c (.observable p)]

end Ro.Spec

/-
  RoModel.Spec.Timed — what property C16 says about one observed timed trace, as decidable
  propositions, and the executable acceptor `accepts` that is their decision procedure.

  Only LOWER bounds on time and order / count relations occur (a loaded machine makes everything
  later, never earlier), and every bound is taken between a stamp that lies before the earlier event
  and a stamp that lies after the later one (see RoModel/Timed.lean for where the stamps are taken).

  Clauses, all relative to one subscription:
    G1 `GrammarOK`  nothing is delivered after a terminal;
    G2 `SilentOK`   silence after `Unsubscribe`: none after an `Unsubscribe` made inside a delivery; at
                    most one delivery begins after an `Unsubscribe` from another goroutine returned
                    (the one that had already passed `subscriberImpl`'s status test,
                    `subscriber.go:176-199` — `Unsubscribe` does not wait for it, `:260-264`);
                    silence after context cancellation, as a COUNT (no upper bound on time): the
                    deliveries that begin after `cancel()` returned are at most `cancelSlack` (ticks the
                    `select` loop may still take, the one under way included) + 2 (the flush and the
                    terminal that the cancellation itself produces) + one per source call that returned
                    after the cancellation (a count-flush, or the flush of the source's completion) —
                    however late they arrive; a stream that keeps delivering is rejected;
    per operator `OpAt` (one condition per delivery, indexed by its position `k`).
-/
import RoModel.Timed
namespace Ro.Timed

/-! ### helpers -/

/-- the context cancellation had been requested (stamp before `cancel()`) by time `t` -/
def CancelledBy (tr : TimedTrace) (t : Time) : Prop :=
  match tr.cut with
  | .cancel c0 _ => c0 ≤ t
  | _ => False

instance (tr : TimedTrace) (t : Time) : Decidable (CancelledBy tr t) := by
  unfold CancelledBy; split <;> infer_instance

/-- the first source emission carrying notification `n`, with its index -/
def srcOf (tr : TimedTrace) (n : TN) : Option (Nat × Ev) :=
  match tr.emits.findIdx? (fun e => e.n == n) with
  | some j => (tr.emits[j]?).map (fun e => (j, e))
  | none => none

def srcIdx (tr : TimedTrace) (v : Int) : Option Nat := (srcOf tr (.next v)).map (·.1)

/-- strict order on optional indices; an unknown index is never in order -/
def OptLt : Option Nat → Option Nat → Prop
  | some x, some y => x < y
  | _, _ => False

instance (a b : Option Nat) : Decidable (OptLt a b) := by
  unfold OptLt; split <;> infer_instance

/-- entry stamp of delivery `j` -/
def startOf (tr : TimedTrace) (j : Nat) : Time :=
  match tr.dels[j]? with
  | some e => e.t0
  | none => 0

/-- the instant from which the quiet period before delivery `j` is measured: the subscription for
    `j = 0`, the END of delivery `j-1` otherwise -/
def endBefore (tr : TimedTrace) : Nat → Time
  | 0 => tr.sub
  | j + 1 => match tr.dels[j]? with
    | some e => e.t1
    | none => 0

/-- delivery `k` comes from source emission `j`, later in the source than what delivery `k-1` came from -/
def AfterPrev (tr : TimedTrace) (k j : Nat) : Prop :=
  k = 0 ∨ OptLt (((tr.dels[k-1]?).bind (fun pd => srcOf tr pd.n)).map (·.1)) (some j)

instance (tr : TimedTrace) (k j : Nat) : Decidable (AfterPrev tr k j) := by
  unfold AfterPrev; infer_instance

/-- the delivered notification is one the source emitted, emitted before it was delivered, and
    later in the source than the previous delivery -/
def FromSource (tr : TimedTrace) (k : Nat) (dl : Ev) : Prop :=
  match srcOf tr dl.n with
  | some (j, e) => e.t0 ≤ dl.t0 ∧ AfterPrev tr k j
  | none => False

instance (tr : TimedTrace) (k : Nat) (dl : Ev) : Decidable (FromSource tr k dl) := by
  unfold FromSource; split <;> infer_instance

/-! ### general clauses -/

def GrammarOK (tr : TimedTrace) : Prop :=
  ∀ k (h : k < tr.dels.length), tr.dels[k].n.isTerminal = true → k + 1 = tr.dels.length

instance (tr : TimedTrace) : Decidable (GrammarOK tr) := by unfold GrammarOK; infer_instance

def SilentOK (tr : TimedTrace) : Prop :=
  match tr.cut with
  | .unsubOut _ u1 => (tr.dels.filter (fun e => decide (u1 < e.t0))).length ≤ 1
  | .unsubIn k _ _ => tr.dels.length ≤ k + 1
  | .cancel _ c1 =>
    lateCount c1 tr.dels ≤ cancelSlack + 2 + (tr.emits.filter (fun e => decide (c1 < e.t1))).length
  | .none => True

instance (tr : TimedTrace) : Decidable (SilentOK tr) := by unfold SilentOK; split <;> infer_instance

/-! ### per operator -/

/-- Delay (`operator_utility.go:293-367`): the k-th delivery is the k-th emission, no sooner than
    `d` after it was emitted. -/
def DelayAt (d : Nat) (tr : TimedTrace) (k : Nat) (dl : Ev) : Prop :=
  match tr.emits[k]? with
  | some e => dl.n = e.n ∧ e.t0 + d ≤ dl.t0
  | none => False

instance (d : Nat) (tr : TimedTrace) (k : Nat) (dl : Ev) : Decidable (DelayAt d tr k dl) := by
  unfold DelayAt; split <;> infer_instance

/-- DelayEach (`operator_utility.go:371-389`): values sleep `d` on the producer's goroutine, terminals
    pass at once. -/
def DelayEachAt (d : Nat) (tr : TimedTrace) (k : Nat) (dl : Ev) : Prop :=
  match tr.emits[k]? with
  | some e => dl.n = e.n ∧ e.t0 + (if e.n.isTerminal then 0 else d) ≤ dl.t0
  | none => False

instance (d : Nat) (tr : TimedTrace) (k : Nat) (dl : Ev) : Decidable (DelayEachAt d tr k dl) := by
  unfold DelayEachAt; split <;> infer_instance

/-- Timeout (`operator_utility.go:437-477`): everything else is forwarded unchanged and in order; the
    timeout error comes only after a full quiet period — some `j ≤ k` such that nothing was delivered
    for `d` after the end of delivery `j-1` (the subscription for `j = 0`): delivery `j` (the error
    itself for `j = k`) begins at least `d` later. -/
def TimeoutAt (d : Nat) (tr : TimedTrace) (k : Nat) (dl : Ev) : Prop :=
  if dl.n = .error errTimeout then
    ∃ j, j < k + 1 ∧ endBefore tr j + d ≤ startOf tr j
  else
    match tr.emits[k]? with
    | some e => dl.n = e.n ∧ e.t0 ≤ dl.t0
    | none => False

instance (d : Nat) (tr : TimedTrace) (k : Nat) (dl : Ev) : Decidable (TimeoutAt d tr k dl) := by
  unfold TimeoutAt; split
  · infer_instance
  · split <;> infer_instance

/-- Interval (`operator_creation.go:85-115`): the k-th delivery is the value `k`, not before `k+1`
    periods; it never fails, and completes only once the context was cancelled. -/
def IntervalAt (p : Nat) (tr : TimedTrace) (k : Nat) (dl : Ev) : Prop :=
  match dl.n with
  | .next v => v = (k : Int) ∧ tr.sub + (k + 1) * p ≤ dl.t0
  | .complete => CancelledBy tr dl.t0
  | _ => False

instance (p : Nat) (tr : TimedTrace) (k : Nat) (dl : Ev) : Decidable (IntervalAt p tr k dl) := by
  unfold IntervalAt; split <;> infer_instance

/-- IntervalWithInitial (`operator_creation.go:122-172`): value `k` not before the initial delay plus
    `k` periods. -/
def IwiAt (i p : Nat) (tr : TimedTrace) (k : Nat) (dl : Ev) : Prop :=
  match dl.n with
  | .next v => v = (k : Int) ∧ tr.sub + i + k * p ≤ dl.t0
  | .complete => CancelledBy tr dl.t0
  | _ => False

instance (i p : Nat) (tr : TimedTrace) (k : Nat) (dl : Ev) : Decidable (IwiAt i p tr k dl) := by
  unfold IwiAt; split <;> infer_instance

/-- Timer (`operator_creation.go:59-79`): the duration once, not before it elapsed, then completion;
    the context's error only once the context was cancelled. -/
def TimerAt (d : Nat) (tr : TimedTrace) (k : Nat) (dl : Ev) : Prop :=
  match dl.n with
  | .next v => k = 0 ∧ v = (d : Int) ∧ tr.sub + d ≤ dl.t0
  | .complete => k = 1
  | .error c => c = errCancelled ∧ k = 0 ∧ CancelledBy tr dl.t0
  | .buf _ => False

instance (d : Nat) (tr : TimedTrace) (k : Nat) (dl : Ev) : Decidable (TimerAt d tr k dl) := by
  unfold TimerAt; split <;> infer_instance

/-- RangeWithInterval (`operator_creation.go:245-265`): `|b-a|` values from `a` towards `b`, the
    k-th not before `k+1` periods, then completion (or completion after cancellation). -/
def RangeAt (a b : Int) (step p : Nat) (tr : TimedTrace) (k : Nat) (dl : Ev) : Prop :=
  match dl.n with
  | .next v => k < rangeCount a b step ∧ v = rangeVal a b step k ∧ tr.sub + (k + 1) * p ≤ dl.t0
  | .complete => k = rangeCount a b step ∨ CancelledBy tr dl.t0
  | _ => False

instance (a b : Int) (step p : Nat) (tr : TimedTrace) (k : Nat) (dl : Ev) : Decidable (RangeAt a b step p tr k dl) := by
  unfold RangeAt; split <;> infer_instance

/-- ThrottleTime (`operator_transformations.go:829-855`): what passes is a source notification, in
    source order; a value passes no sooner than the window after the EMISSION of the previous value
    that passed (the operator read its clock between our two stamps). -/
def ThrottleAt (w : Nat) (tr : TimedTrace) (k : Nat) (dl : Ev) : Prop :=
  match srcOf tr dl.n with
  | none => False
  | some (j, e) =>
    e.t0 ≤ dl.t0 ∧
    (k = 0 ∨
      match (tr.dels[k-1]?).bind (fun pd => srcOf tr pd.n) with
      | none => False
      | some (j', pe) => j' < j ∧ (dl.n.isTerminal = true ∨ pe.t0 + w ≤ dl.t0))

instance (w : Nat) (tr : TimedTrace) (k : Nat) (dl : Ev) : Decidable (ThrottleAt w tr k dl) := by
  unfold ThrottleAt; split
  · infer_instance
  · refine @instDecidableAnd _ _ _ (@instDecidableOr _ _ _ ?_)
    split <;> infer_instance

/-- "always the latest": no LATER source value had already been handed over (its call had returned)
    before the earliest instant at which the tick that produced sample `k` can have been handled:
    the `k+1`-th tick is not before `k+1` periods, and the ticks are handled one after the other, so
    not before the previous sample's delivery ended. -/
def LatestOne (p : Nat) (tr : TimedTrace) (k j2 : Nat) : Prop :=
  match tr.emits[j2]? with
  | some e2 => e2.n.isTerminal = true ∨ ¬ (e2.t1 < max (tr.sub + (k + 1) * p) (endBefore tr k))
  | none => True

instance (p : Nat) (tr : TimedTrace) (k j2 : Nat) : Decidable (LatestOne p tr k j2) := by
  unfold LatestOne; split <;> infer_instance

def LatestAt (p : Nat) (tr : TimedTrace) (k j : Nat) : Prop :=
  ∀ j2, j2 < tr.emits.length → j < j2 → LatestOne p tr k j2

instance (p : Nat) (tr : TimedTrace) (k j : Nat) : Decidable (LatestAt p tr k j) := by
  unfold LatestAt; infer_instance

/-- SampleTime (`operator_transformations.go:707-775`): the k-th sample not before `k+1` periods (at
    most one per tick), a source value, in source order, the latest; terminals are the source's, or
    completion after cancellation. -/
def SampleAt (p : Nat) (tr : TimedTrace) (k : Nat) (dl : Ev) : Prop :=
  match dl.n with
  | .next _ =>
    (match srcOf tr dl.n with
      | some (j, e) => e.t0 ≤ dl.t0 ∧ AfterPrev tr k j ∧ LatestAt p tr k j
      | none => False) ∧ tr.sub + (k + 1) * p ≤ dl.t0
  | .complete => FromSource tr k dl ∨ CancelledBy tr dl.t0
  | .error _ => FromSource tr k dl
  | .buf _ => False

instance (p : Nat) (tr : TimedTrace) (k : Nat) (dl : Ev) : Decidable (SampleAt p tr k dl) := by
  unfold SampleAt; split
  · refine @instDecidableAnd _ _ ?_ _
    split <;> infer_instance
  all_goals infer_instance

/-- the values of one buffer are consecutive source values -/
def ContigAt (tr : TimedTrace) (vs : List Int) (i : Nat) : Prop :=
  match (vs[i]?).bind (srcIdx tr), (vs[i+1]?).bind (srcIdx tr) with
  | some j, some j' => j + 1 = j'
  | _, _ => False

instance (tr : TimedTrace) (vs : List Int) (i : Nat) : Decidable (ContigAt tr vs i) := by
  unfold ContigAt; split <;> infer_instance

def Contiguous (tr : TimedTrace) (vs : List Int) : Prop :=
  ∀ i, i < vs.length - 1 → ContigAt tr vs i

instance (tr : TimedTrace) (vs : List Int) : Decidable (Contiguous tr vs) := by
  unfold Contiguous; infer_instance

/-- every value of the earlier buffer `k'` is earlier in the source than every value of this one -/
def EarlierBufAt (tr : TimedTrace) (vs : List Int) (k' : Nat) : Prop :=
  match tr.dels[k']? with
  | some ⟨_, _, .buf vs'⟩ => ∀ v' ∈ vs', ∀ v ∈ vs, OptLt (srcIdx tr v') (srcIdx tr v)
  | _ => True

instance (tr : TimedTrace) (vs : List Int) (k' : Nat) : Decidable (EarlierBufAt tr vs k') := by
  unfold EarlierBufAt; split <;> infer_instance

def AfterEarlierBuffers (tr : TimedTrace) (k : Nat) (vs : List Int) : Prop :=
  ∀ k', k' < k → EarlierBufAt tr vs k'

instance (tr : TimedTrace) (k : Nat) (vs : List Int) : Decidable (AfterEarlierBuffers tr k vs) := by
  unfold AfterEarlierBuffers; infer_instance

/-- How many buffers can have been flushed by something other than a tick by time `t`: one by the
    source's completion, one by the completion of the ticker after a cancellation, and — with a
    count — one per `n` values handed over. -/
def extraFlushes (cnt : Option Nat) (tr : TimedTrace) (t : Time) : Nat :=
  (if (tr.emits.any (fun e => e.n == .complete && decide (e.t0 ≤ t))) then 1 else 0)
  + (if CancelledBy tr t then 1 else 0)
  + (match cnt with
     | some n => (tr.emits.filter (fun e => !e.n.isTerminal && decide (e.t0 ≤ t))).length / n
     | none => 0)

/-- BufferWithTime / BufferWithTimeOrCount (`operator_transformations.go:396-549, 603-609`): only
    source values, each after it was emitted, consecutive inside a buffer, buffers in source order,
    no more than `n` per buffer, and no more buffers than ticks (k-th tick not before k periods) plus
    the flushes that do not need a tick. -/
def BufferAt (cnt : Option Nat) (xo : Bool) (p : Nat) (tr : TimedTrace) (k : Nat) (dl : Ev) : Prop :=
  match dl.n with
  | .buf vs =>
    (match cnt with | some n => vs.length ≤ n | none => True)
    ∧ (∀ v ∈ vs, match srcOf tr (.next v) with | some (_, e) => e.t0 ≤ dl.t0 | none => False)
    ∧ Contiguous tr vs
    ∧ (xo = true → AfterEarlierBuffers tr k vs)
    ∧ tr.sub + (k + 1 - extraFlushes cnt tr dl.t0) * p ≤ dl.t0
  | .complete => (match srcOf tr dl.n with | some (_, e) => e.t0 ≤ dl.t0 | none => False) ∨ CancelledBy tr dl.t0
  | .error _ => (match srcOf tr dl.n with | some (_, e) => e.t0 ≤ dl.t0 | none => False)
  | .next _ => False

instance (tr : TimedTrace) (n : TN) (t : Time) : Decidable
    (match srcOf tr n with | some (_, e) => e.t0 ≤ t | none => False) := by
  split <;> infer_instance

instance (cnt : Option Nat) (vs : List Int) : Decidable (match cnt with | some n => vs.length ≤ n | none => True) := by
  split <;> infer_instance

instance (cnt : Option Nat) (xo : Bool) (p : Nat) (tr : TimedTrace) (k : Nat) (dl : Ev) : Decidable (BufferAt cnt xo p tr k dl) := by
  unfold BufferAt; split <;> infer_instance

/-! ### the clause of one operator, and the acceptor -/

def OpAt (cfg : Cfg) (tr : TimedTrace) (k : Nat) (dl : Ev) : Prop :=
  match cfg.op with
  | .delay => DelayAt cfg.d tr k dl
  | .delayEach => DelayEachAt cfg.d tr k dl
  | .timeout => TimeoutAt cfg.d tr k dl
  | .interval => IntervalAt cfg.d tr k dl
  | .intervalWithInitial => IwiAt cfg.d2 cfg.d tr k dl
  | .timer => TimerAt cfg.d tr k dl
  | .rangeWithInterval => RangeAt cfg.a cfg.b cfg.step cfg.d tr k dl
  | .throttleTime => ThrottleAt cfg.d tr k dl
  | .sampleTime => SampleAt cfg.d tr k dl
  | .bufferWithTime => BufferAt none cfg.xorder cfg.d tr k dl
  | .bufferWithTimeOrCount => BufferAt (some cfg.n) cfg.xorder cfg.d tr k dl

instance (cfg : Cfg) (tr : TimedTrace) (k : Nat) (dl : Ev) : Decidable (OpAt cfg tr k dl) := by
  unfold OpAt; split <;> infer_instance

def OpOK (cfg : Cfg) (tr : TimedTrace) : Prop :=
  ∀ k (h : k < tr.dels.length), OpAt cfg tr k tr.dels[k]

instance (cfg : Cfg) (tr : TimedTrace) : Decidable (OpOK cfg tr) := by unfold OpOK; infer_instance

/-- C16 for one observed subscription. -/
def Clause (cfg : Cfg) (tr : TimedTrace) : Prop := GrammarOK tr ∧ SilentOK tr ∧ OpOK cfg tr

instance (cfg : Cfg) (tr : TimedTrace) : Decidable (Clause cfg tr) := by unfold Clause; infer_instance

/-- The executable acceptor: the decision procedure of `Clause`. -/
def accepts (cfg : Cfg) (tr : TimedTrace) : Bool := decide (Clause cfg tr)

/-- which part rejects (for the replay file). `buffer-order`: a `BufferWithTimeOrCount` trace that
    satisfies every clause except the order ACROSS buffers — the class of the known finding
    "unlock-then-emit window" (ticker flush against count flush; `C16.buffer_window_witness`). -/
def why (cfg : Cfg) (tr : TimedTrace) : String :=
  if cfg.op = .bufferWithTimeOrCount ∧ Clause { cfg with xorder := false } tr then "buffer-order"
  else if ¬ GrammarOK tr then "after-terminal"
  else if ¬ SilentOK tr then (match tr.cut with | .cancel _ _ => "after-cancel" | _ => "after-unsubscribe")
  else
    match (List.range tr.dels.length).find? (fun k => match tr.dels[k]? with
        | some dl => !decide (OpAt cfg tr k dl)
        | none => false) with
    | some k => s!"delivery-{k}"
    | none => "-"

end Ro.Timed

/-
  RoModel.Spec.Multi — what the *definition* of each multi-source operator of the first half of the
  C05 family assigns to an arrival order. An arrival order is a list of events `(k, n)`: source `k`
  sent notification `n`; the list is in the order the notifications arrived at the operator.

  Every specification works on the arrival order after the per-source subscriber gate
  (`gateEvents`: a source is not heard any more after its own first terminal — C01) and is a
  plain recursive function over that list; nothing here mentions subscriptions, counters, flags
  or locks.
-/
import RoModel.Multi.Core
namespace Ro.Multi.Spec
open Ro Ro.Multi

variable {α : Type}

/-- per-source gate over an arrival order: the events of source `k` after `k`'s first terminal
    are not heard (`closed k`: source `k` has already sent a terminal) -/
def gateEventsFrom (closed : Nat → Bool) : List (MEvent α) → List (MEvent α)
  | [] => []
  | e :: es =>
    if closed e.1 then gateEventsFrom closed es
    else e :: gateEventsFrom (if e.2.isTerminal then setAt closed e.1 true else closed) es

def gateEvents (evs : List (MEvent α)) : List (MEvent α) := gateEventsFrom (fun _ => false) evs

/-- the notifications of source `k` in an arrival order -/
def ofSource (k : Nat) (evs : List (MEvent α)) : List (Notif α) := (evs.filter (fun e => e.1 == k)).map (·.2)

/-- only the events of sources satisfying `p` -/
def restrict (p : Nat → Bool) (evs : List (MEvent α)) : List (MEvent α) := evs.filter (fun e => p e.1)

/-! ### merge — `n` sources subscribed from the start

Values are delivered in arrival order; the first error ends the output with that error; the
output completes (with the subscriber's context) when all `n` sources have completed. `live` is
the number of sources that have not completed yet. -/
def merge (sub : Ctx) : Nat → List (MEvent α) → List (Notif α)
  | 0, _ => [.complete sub]
  | _ + 1, [] => []
  | live + 1, (_, .next c v) :: es => .next c v :: merge sub (live + 1) es
  | _ + 1, (_, .error c e) :: _ => [.error c e]
  | live + 1, (_, .complete _) :: es => merge sub live es

/-! ### race — mirror the first source to notify: the winner is the source of the first event,
    the output is what that source sends (up to its terminal) -/
def race : List (MEvent α) → List (Notif α)
  | [] => []
  | (w, n) :: es => gate (ofSource w ((w, n) :: es))

/-! ### takeUntil — source 0 until the first value of the signal (source 1)

`sigErr = true` is the definition (an error of the signal ends the output, as an error of any source
does); `sigErr = false` describes the pinned code, which does not listen to the signal's error. -/
def takeUntil (sigErr : Bool) : List (MEvent α) → List (Notif α)
  | [] => []
  | (0, .next c v) :: es => .next c v :: takeUntil sigErr es
  | (0, .error c e) :: _ => [.error c e]
  | (0, .complete c) :: _ => [.complete c]
  | (_ + 1, .next c _) :: _ => [.complete c]
  | (_ + 1, .error c e) :: es => if sigErr then [.error c e] else takeUntil sigErr es
  | (_ + 1, .complete _) :: es => takeUntil sigErr es

/-! ### skipUntil — source 0 from the first value of the signal on (`ready`: the signal has fired) -/
def skipUntil (sigErr : Bool) : Bool → List (MEvent α) → List (Notif α)
  | _, [] => []
  | ready, (0, .next c v) :: es => if ready then .next c v :: skipUntil sigErr ready es else skipUntil sigErr ready es
  | _, (0, .error c e) :: _ => [.error c e]
  | _, (0, .complete c) :: _ => [.complete c]
  | _, (_ + 1, .next _ _) :: es => skipUntil sigErr true es
  | ready, (_ + 1, .error c e) :: es => if sigErr then [.error c e] else skipUntil sigErr ready es
  | ready, (_ + 1, .complete _) :: es => skipUntil sigErr ready es

/-! ### sampleWhen — at each tick (source 1) the latest value of source 0 that has not been sampled
    yet, with its own context: at most one per tick; either source's terminal is forwarded -/
def sampleWhen : Option (Ctx × α) → List (MEvent α) → List (Notif α)
  | _, [] => []
  | _, (_, .error c e) :: _ => [.error c e]
  | _, (_, .complete c) :: _ => [.complete c]
  | _, (0, .next c v) :: es => sampleWhen (some (c, v)) es
  | some (lc, lv), (_ + 1, .next _ _) :: es => .next lc lv :: sampleWhen none es
  | none, (_ + 1, .next _ _) :: es => sampleWhen none es

/-! ### throttleWhen — a tick (source 1) arms the gate; the next value of source 0 passes and
    disarms it: at most one value per tick; either source's terminal is forwarded -/
def throttleWhen : Bool → List (MEvent α) → List (Notif α)
  | _, [] => []
  | _, (_, .error c e) :: _ => [.error c e]
  | _, (_, .complete c) :: _ => [.complete c]
  | armed, (0, .next c v) :: es => if armed then .next c v :: throttleWhen false es else throttleWhen false es
  | _, (_ + 1, .next _ _) :: es => throttleWhen true es

/-! ### mergeAll / mergeMap — an outer source (0) whose values name the inner sources to listen to

`heard` walks the raw arrival order: an inner source is heard from the moment the outer value that
names it arrives (what a hot inner source sent before is lost), every source until its own first
terminal. `mergeAll` then reads the heard events: inner values in arrival order, first error ends,
completion when the outer and every named inner source have completed, with the context of the
outer's completion. -/
def heard (proj : Ctx → α → Nat → Ctx × Nat) : (Nat → Bool) → (Nat → Bool) → Nat → List (MEvent α) → List (MEvent α)
  | _, _, _, [] => []
  | listening, closed, i, (k, n) :: es =>
    if !listening k || closed k then heard proj listening closed i es
    else
      let closed' := if n.isTerminal then setAt closed k true else closed
      match k, n with
      | 0, .next c v => (k, n) :: heard proj (setAt listening (proj c v i).2 true) closed' (i + 1) es
      | _, _ => (k, n) :: heard proj listening closed' i es

def mergeAll : Nat → Ctx → List (MEvent α) → List (Notif α)
  | _, _, [] => []
  | _, _, (_, .error c e) :: _ => [.error c e]
  | live, p, (0, .next _ _) :: es => mergeAll (live + 1) p es
  | live, _, (0, .complete c) :: es => if live ≤ 1 then [.complete c] else mergeAll (live - 1) c es
  | live, p, (_ + 1, .next c v) :: es => .next c v :: mergeAll live p es
  | live, p, (_ + 1, .complete _) :: es => if live ≤ 1 then [.complete p] else mergeAll (live - 1) p es

end Ro.Multi.Spec

/-
  RoModel.Spec.Prom — what property C19 says, in the vocabulary of `RoModel.Prom`.

  * transparency: the subscriber of the instrumented pipeline observes what the subscriber of the
    plain pipeline observes — same notifications in the same order with the same context values
    (contexts are compared by what code outside the plugin's package can read of them, i.e. up to
    the unexported checkpoint key), the source subscribed and released equally often;
  * exact counters, one subscription: one subscription counted, notifications-in = values the
    source emitted while subscribed, notifications-out = values delivered, one lag observation per
    source value, one processing-time observation per value leaving each operator;
  * what the pinned tree guarantees instead for the two time observers (`ExactPinned`): a lag
    observation for every source value whose context is not nil, a processing-time observation for
    every value that leaves the operator with a (non-nil) context carrying the checkpoint;
  * the table predicates for pipe.go / license.go / operator.go (`RoGen.Prom`).
-/
import RoModel.Prom
import RoModel.Facts
namespace Ro.Prom.Spec
open Ro Ro.Prom Ro.Facts

variable {α : Type}

/-- two subscriptions look the same from outside -/
def SameObservation {ms ms' : List (AnyM α)} (r : Run ms) (r' : Run ms') : Prop :=
  eraseL r.out = eraseL r'.out ∧ r.srcSubs = r'.srcSubs ∧ r.rel = r'.rel

/-- the counters of one subscription of the instrumented pipeline, as the property states them -/
structure Exact (ms : List (AnyM α)) (r : Run (instrument ms)) : Prop where
  subs : (counters ms r.cfg).subs = 1
  inN : (counters ms r.cfg).inN = countNext r.cfg.1.seen
  outN : (counters ms r.cfg).outN = countNext r.out
  lag : (counters ms r.cfg).lag = countNext r.cfg.1.seen
  proc : (counters ms r.cfg).proc = (tailSeen ms r.cfg.2).map countNext

/-- … and as the pinned tree computes them -/
structure ExactPinned (ms : List (AnyM α)) (r : Run (instrument ms)) : Prop where
  subs : (counters ms r.cfg).subs = 1
  inN : (counters ms r.cfg).inN = countNext r.cfg.1.seen
  outN : (counters ms r.cfg).outN = countNext r.out
  lag : (counters ms r.cfg).lag = countNonNilNext r.cfg.1.seen
  proc : (counters ms r.cfg).proc = (tailSeen ms r.cfg.2).map countStampedNext

/-- every value that left an operator carried a non-nil context with the checkpoint -/
def AllStamped (ms : List (AnyM α)) (r : Run (instrument ms)) : Prop :=
  ∀ l ∈ tailSeen ms r.cfg.2, countStampedNext l = countNext l

/-- the source never emitted a value with a nil context -/
def SourceNonNil (ms : List (AnyM α)) (r : Run (instrument ms)) : Prop :=
  countNonNilNext r.cfg.1.seen = countNext r.cfg.1.seen

/-! ### table predicates (go/extract/prom.go → RoGen/Prom.lean) -/

/-- `op(i+1), obs i, op(i+2), obs(i+1), …` (n pairs) -/
def layoutFrom (i : Nat) : Nat → List PromSlot
  | 0 => []
  | n + 1 => PromSlot.op (i + 1) :: PromSlot.obs i i :: layoutFrom (i + 1) n

/-- `op1, obs0, op2, obs1, …`: observer i follows operator i+1 and carries argument i and index i -/
def layout (n : Nat) : List PromSlot := layoutFrom 0 n

/-- what a slot of the table denotes in the model, for the operators `ms` passed to `PipeN` -/
def interp (ms : List (AnyM α)) : PromSlot → Option (AnyM α)
  | .op k => if k = 0 then none else ms[k - 1]?
  | .obs _ _ => some AnyM.proc
  | .other _ => none

/-- erasing the observers -/
def eraseObs : List PromSlot → List PromSlot
  | [] => []
  | .obs _ _ :: l => eraseObs l
  | s :: l => s :: eraseObs l

def PipeOk (p : PromPipe) : Prop :=
  p.name = "Pipe" ++ toString p.arity ∧
  -- the description skips exactly the parameters that are not operators
  p.leading = 2 ∧ p.skipCaller = 0 ∧ p.skipArgs = p.leading ∧
  p.argDecls = List.range p.arity ∧
  p.collector = "newPrometheusCollector(collectorConfig, pipeDescription)" ∧
  p.call = "checkLicenseAndPipe" ∧ p.callHead = "collector,source" ∧ p.returnsCollector = true ∧
  -- plain composition: ro.PipeOpN(operator1 … operatorN)
  p.plainAritiesOk = true ∧ p.plain = (List.range p.arity).map (· + 1) ∧
  -- instrumented composition: ro.PipeOp…(operator1, obs0, operator2, obs1, …) (nested calls
  -- flattened; ro.PipeOpK applies its K arguments in order): observer i follows operator i+1
  p.instrAritiesOk = true ∧ p.instr = layout p.arity ∧
  -- erasing the observers from the instrumented composition gives the plain one
  eraseObs p.instr = p.plain.map PromSlot.op

instance (p : PromPipe) : Decidable (PipeOk p) := by unfold PipeOk; infer_instance

/-- every generated arity 1..N is present, in order, and well-formed -/
def PipesOk (ps : List PromPipe) : Prop :=
  ps.map (·.arity) = (List.range ps.length).map (· + 1) ∧ ∀ p ∈ ps, PipeOk p

instance (ps : List PromPipe) : Decidable (PipesOk ps) := by unfold PipesOk; infer_instance

def WrapOk (fn : String) (w : List String) : Prop :=
  fn = "ro.PipeOp3" ∧
  w = ["observeBeforePipe(NotificationsInTotal,NotificationLagSeconds)", "operators",
       "observeAfterPipe(NotificationsOutTotal,SubscriptionsTotal)"]

instance (fn : String) (w : List String) : Decidable (WrapOk fn w) := by unfold WrapOk; infer_instance

/-- the licence is read when the pipeline is subscribed and selects the composition; the
    selected composition is subscribed with the subscriber's context and observer, and its
    `Unsubscribe` is the teardown -/
def LicenceOk (l : PromLicence) : Prop :=
  l.enabled = "return bypassLicenseCheck || rolicense.IsEnterpriseEnabled()" ∧
  l.bypassDefault = "false" ∧
  l.ctor = "ro.NewUnsafeObservableWithContext" ∧
  l.cond = "isPrometheusEnabled()" ∧
  l.thenBranch = "p = wrapPipeWithObservability(collector, instrumentedPipe)" ∧
  l.elseBranch = "p = stdPipe" ∧
  l.subscribe = "sub := p(source).SubscribeWithContext(subscriberCtx, destination)" ∧
  l.returns = "return sub.Unsubscribe"

instance (l : PromLicence) : Decidable (LicenceOk l) := by unfold LicenceOk; infer_instance

/-- a callback forwards its notification exactly once and unchanged -/
def forwardsOnce (fwd : PromEv) (evs : List PromEv) : Bool :=
  evs == [.direct] || ((evs.filter (· == fwd)).length == 1 && !evs.contains .direct)

def _root_.Ro.Facts.PromEv.isFwd : PromEv → Bool
  | .fwdNext | .fwdError | .fwdComplete | .fwdModified _ | .direct => true
  | _ => false

def _root_.Ro.Facts.PromEv.isInc : PromEv → Bool
  | .inc _ => true
  | _ => false

/-- nothing the extractor could not classify, no forward of a modified notification or under a
    condition, no forward of another kind of notification -/
def cleanEvents (fwd : PromEv) (evs : List PromEv) : Bool :=
  evs.all (fun e => match e with
    | .other _ => false
    | .fwdModified _ => false
    | e => !e.isFwd || e == fwd || e == .direct)

/-- every increment precedes the forward (`increment before forwarding`) -/
def incBeforeFwd : List PromEv → Bool
  | [] => true
  | e :: rest => if e.isFwd then rest.all (fun x => !x.isInc) else incBeforeFwd rest

/-- shape every wrapper of operator.go has to have: one upstream subscription with the
    subscriber's context, each kind of notification forwarded exactly once and unchanged,
    counters incremented before forwarding, only counter increments before subscribing
    upstream, the upstream `Unsubscribe` returned -/
def WrapperOk (w : PromWrapper) : Prop :=
  w.ctor = "ro.NewUnsafeObservableWithContext" ∧ w.subscribeN = 1 ∧ w.subscribeCtx = "subscriberCtx" ∧
  w.returns = "upstream.Unsubscribe" ∧
  forwardsOnce .fwdNext w.onNext = true ∧ forwardsOnce .fwdError w.onError = true ∧
  forwardsOnce .fwdComplete w.onComplete = true ∧
  cleanEvents .fwdNext w.onNext = true ∧ cleanEvents .fwdError w.onError = true ∧
  cleanEvents .fwdComplete w.onComplete = true ∧
  w.preSubscribe.all PromEv.isInc = true ∧
  incBeforeFwd w.onNext = true ∧ incBeforeFwd w.onError = true ∧ incBeforeFwd w.onComplete = true ∧
  -- the exported operators are guarded by the licence, the internal ones are selected by it
  w.licenceGuard = w.exported

instance (w : PromWrapper) : Decidable (WrapperOk w) := by unfold WrapperOk; infer_instance

/-- the reading the machines of `RoModel.Prom` were written from: name ↦ (events of the subscribe
    function before it subscribes, events of the three callbacks) -/
def expectedWrappers : List (String × List PromEv × List PromEv × List PromEv × List PromEv) := [
  ("IncCounterOnNext", [], [.inc "counter", .fwdNext], [.direct], [.direct]),
  ("IncCounterOnError", [], [.direct], [.inc "counter", .fwdError], [.direct]),
  ("IncCounterOnComplete", [], [.direct], [.direct], [.inc "counter", .fwdComplete]),
  ("IncCounterOnSubscription", [.inc "counter"], [.direct], [.direct], [.direct]),
  ("ObserveNextLag", [], [.clock "start", .fwdNext, .clock "end", .observe "" "summaryOrHistogram"], [.direct], [.direct]),
  ("observeBeforePipe", [],
    [.inc "counterOnNext", .clock "start", .stamp "start", .fwdNext, .clock "end", .observe "" "summaryOrHistogram"],
    [.direct], [.direct]),
  ("observeOperatorProcessingTime", [],
    [.readStamp, .clock "end", .observe "ok" "prometheusObserver", .stamp "end", .fwdNext], [.direct], [.direct]),
  ("observeAfterPipe", [.inc "counterOnSubscription"], [.inc "counterOnNext", .fwdNext], [.direct], [.direct])]

def WrappersOk (ws : List PromWrapper) : Prop :=
  (∀ w ∈ ws, WrapperOk w) ∧
  ws.map (fun w => (w.name, w.preSubscribe, w.onNext, w.onError, w.onComplete)) = expectedWrappers

instance (ws : List PromWrapper) : Decidable (WrappersOk ws) := by unfold WrappersOk; infer_instance

end Ro.Prom.Spec

/-
  RoModel.Spec.Ops — the documented meaning of each operator as a plain list function of the
  source's values `vs : List (Ctx × α)` and its ending `e : Ending`.  Written with the standard
  list vocabulary (`map`, `filter`, `take`, `drop`, `zipIdx`, `foldl`, …), independently of the
  machines; the theorems of RoProps/C04.lean say the machines compute exactly these.
-/
import RoModel.Basic
namespace Ro.Spec
open Ro
variable {α β κ : Type}

def nexts (vs : List (Ctx × α)) : List (Notif α) := vs.map (fun p => Notif.next p.1 p.2)

/-- Map: `project` applied to every value with its index, then the source's ending. -/
def map (f : Ctx → α → Nat → Ctx × β) (vs : List (Ctx × α)) (e : Ending) : List (Notif β) :=
  (vs.zipIdx.map (fun q => Notif.next (f q.1.1 q.1.2 q.2).1 (f q.1.1 q.1.2 q.2).2)) ++ e.toList

/-- MapTo -/
def mapTo (b : β) (vs : List (Ctx × α)) (e : Ending) : List (Notif β) :=
  vs.map (fun p => Notif.next p.1 b) ++ e.toList

/-- Filter: the values whose (value, index) satisfies the predicate, in order. -/
def filter (p : Ctx → α → Nat → Ctx × Bool) (vs : List (Ctx × α)) (e : Ending) : List (Notif α) :=
  ((vs.zipIdx.filter (fun q => (p q.1.1 q.1.2 q.2).2)).map (fun q => Notif.next (p q.1.1 q.1.2 q.2).1 q.1.2)) ++ e.toList

/-- Take n (n ≥ 1): the first n values then completion (with the n-th value's context); fewer
    than n values: everything, then the source's ending. -/
def take (n : Nat) (vs : List (Ctx × α)) (e : Ending) : List (Notif α) :=
  if n ≤ vs.length then
    nexts (vs.take n) ++ (match (vs.take n).getLast? with | some p => [Notif.complete p.1] | none => [])
  else nexts vs ++ e.toList

/-- Skip n -/
def skip (n : Nat) (vs : List (Ctx × α)) (e : Ending) : List (Notif α) :=
  nexts (vs.drop n) ++ e.toList

/-- IgnoreElements -/
def ignoreElements (_vs : List (Ctx × α)) (e : Ending) : List (Notif α) := e.toList

/-- Count: the number of values, at completion. -/
def count (vs : List (Ctx × α)) : Ending → List (Notif Int)
  | .complete c => [.next c (vs.length : Int), .complete c]
  | e => e.toList

/-- Sum -/
def sum (vs : List (Ctx × Int)) : Ending → List (Notif Int)
  | .complete c => [.next c ((vs.map (·.2)).foldl (· + ·) 0), .complete c]
  | e => e.toList

/-- ToSlice -/
def toSlice (vs : List (Ctx × α)) : Ending → List (Notif (List α))
  | .complete c => [.next c (vs.map (·.2)), .complete c]
  | e => e.toList

/-- the first value satisfying `p` (with its index), if any -/
def firstMatch (p : Ctx → α → Nat → Ctx × Bool) (vs : List (Ctx × α)) : Option ((Ctx × α) × Nat) :=
  vs.zipIdx.find? (fun q => (p q.1.1 q.1.2 q.2).2)

/-- First: the first matching value then completion; none: `ErrFirstEmpty` at completion. -/
def first (p : Ctx → α → Nat → Ctx × Bool) (vs : List (Ctx × α)) (e : Ending) : List (Notif α) :=
  match firstMatch p vs with
  | some q => [.next (p q.1.1 q.1.2 q.2).1 q.1.2, .complete (p q.1.1 q.1.2 q.2).1]
  | none => match e with
    | .complete c => [.error c (.sentinel 3)]
    | e => e.toList

/-- Max over integers: the greatest value (first occurrence) at completion; **nothing** for an
    empty source (doc: "emits the maximum value"; `Min` behaves so). -/
def maxOf : List (Ctx × Int) → Option (Ctx × Int)
  | [] => none
  | p :: ps => some (ps.foldl (fun m q => if q.2 > m.2 then q else m) p)

def max (vs : List (Ctx × Int)) : Ending → List (Notif Int)
  | .complete c => (match maxOf vs with | some m => [.next m.1 m.2] | none => []) ++ [.complete c]
  | e => e.toList

def minOf : List (Ctx × Int) → Option (Ctx × Int)
  | [] => none
  | p :: ps => some (ps.foldl (fun m q => if q.2 < m.2 then q else m) p)

def min (vs : List (Ctx × Int)) : Ending → List (Notif Int)
  | .complete c => (match minOf vs with | some m => [.next m.1 m.2] | none => []) ++ [.complete c]
  | e => e.toList

end Ro.Spec

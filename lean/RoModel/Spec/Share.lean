/-
  RoModel.Spec.Share — vocabulary of the C11 statements (what the property text says, in terms of
  the observable part of a `Share.St`): which terminals a configuration resets on, what a connector
  replays to a late subscriber, on which configurations the pinned code is expected to be exact.
-/
import RoModel.Share
namespace Ro.Share

/-- does the configuration reset on this source terminal (`ResetOnError` / `ResetOnComplete`) -/
def Flags.resetsOn (fl : Flags) : Ev → Bool
  | .error _ => fl.onError
  | .complete => fl.onComplete
  | .next _ => false

/-- the stored terminal of a terminated subject -/
def Status.terminal : Status → List Ev
  | .open => []
  | .errored e => [.error e]
  | .completed => [.complete]

/-- what a subscriber arriving at a *terminated* connector subject receives (DESIGN-kernel.md §2):
    publish / behavior: the stored terminal; replay: the stored values, then the stored terminal -/
def Spec.late (conn : Conn) (sj : Subj) : List Ev :=
  (match conn with
   | .replay _ | .replayAll => sj.buf.map Ev.next
   | _ => []) ++ sj.status.terminal

/-- what a subscriber joining a *running* execution receives at once from the connector -/
def Spec.joined (conn : Conn) (sj : Subj) : List Ev :=
  match conn with
  | .publish => []
  | .behavior _ => [.next sj.last]
  | .replay _ | .replayAll => sj.buf.map Ev.next

/-- first terminal of a synchronous prefix -/
def firstTerminal (pre : List Ev) : Option Ev := pre.find? (·.isTerminal)

/-- the (flags, prefix) pairs on which the pinned code does not dereference the nil
    `sourceSubscription`: the prefix does not terminate synchronously with a terminal the
    configuration resets on. A purely hot source (`pre = []`) always qualifies. -/
def SafePre (fl : Flags) (pre : List Ev) : Bool :=
  match firstTerminal pre with
  | some t => !fl.resetsOn t
  | none => true

/-- the explicit sub-domain of the `_partial` theorems -/
def Cfg.Safe (cfg : Cfg) : Prop := ∀ k, SafePre cfg.flags (cfg.pre k) = true

/-- a purely hot source -/
def Cfg.Hot (cfg : Cfg) : Prop := ∀ k, cfg.pre k = []

theorem Cfg.Hot.safe {cfg : Cfg} (h : cfg.Hot) : cfg.Safe := by
  intro k; rw [h k]; rfl

end Ro.Share

/-
  RoModel.Spec.More — the documented meaning of the operators of RoModel/Ops/More.lean as plain
  list functions of the source's values `vs : List (Ctx × α)` and its ending `e : Ending`.
  Core Lean only.
-/
import RoModel.Spec.Ops
namespace Ro.Spec
open Ro
variable {α β τ : Type}

/-- an ending with its context rewritten -/
def endingMapCtx (g : Ctx → Ctx) : Ending → Ending
  | .never => .never
  | .error c e => .error (g c) e
  | .complete c => .complete (g c)

/-- ContextWithValue(k, v): "emits the same items as the source, but adds a key-value pair to the
    context of each item" — every notification, terminal included, carries the marker. -/
def ctxWithValue (m : Nat) (vs : List (Ctx × α)) (e : Ending) : List (Notif α) :=
  vs.map (fun p => Notif.next (p.1.tag m) p.2) ++ (endingMapCtx (·.tag m) e).toList

/-- ContextMap / ContextMapI / ContextWithTimeout / ContextWithDeadline: the context of the
    `i`-th value is `f ctx i`; values and the ending are otherwise untouched. -/
def contextMap (f : Ctx → Nat → Ctx) (vs : List (Ctx × α)) (e : Ending) : List (Notif α) :=
  vs.zipIdx.map (fun q => Notif.next (f q.1.1 q.2) q.1.2) ++ e.toList

/-- ContextReset(newCtx): same items, every notification with the new context. **By definition
    not derived from the subscription context** (the documentation says "with a new context");
    this operator is outside the pass-through clause of C09. -/
def contextReset (nc : Ctx) (vs : List (Ctx × α)) (e : Ending) : List (Notif α) :=
  vs.map (fun p => Notif.next nc p.2) ++ (endingMapCtx (fun _ => nc) e).toList

/-- Cast: the values as long as they are of the target type; the first one that is not ends the
    stream with the cast error (its context); otherwise the source's ending. -/
def cast (ok : α → Option β) (err : Err) (vs : List (Ctx × α)) (e : Ending) : List (Notif β) :=
  (vs.takeWhile (fun p => (ok p.2).isSome)).filterMap (fun p => (ok p.2).map (Notif.next p.1)) ++
    match vs.find? (fun p => (ok p.2).isNone) with
    | some p => [Notif.error p.1 err]
    | none => e.toList

/-- Tap / Do and their OnNext / OnError / OnComplete forms: the stream is untouched … -/
def tap (vs : List (Ctx × α)) (e : Ending) : List (Notif α) := nexts vs ++ e.toList

/-- … and the selected callbacks are invoked once per notification of the (legal part of the)
    source, in order. -/
def tapEffects (sel : Notif α → Bool) (vs : List (Ctx × α)) (e : Ending) : List (Notif α) :=
  (nexts vs ++ e.toList).filter sel

/-- TimeInterval / Timestamp: every value paired with a clock reading, in order. -/
def timed (clock : Nat → τ) (vs : List (Ctx × α)) (e : Ending) : List (Notif (α × τ)) :=
  vs.zipIdx.map (fun q => Notif.next q.1.1 (q.1.2, clock q.2)) ++ e.toList

/-- Average: at completion the sum divided by the number of values; `NaN` for an empty source
    ("If the source is empty, it emits NaN"). -/
def average (div : Int → Nat → β) (nan : β) (vs : List (Ctx × Int)) : Ending → List (Notif β)
  | .complete c =>
    [.next c (if vs.isEmpty then nan else div ((vs.map (·.2)).foldl (· + ·) 0) vs.length), .complete c]
  | e => e.toList

end Ro.Spec

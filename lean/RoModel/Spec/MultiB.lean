/-
  RoModel.Spec.MultiB — what C05 says the multi-source operators deliver, as functions of the
  *arrivals*: the notifications the sources issue, in arrival order, tagged by source
  (`Ro.MultiB.arrivals scripts order`). Written with list vocabulary over the history of arrivals
  (the values source `i` has delivered so far, whether it has completed, …), not with the
  operators' locals.
-/
import RoModel.MultiB.Zip
namespace Ro.MultiB.Spec
open Ro.MultiB
variable {α κ : Type}

abbrev Arr (α : Type) := List (Nat × Ev α)

/-- the values source `i` has delivered, in its own order -/
def valsOf (i : Nat) (h : Arr α) : List α := h.filterMap (fun p => if p.1 = i then p.2.val? else none)
/-- source `i` has completed -/
def completed (i : Nat) (h : Arr α) : Bool := h.any (fun p => p.1 == i && p.2.isComplete)

/-! ### zip: the k-th tuple is made of every source's k-th value and is delivered as soon as they
    all exist; the output completes once a finished source's values have all been used; an error
    ends it at once. -/

/-- every source has a `k`-th value -/
def rowReady (n k : Nat) (h : Arr α) : Bool := (List.range n).all (fun i => k < (valsOf i h).length)
/-- the `k`-th values -/
def row (n k : Nat) (h : Arr α) : List α := (List.range n).filterMap (fun i => (valsOf i h)[k]?)
/-- some source has completed and the first `k` rows have used all its values -/
def drained (n k : Nat) (h : Arr α) : Bool :=
  (List.range n).any (fun i => completed i h && decide ((valsOf i h).length ≤ k))

/-- `past` = arrivals so far, `k` = rows delivered so far -/
def zipFrom (n : Nat) (past : Arr α) (k : Nat) : Arr α → List (Ev (List α))
  | [] => []
  | (i, .next v) :: rest =>
    if rowReady n k (past ++ [(i, .next v)]) then
      .next (row n k (past ++ [(i, .next v)])) ::
        (if drained n (k + 1) (past ++ [(i, .next v)]) then [.complete]
         else zipFrom n (past ++ [(i, .next v)]) (k + 1) rest)
    else zipFrom n (past ++ [(i, .next v)]) k rest
  | (_, .error e) :: _ => [.error e]
  | (i, .complete) :: rest =>
    if drained n k (past ++ [(i, .complete)]) then [.complete]
    else zipFrom n (past ++ [(i, .complete)]) k rest

def zip (n : Nat) (arr : Arr α) : List (Ev (List α)) := zipFrom n [] 0 arr

/-- `ZipAll` over an outer source that emits `n` inner sources and then ends -/
def zipAll (n : Nat) (outer : OuterEnd) (arr : Arr α) : List (Ev (List α)) :=
  match outer with
  | .never => []
  | .error e => [.error e]
  | .complete => if n = 0 then [.complete] else zip n arr

/-! ### combineLatest: once every source has a value, every new value is delivered together with
    the latest values of the others; completes when all sources have completed. -/

def latestOf (i : Nat) (h : Arr α) : Option α := (valsOf i h).getLast?

def combineLatestFrom (n : Nat) (past : Arr α) : Arr α → List (Ev (List α))
  | [] => []
  | (i, .next v) :: rest =>
    (if (List.range n).all (fun j => (latestOf j (past ++ [(i, .next v)])).isSome)
     then [.next ((List.range n).filterMap (fun j => latestOf j (past ++ [(i, .next v)])))] else [])
    ++ combineLatestFrom n (past ++ [(i, .next v)]) rest
  | (_, .error e) :: _ => [.error e]
  | (i, .complete) :: rest =>
    if (List.range n).all (fun j => completed j (past ++ [(i, .complete)])) then [.complete]
    else combineLatestFrom n (past ++ [(i, .complete)]) rest

def combineLatest (n : Nat) (arr : Arr α) : List (Ev (List α)) := combineLatestFrom n [] arr

def combineLatestAll (n : Nat) (outer : OuterEnd) (arr : Arr α) : List (Ev (List α)) :=
  match outer with
  | .never => []
  | .error e => [.error e]
  | .complete => if n = 0 then [.complete] else combineLatest n arr

/-! ### concat: the sources one after another; source `k+1` is listened to only after source `k`
    has completed (what a hot source says while it is not its turn is not part of the output);
    an error ends the output; after the last source the outer source's own ending follows. -/

def outerEmits : OuterEnd → List (Ev α)
  | .never => []
  | .error e => [.error e]
  | .complete => [.complete]

/-- `k` = the source whose turn it is -/
def concatFrom (n : Nat) (outer : OuterEnd) (k : Nat) : Arr α → List (Ev α)
  | [] => []
  | (i, x) :: rest =>
    if i = k then
      match x with
      | .next v => .next v :: concatFrom n outer k rest
      | .error e => [.error e]
      | .complete => if k + 1 < n then concatFrom n outer (k + 1) rest else outerEmits outer
    else concatFrom n outer k rest

def concat (n : Nat) (outer : OuterEnd) (arr : Arr α) : List (Ev α) :=
  if n = 0 then outerEmits outer else concatFrom n outer 0 arr

/-- how many sources have been subscribed: source 0, and source `k+1` once source `k` has
    completed in its turn (never after an error) -/
def concatTurn (n : Nat) (k : Nat) : Arr α → Nat
  | [] => k
  | (i, x) :: rest =>
    if i = k then
      match x with
      | .next _ => concatTurn n k rest
      | .error _ => k
      | .complete => if k + 1 < n then concatTurn n (k + 1) rest else k
    else concatTurn n k rest

/-- source `j` is subscribed exactly when every source before it has completed in its turn -/
def concatSubscribed (n : Nat) (arr : Arr α) (j : Nat) : Bool := decide (j < n) && decide (j ≤ concatTurn n 0 arr)

/-! ### bufferWhen / windowWhen: the source's values partitioned at the boundary's ticks
    (source 0 = the source, source 1 = the boundary). -/

/-- the arrivals before the first terminal of either source -/
def body (arr : Arr α) : Arr α := arr.takeWhile (fun p => !p.2.isTerminal)
/-- the first terminal of either source -/
def stop (arr : Arr α) : Option (Ev α) := (arr.find? (fun p => p.2.isTerminal)).map (·.2)

/-- the source's values between consecutive ticks: `t` ticks give `t+1` segments -/
def segments : Arr α → List (List α)
  | [] => [[]]
  | (i, .next v) :: r =>
    if i = 0 then
      match segments r with
      | s :: ss => (v :: s) :: ss
      | [] => [[v]]
    else [] :: segments r
  | _ :: r => segments r

/-- every segment closed by a tick is delivered at that tick; the last one is delivered when either
    source completes, and is discarded by an error, which ends the output at once -/
def bufferWhen (arr : Arr α) : List (Ev (List α)) :=
  match stop arr with
  | none => (segments (body arr)).dropLast.map .next
  | some (.error e) => (segments (body arr)).dropLast.map .next ++ [.error e]
  | some _ => (segments (body arr)).map .next ++ [.complete]

def closedWin (s : List α) : List (Ev α) := s.map .next ++ [.complete]
def openWin (s : List α) : List (Ev α) := s.map .next

/-- one window per segment; a window completes at the tick that closes it or when the output ends
    (by completion or by error); the output ends with the first terminal of either source -/
def windowWhen (arr : Arr α) : List (Ev (List (Ev α))) :=
  match stop arr with
  | none => (segments (body arr)).dropLast.map (fun s => .next (closedWin s))
            ++ ((segments (body arr)).getLast?.toList.map (fun s => .next (openWin s)))
  | some (.error e) => (segments (body arr)).map (fun s => .next (closedWin s)) ++ [.error e]
  | some _ => (segments (body arr)).map (fun s => .next (closedWin s)) ++ [.complete]

/-! ### groupBy: one substream per key, in order of first occurrence; each substream carries the
    values of its key in source order and ends the way the source ends. -/

/-- distinct keys in order of first occurrence -/
def distinct [BEq κ] (ks : List κ) : List κ := ks.foldl (fun acc k => if acc.contains k then acc else acc ++ [k]) []

/-- the source's values paired with their keys (`key value index`) -/
def keyed (key : α → Nat → κ) (arr : Arr α) : List (κ × α) :=
  (valsOf 0 (body arr)).zipIdx.map (fun p => (key p.1 p.2, p.1))

def groupBy [BEq κ] (key : α → Nat → κ) (arr : Arr α) : List (Ev (List (Ev α))) :=
  (distinct ((keyed key arr).map (·.1))).map
      (fun k => .next ((((keyed key arr).filter (fun p => p.1 == k)).map (fun p => Ev.next p.2)) ++ (stop arr).toList))
    ++ ((stop arr).toList.map (fun t => t.map (fun _ => [])))

end Ro.MultiB.Spec

/-! ## Known deviations of the pinned tree: the classes of inputs the `…_partial` theorems exclude
    (each with a witness theorem in RoProps/C05b.lean and a replayed entry in known_findings.jsonl) -/
namespace Ro.MultiB.Known
open Ro.MultiB Ro.MultiB.Spec
variable {α : Type}

/-- Zip: the first source to finish completes while values of its own are still queued (the
    complete callback then cancels every source although tuples are still owed) -/
def zipCompleteUnsub (n : Nat) (past : Arr α) (k : Nat) : Arr α → Bool
  | [] => false
  | (i, .next v) :: rest =>
    zipCompleteUnsub n (past ++ [(i, .next v)]) (if rowReady n k (past ++ [(i, .next v)]) then k + 1 else k) rest
  | (_, .error _) :: _ => false
  | (i, .complete) :: _ => decide (k < (valsOf i past).length)

/-- Concat: an inner source errors (the synchronous outer source then still subscribes the remaining
    inner sources, which are unsubscribed at once) -/
def concatInnerError (n : Nat) (arr : Arr α) : Bool :=
  (concatFrom n .never 0 arr).any (fun x => match x with | .error _ => true | _ => false)

/-- ZipAll: the outer source completes while there are inner sources (the destination is completed
    at that moment) -/
def zipAllOuterCompletes (n : Nat) (outer : OuterEnd) : Bool := decide (outer = .complete) && decide (0 < n)

/-- GroupBy: a recorder may subscribe to its group after the source has ended (the unicast subject
    then hands out only the terminal: the queued values are lost) -/
def groupByLate (delay : Nat) (arr : Arr α) : Bool := decide (2 ≤ delay) && (stop arr).isSome

/-- GroupBy: the source errors after groups have been emitted (they are completed by the teardown
    before the error callback reaches them) -/
def groupByErrorCompletesGroups (arr : Arr α) : Bool :=
  (match stop arr with | some (.error _) => true | _ => false) && !(valsOf 0 (body arr)).isEmpty

end Ro.MultiB.Known

/-
  RoModel.Spec.Resub — what property C15 says about the re-subscribing operators, in terms of the
  list of attempt outcomes only (no loops, no state): the subscribe/teardown log is
  s₁ t₁ s₂ t₂ …; the number of attempts is "up to and including the first attempt that stops the
  loop, at most the bound"; the values of exactly those attempts are forwarded in order; the final
  terminal is the one of the last attempt (or the cancellation error).
-/
import RoModel.Resub
namespace Ro.Resub.Spec
open Ro Ro.Resub

/-- `n` attempts numbered from `i`, strictly one after another: sᵢ tᵢ sᵢ₊₁ tᵢ₊₁ … -/
def seqLog : Nat → Nat → List Ev
  | _, 0 => []
  | i, n + 1 => .s i :: .t i :: seqLog (i + 1) n

/-- Number of attempts of a loop that may run at most `bound` attempts and stops after attempt
    `j + 1` when `stops j`: attempt `j + 1` happens iff `j < bound` and none of the earlier ones stopped. -/
def firstStop (stops : Nat → Bool) : Nat → Nat
  | 0 => 0
  | b + 1 => if stops 0 then 1 else 1 + firstStop (fun j => stops (j + 1)) b

/-- attempt `j + 1` ends in an error -/
def failsAt (outs : List Outcome) (j : Nat) : Bool := (outcomeAt outs j).fails

/-- the values of a list of attempts, in order -/
def valuesOf (outs : List Outcome) : List Int := outs.flatMap (fun o => o.vals.map (·.2))

/-- a terminal without its context -/
inductive Term
  | complete
  | error (e : Err)
deriving DecidableEq, Repr

/-- the values handed over before the first terminal -/
def outVals : List (Notif Int) → List Int
  | [] => []
  | .next _ v :: xs => v :: outVals xs
  | _ :: _ => []

/-- the first terminal handed over -/
def outTerm : List (Notif Int) → Option Term
  | [] => none
  | .next _ _ :: xs => outTerm xs
  | .error _ e :: _ => some (.error e)
  | .complete _ :: _ => some .complete

/-- the terminal after `n` attempts of a loop that stopped there: the error of attempt `n` if it
    failed, completion otherwise (also when there was no attempt at all) -/
def termAfter (outs : List Outcome) : Nat → Term
  | 0 => .complete
  | n + 1 =>
    match (outcomeAt outs n).fin with
    | .complete => .complete
    | .error e => .error (.user e)

/-! ### Retry -/

/-- one more failure charged against `MaxRetries`; with `ResetOnSuccess` the count restarts at the
    last delivered value -/
def charge (reset : Bool) (r : Nat) (o : Outcome) : Nat := (if reset && o.hasValues then 0 else r) + 1

/-- failures charged after the (failed) attempts `pre`, starting from `r` -/
def chargedFrom (reset : Bool) (r : Nat) (pre : List Outcome) : Nat := pre.foldl (charge reset) r

/-- attempt `j + 1` is the last: it completes, or it fails with the allowed retries spent -/
def retryStopsFrom (cfg : RetryCfg) (r : Nat) (outs : List Outcome) (j : Nat) : Bool :=
  !failsAt outs j || (cfg.maxRetries != 0 && decide (cfg.maxRetries < chargedFrom cfg.reset r (outs.take (j + 1))))

/-- attempts of an uncancelled Retry (the attempt past the list completes) -/
def retryAttempts (cfg : RetryCfg) (outs : List Outcome) : Nat :=
  firstStop (retryStopsFrom cfg 0 outs) (outs.length + 1)

/-- … and with the context cancelled during attempt `k` (0: before subscribing): nothing is
    subscribed afterwards -/
def retryAttemptsC (cfg : RetryCfg) (cancel : Option Nat) (outs : List Outcome) : Nat :=
  match cancel with
  | none => retryAttempts cfg outs
  | some k => min k (retryAttempts cfg outs)

/-- the cancellation is observed before the loop has ended by itself -/
def cancelWins (cfg : RetryCfg) (cancel : Option Nat) (outs : List Outcome) : Bool :=
  match cancel with
  | none => false
  | some k => decide (k < retryAttempts cfg outs)

def retryTerm (cfg : RetryCfg) (cancel : Option Nat) (outs : List Outcome) : Term :=
  if cancelWins cfg cancel outs then .error ctxCanceled else termAfter outs (retryAttempts cfg outs)

/-- closed form of `chargedFrom … 0` : all failures so far, or with ResetOnSuccess the failures
    since (and including) the last attempt that delivered a value -/
def trailingSilent (pre : List Outcome) : Nat := (pre.reverse.takeWhile (fun o => !o.hasValues)).length

/-! ### the loops with a condition, a count, a list of sources -/

/-- number of leading `true`s of the condition's truth sequence -/
def leadingTrue (conds : List Bool) : Nat := (conds.takeWhile id).length

def whileAttempts (conds : List Bool) (outs : List Outcome) : Nat := firstStop (failsAt outs) (leadingTrue conds)
def doWhileAttempts (conds : List Bool) (outs : List Outcome) : Nat := firstStop (failsAt outs) (leadingTrue conds + 1)

/-- RepeatWith stops after attempt `j + 1` if it failed or if the destination has gone away by then
    (`b = some k`: it unsubscribes itself inside its k-th value callback) -/
def repeatStops (b : Option Nat) (outs : List Outcome) (j : Nat) : Bool :=
  failsAt outs j || (match b with
    | some k => decide (k ≤ (valuesOf (outs.take (j + 1))).length)
    | none => false)

def repeatAttempts (count : Nat) (cut : Option Nat) (outs : List Outcome) : Nat :=
  firstStop (repeatStops cut outs) count

def resumeAttempts (k : Nat) : Nat := k + 1

/-- Concat: one source after the other until one fails -/
def concatAttempts (n : Nat) (outs : List Outcome) : Nat := firstStop (failsAt outs) n

def catchAttempts (outs : List Outcome) : Nat := if failsAt outs 0 then 2 else 1

/-! ### what the destination delivers -/

/-- values delivered when the downstream goes away inside its k-th value callback -/
def cutVals (cut : Option Nat) (vs : List Int) : List Int :=
  match cut with
  | none => vs
  | some k => vs.take k

def cutTerm (cut : Option Nat) (vs : List Int) (t : Option Term) : Option Term :=
  match cut with
  | none => t
  | some k => if vs.length < k then t else none

/-! ### known deviations of the pinned tree (decidable classes excluded by the `_partial` theorems) -/

/-- Catch whose first attempt fails: the fallback is subscribed while the first attempt is alive -/
def Known.catchFallback (outs : List Outcome) : Bool := failsAt outs 0

end Ro.Resub.Spec

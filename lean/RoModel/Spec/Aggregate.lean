/-
  RoModel.Spec.Aggregate — the documented meaning of the operators of operator_conditional.go
  and of the aggregating part of operator_math.go, as plain list functions of the source's values
  `vs : List (Ctx × α)` and its ending `e : Ending` (see RoModel.Spec.Ops for the conventions).
  `Count`, `Sum`, `Min`, `Max` are already specified there (`Spec.count`, `Spec.sum`, `Spec.min`,
  `Spec.max`) and are reused as they are.

  Core Lean only.
-/
import RoModel.Spec.Ops
namespace Ro.Spec
open Ro
variable {α β : Type}

/-- All: at completion, one Boolean — does every value satisfy the predicate *at its own position*
    in the source — with the completion's context, then the completion. Nothing is emitted before
    the source ends; an error (or no ending) is passed through as it is.
    (That the predicate is in fact not consulted any more after the first failure is invisible in
    this result: see `allCalls`.) -/
def all (p : Ctx → α → Nat → Bool) (vs : List (Ctx × α)) : Ending → List (Notif Bool)
  | .complete c => [.next c (vs.zipIdx.all (fun q => p q.1.1 q.1.2 q.2)), .complete c]
  | e => e.toList

/-- All, number of predicate calls: the values up to and including the first one that fails
    (each of them is seen by the predicate with its own position as index). -/
def allCalls (p : Ctx → α → Nat → Bool) (vs : List (Ctx × α)) : Nat :=
  (vs.zipIdx.takeWhile (fun q => p q.1.1 q.1.2 q.2)).length
    + (if vs.zipIdx.all (fun q => p q.1.1 q.1.2 q.2) then 0 else 1)

/-- Contains: `true` and completion (both with the context of the matching value) as soon as a
    value satisfies the predicate at its position; otherwise `false` at completion, with the
    completion's context; an error (or no ending) without a match is passed through. -/
def contains (p : Ctx → α → Nat → Bool) (vs : List (Ctx × α)) (e : Ending) : List (Notif Bool) :=
  match vs.zipIdx.find? (fun q => p q.1.1 q.1.2 q.2) with
  | some q => [.next q.1.1 true, .complete q.1.1]
  | none => match e with
    | .complete c => [.next c false, .complete c]
    | e => e.toList

/-- Find: the first value that satisfies the predicate at its position, then completion (both with
    that value's context); without a match just the source's ending. -/
def find (p : Ctx → α → Nat → Bool) (vs : List (Ctx × α)) (e : Ending) : List (Notif α) :=
  match vs.zipIdx.find? (fun q => p q.1.1 q.1.2 q.2) with
  | some q => [.next q.1.1 q.1.2, .complete q.1.1]
  | none => e.toList

/-- DefaultIfEmpty: every value unchanged; a source that completes without any value yields the
    default `d`, with the configured context `dc`, just before the completion. -/
def defaultIfEmpty (dc : Ctx) (d : α) (vs : List (Ctx × α)) : Ending → List (Notif α)
  | .complete c => nexts vs ++ (if vs.isEmpty then [.next dc d] else []) ++ [.complete c]
  | e => nexts vs ++ e.toList

/-- Side condition under which `Max` as written agrees with its documented meaning `Spec.max`:
    the source has at least one value, or does not end in completion. (An empty source that
    completes is where the code emits a spurious `0`.) -/
def maxCovered (vs : List (Ctx × Int)) (e : Ending) : Bool :=
  !vs.isEmpty || (match e with | .complete _ => false | _ => true)

/-- the value `v` brought into the inclusive range `[lo, hi]` -/
def clampVal (lo hi v : Int) : Int := Max.max lo (Min.min hi v)

/-- Clamp (lower ≤ upper): every value bounded to `[lo, hi]`, with its own context; then the
    source's ending. -/
def clamp (lo hi : Int) (vs : List (Ctx × Int)) (e : Ending) : List (Notif Int) :=
  vs.map (fun p => Notif.next p.1 (clampVal lo hi p.2)) ++ e.toList

/-- Reduce: the left fold of the accumulator over the values (each with its position), emitted at
    completion. The accumulator returns a context together with the new accumulated value; the
    result carries the context returned by its last call — the fold below therefore threads the
    pair, and starts from the completion's own context, which is what remains when there was no
    value at all. -/
def reduce (f : Ctx → β → α → Nat → Ctx × β) (seed : β) (vs : List (Ctx × α)) : Ending → List (Notif β)
  | .complete c =>
    let r := vs.zipIdx.foldl (fun (acc : Ctx × β) q => f q.1.1 acc.2 q.1.2 q.2) (c, seed)
    [.next r.1 r.2, .complete c]
  | e => e.toList

end Ro.Spec

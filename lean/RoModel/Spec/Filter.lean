/-
  RoModel.Spec.Filter — the documented meaning of the operators of operator_filter.go as plain
  list functions of the source's values `vs : List (Ctx × α)` and its ending `e : Ending`.
  Written with the standard list vocabulary, independently of the machines of
  RoModel/Ops/Filter.lean; RoProofs/Ops/FilterSpecs.lean proves that the machines compute
  exactly these.  (`Spec.filter`, `Spec.first`, `Spec.take`, `Spec.skip` are in RoModel/Spec/Ops.lean.)

  Core Lean only.
-/
import RoModel.Spec.Ops
namespace Ro.Spec
open Ro
variable {α β κ : Type}

/-- an index-aware user predicate that may replace the context (the `…IWithContext` shape) -/
abbrev IPred (α : Type) := Ctx → α → Nat → Ctx × Bool

/-- the verdict of the predicate on an indexed value -/
def holds (p : IPred α) (q : (Ctx × α) × Nat) : Bool := (p q.1.1 q.1.2 q.2).2

/-- an indexed value re-emitted with the context returned by the predicate -/
def nextP (p : IPred α) (q : (Ctx × α) × Nat) : Notif α := .next (p q.1.1 q.1.2 q.2).1 q.1.2

/-- the ending when the operator turns the completion of the source into the error `err`
    (`ErrHeadEmpty`, …): errors are forwarded, a source that never ends gives nothing. -/
def endingOrError (err : Err) : Ending → List (Notif α)
  | .complete c => [.error c err]
  | e => e.toList

/-- DistinctBy / Distinct: a value is kept iff no earlier value has the same key; it is
    re-emitted with the context returned by the key selector. Then the source's ending. -/
def distinctBy [DecidableEq κ] (key : Ctx → α → Ctx × κ) (vs : List (Ctx × α)) (e : Ending) :
    List (Notif α) :=
  ((vs.zipIdx.filter (fun q =>
      (vs.take q.2).all (fun y => decide ((key y.1 y.2).2 ≠ (key q.1.1 q.1.2).2)))).map
    (fun q => Notif.next (key q.1.1 q.1.2).1 q.1.2)) ++ e.toList

/-- SkipWhile: the values are dropped while the (index-aware) predicate holds; the first value
    on which it fails is emitted with the context the predicate returned, every later value
    unchanged (the predicate is not consulted any more). Then the source's ending. -/
def skipWhile (p : IPred α) (vs : List (Ctx × α)) (e : Ending) : List (Notif α) :=
  (match vs.zipIdx.dropWhile (holds p) with
   | [] => []
   | q :: rest => nextP p q :: nexts (rest.map (·.1))) ++ e.toList

/-- SkipLast n (n ≥ 1): all the values but the last n, unchanged, then the source's ending. -/
def skipLast (n : Nat) (vs : List (Ctx × α)) (e : Ending) : List (Notif α) :=
  nexts (vs.take (vs.length - n)) ++ e.toList

/-- TakeWhile: the longest prefix on which the (index-aware) predicate holds, each value with
    the context the predicate returned; if the predicate fails on some value, completion with
    the context returned by that failing call, otherwise the source's ending. -/
def takeWhile (p : IPred α) (vs : List (Ctx × α)) (e : Ending) : List (Notif α) :=
  (vs.zipIdx.takeWhile (holds p)).map (nextP p) ++
    (match vs.zipIdx.find? (fun q => !holds p q) with
     | some q => [.complete (p q.1.1 q.1.2 q.2).1]
     | none => e.toList)

/-- TakeLast n (n ≥ 1): at completion, the last n values (with their own contexts) then the
    completion; nothing but the error on error; nothing if the source never ends. -/
def takeLast (n : Nat) (vs : List (Ctx × α)) : Ending → List (Notif α)
  | .complete c => nexts (vs.drop (vs.length - n)) ++ [.complete c]
  | e => e.toList

/-- Take 0 / TakeLast 0 (`Empty()`): just a completion carrying the subscription context,
    whatever the source would do (it is never subscribed). -/
def empty (sub : Ctx) (_vs : List (Ctx × α)) (_e : Ending) : List (Notif β) := [.complete sub]

/-- Head: the first value then completion (with that value's context); `ErrHeadEmpty`
    (sentinel 1) when an empty source completes. -/
def head (vs : List (Ctx × α)) (e : Ending) : List (Notif α) :=
  match vs.head? with
  | some p => [.next p.1 p.2, .complete p.1]
  | none => endingOrError (.sentinel 1) e

/-- Tail: at completion, the last value (with its own context) then the completion;
    `ErrTailEmpty` (sentinel 2) when an empty source completes; errors are forwarded. -/
def tail (vs : List (Ctx × α)) : Ending → List (Notif α)
  | .complete c =>
    (match vs.getLast? with
     | some p => [.next p.1 p.2, .complete c]
     | none => [.error c (.sentinel 2)])
  | e => e.toList

/-- Last: at completion, the last value satisfying the (index-aware) predicate, emitted and
    completed with the context the predicate returned for it; `ErrLastEmpty` (sentinel 4) when
    no value matched; errors are forwarded. -/
def last (p : IPred α) (vs : List (Ctx × α)) : Ending → List (Notif α)
  | .complete c =>
    (match (vs.zipIdx.filter (holds p)).getLast? with
     | some q => [nextP p q, .complete (p q.1.1 q.1.2 q.2).1]
     | none => [.error c (.sentinel 4)])
  | e => e.toList

/-- ElementAt n: the n-th value (0-based) then completion (with that value's context);
    `ErrElementAtNotFound` (sentinel 5) when the source completes with at most n values. -/
def elementAt (n : Nat) (vs : List (Ctx × α)) (e : Ending) : List (Notif α) :=
  match vs[n]? with
  | some p => [.next p.1 p.2, .complete p.1]
  | none => endingOrError (.sentinel 5) e

/-- ElementAtOrDefault n d: like ElementAt, but a source completing with at most n values gives
    the fallback `d` and the completion, both with the completion's context. -/
def elementAtOrDefault (n : Nat) (d : α) (vs : List (Ctx × α)) (e : Ending) : List (Notif α) :=
  match vs[n]? with
  | some p => [.next p.1 p.2, .complete p.1]
  | none => match e with
    | .complete c => [.next c d, .complete c]
    | e => e.toList

end Ro.Spec

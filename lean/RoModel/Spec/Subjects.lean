/-
  RoModel.Spec.Subjects — the sequential definition of the five subjects (property C10), as plain
  list functions of the operation sequence, one subscriber at a time:

      received i  =  replay at the moment of `Subscribe i`
                  ++ what is published while `i` stays subscribed
                  ++ the terminal notification (if it comes while `i` is subscribed)

  and, for a subscriber that arrives after termination: what the definition replays for a
  terminated subject, then the stored terminal.  Nothing here mentions gates, observer maps,
  teardowns, locks or drop hooks — that is the model (RoModel/Subjects.lean), proved to refine
  these functions in RoProofs/Subjects*.lean.

  Core Lean only.
-/
import RoModel.Subjects
namespace Ro.Subj.Spec
open Ro Ro.Subj

variable {α : Type}

/-- the producer side of an operation sequence: its Next / Error / Complete calls -/
def produced : List (Op α) → List (Notif α)
  | [] => []
  | .next c v :: r => .next c v :: produced r
  | .error c e :: r => .error c e :: produced r
  | .complete c :: r => .complete c :: produced r
  | .subscribe _ _ :: r => produced r
  | .unsubscribe _ :: r => produced r

def isUnsub (i : Nat) : Op α → Bool
  | .unsubscribe j => j == i
  | _ => false

/-- split at the first `Subscribe i`: what came before, the subscriber's context, what came after -/
def splitSub (i : Nat) : List (Op α) → Option (List (Op α) × Ctx × List (Op α))
  | [] => none
  | .subscribe j c :: r =>
    if j = i then some ([], c, r)
    else (splitSub i r).map (fun x => (.subscribe j c :: x.1, x.2.1, x.2.2))
  | .next c v :: r => (splitSub i r).map (fun x => (.next c v :: x.1, x.2.1, x.2.2))
  | .error c e :: r => (splitSub i r).map (fun x => (.error c e :: x.1, x.2.1, x.2.2))
  | .complete c :: r => (splitSub i r).map (fun x => (.complete c :: x.1, x.2.1, x.2.2))
  | .unsubscribe j :: r => (splitSub i r).map (fun x => (.unsubscribe j :: x.1, x.2.1, x.2.2))

/-- the operations during which `i` stays subscribed: up to its first `Unsubscribe i` -/
def whileSubscribed (i : Nat) (post : List (Op α)) : List (Op α) := post.takeWhile (fun o => !isUnsub i o)

def nexts (vs : List (Ctx × α)) : List (Notif α) := vs.map (fun p => .next p.1 p.2)

/-- the last `n` entries (`none`: all of them) -/
def lastN {β : Type} : Option Nat → List β → List β
  | none, l => l
  | some n, l => l.drop (l.length - n)

/-! `values s` / `ending s` (RoModel/Basic.lean): the values a producer script publishes before its
    first terminal, and that terminal.  `gate s`: the script up to and including its first terminal. -/

/-- **publish**: nothing is replayed; a late subscriber gets the stored terminal (an error with the
    context it was raised with, a completion with the subscriber's own context) -/
def publish (ops : List (Op α)) (i : Nat) : List (Notif α) :=
  match splitSub i ops with
  | none => []
  | some (pre, c, post) =>
    match ending (produced pre) with
    | .never => gate (produced (whileSubscribed i post))
    | .error ec e => [.error ec e]
    | .complete _ => [.complete c]

/-- **behavior**: the latest value (the initial one, with `context.TODO()`, before the first) is
    replayed to a subscriber of a live subject; nothing after termination -/
def behavior (init : α) (ops : List (Op α)) (i : Nat) : List (Notif α) :=
  match splitSub i ops with
  | none => []
  | some (pre, c, post) =>
    match ending (produced pre) with
    | .never => nexts [(values (produced pre)).getLastD (Ctx.bg, init)] ++ gate (produced (whileSubscribed i post))
    | .error ec e => [.error ec e]
    | .complete _ => [.complete c]

/-- **replay N**: the last N values are replayed, before and after termination -/
def replay (cap : Option Nat) (ops : List (Op α)) (i : Nat) : List (Notif α) :=
  match splitSub i ops with
  | none => []
  | some (pre, c, post) =>
    match ending (produced pre) with
    | .never => nexts (lastN cap (values (produced pre))) ++ gate (produced (whileSubscribed i post))
    | .error ec e => nexts (lastN cap (values (produced pre))) ++ [.error ec e]
    | .complete _ => nexts (lastN cap (values (produced pre))) ++ [.complete c]

/-- **async**: only the final value, on completion; an error is passed on alone -/
def async (ops : List (Op α)) (i : Nat) : List (Notif α) :=
  match splitSub i ops with
  | none => []
  | some (pre, c, post) =>
    match ending (produced pre) with
    | .never =>
      match ending (produced (whileSubscribed i post)) with
      | .never => []
      | .error c' e => [.error c' e]
      | .complete c' => nexts (values (produced (pre ++ whileSubscribed i post))).getLast?.toList ++ [.complete c']
    | .error ec e => [.error ec e]
    | .complete _ => nexts (values (produced pre)).getLast?.toList ++ [.complete c]

/-! **unicast N**: one subscriber at a time; values published while nobody is subscribed queue up
    (the last N of them), and the whole queue goes to whoever subscribes next — also after
    termination.  Who is admitted and what is queued is bookkeeping over the prefix: -/

structure U (α : Type) where
  closed : Bool := false
  holder : Option Nat := none
  queue : List (Ctx × α) := []
  seen : List Nat := []

def ustep (cap : Option Nat) (u : U α) : Op α → U α
  | .next c v => if u.closed || u.holder.isSome then u else { u with queue := lastN cap (u.queue ++ [(c, v)]) }
  | .error _ _ => { u with closed := true, holder := none }
  | .complete _ => { u with closed := true, holder := none }
  | .subscribe j _ =>
    if j ∈ u.seen then u
    else if u.closed then { u with seen := j :: u.seen, queue := [] }       -- takes the backlog nobody consumed
    else if u.holder.isSome then { u with seen := j :: u.seen }             -- rejected
    else { u with seen := j :: u.seen, holder := some j, queue := [] }      -- admitted, takes the queue
  | .unsubscribe j => if u.holder = some j then { u with holder := none } else u

def ufold (cap : Option Nat) (ops : List (Op α)) : U α := ops.foldl (ustep cap) {}

/-- `late = true`: the definition (the backlog is replayed also after termination);
    `late = false`: what `subject_unicast.go:68-77` does (only the stored terminal) -/
def unicastWith (late : Bool) (cap : Option Nat) (ops : List (Op α)) (i : Nat) : List (Notif α) :=
  match splitSub i ops with
  | none => []
  | some (pre, c, post) =>
    match ending (produced pre) with
    | .never =>
      match (ufold cap pre).holder with
      | some _ => [.error c (.sentinel 6)]                      -- ErrUnicastSubjectConcurrent
      | none => nexts (ufold cap pre).queue ++ gate (produced (whileSubscribed i post))
    | .error ec e => (if late then nexts (ufold cap pre).queue else []) ++ [.error ec e]
    | .complete _ => (if late then nexts (ufold cap pre).queue else []) ++ [.complete c]

def unicast (cap : Option Nat) := unicastWith (α := α) true cap
def unicastPinned (cap : Option Nat) := unicastWith (α := α) false cap

/-- the excluded class of the pinned tree: `i` subscribes after termination while a backlog is queued -/
def lateWithBacklog (cap : Option Nat) (ops : List (Op α)) (i : Nat) : Bool :=
  match splitSub i ops with
  | none => false
  | some (pre, _, _) =>
    (match ending (produced pre) with | .never => false | _ => true) && !(ufold cap pre).queue.isEmpty

/-- the definition for a kind -/
def received : Kind α → List (Op α) → Nat → List (Notif α)
  | .publish => publish
  | .behavior init => behavior init
  | .replay cap => replay cap
  | .async => async
  | .unicast cap => unicast cap

/-! ### who is registered with the subject (CountObservers / HasObserver) -/

/-- `i` is subscribed after `ops`: it subscribed to a live subject (unicast: and was admitted), has
    not unsubscribed since, and the subject has not terminated since -/
def subscribed (k : Kind α) (ops : List (Op α)) (i : Nat) : Bool :=
  match splitSub i ops with
  | none => false
  | some (pre, _, post) =>
    (match ending (produced pre) with | .never => true | _ => false)
    && (match k with | .unicast cap => (ufold cap pre).holder.isNone | _ => true)
    && post.all (fun o => !isUnsub i o)
    && (match ending (produced post) with | .never => true | _ => false)

/-- the subject's status after `ops` -/
def status (ops : List (Op α)) : Status :=
  match ending (produced ops) with
  | .never => .active
  | .error c e => .errored c e
  | .complete _ => .completed

end Ro.Subj.Spec

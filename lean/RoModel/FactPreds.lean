/-
  RoModel.FactPreds — decidable predicates over the regenerated fact table `RoGen.Catalogue.table`
  (one per property that is, in part, about how the source is *written*), and the lists of rows
  that are known deviations of the pinned tree (each a known finding re-derived on every run).
  A row that is neither fine nor listed makes the predicate false, the `decide` in RoProps fails,
  and the check reports the changed rows.
-/
import RoModel.Facts
namespace Ro.Facts

def OpFact.multiFeeder (r : OpFact) : Bool := decide (r.feeders ≥ 2)
def OpFact.serialized (r : OpFact) : Bool := r.ctor == .safeC || r.ctor == .evSafeC

/-! ### C02 (b): who may emit from several goroutines must own a locking subscriber -/

/-- pass-through operators built with the unsafe constructor on the pinned tree: they hand their
    own (non-locking) subscriber upstream, where `newSubscriberImpl` reuses it as is -/
def knownUnsafePassThrough : List String := []
-- (StartWith, Defer, Catch, TapOnSubscribeWithContext and TapOnFinalize were built with the unsafe
--  constructor on the pinned tree; repaired by the fix commit "pass-through operators use the safe
--  constructor")

def c02RowOk (r : OpFact) : Bool :=
  r.ctor != .unknownC
  && (!r.multiFeeder || r.serialized)
  && (!r.passThrough || r.serialized || knownUnsafePassThrough.contains r.name)

/-- the strict predicate: what C02 needs of every row -/
def c02RowStrict (r : OpFact) : Bool :=
  r.ctor != .unknownC && (!r.multiFeeder || r.serialized) && (!r.passThrough || r.serialized)

/-- `emitMode (r :: rest)`: the constructor mode of the subscriber that `r` emits into, when the
    stages downstream of `r` are `rest` (nearest first) and the final observer is a plain observer. -/
def emitMode : List OpFact → Option Ctor
  | [] => none
  | [r] => some r.ctor
  | r :: r' :: rest => if r'.passThrough then emitMode (r' :: rest) else some r.ctor

def serializedMode (c : Ctor) : Bool := c == .safeC || c == .evSafeC

/-! ### C08: only the hand-off / time-driven operators emit from a goroutine of their own -/

def asyncByDesign : List String :=
  ["Interval", "IntervalWithInitial", "FromChannel", "Never", "Future", "ToChannel", "Delay", "Timeout",
   "detachOn", "ThrowOnContextCancel"]

def c08RowOk (r : OpFact) : Bool := !r.asyncEmit || asyncByDesign.contains r.name

/-! ### C09: provenance of every context handed downstream / upstream -/

def Prov.good : Prov → Bool
  | .param | .subscriber | .derived | .stored => true
  | _ => false

/-- (operator, kind, provenance) triples that are not `good` on the pinned tree.
    `lastSeen` holders are assigned from callback contexts before they are read, except where noted. -/
def knownCtxRows : List (String × String × Prov) :=
  [ ("MergeAll", "complete", .lastSeen),              -- the outer's completion context, stored when the outer completes
    ("OnErrorResumeNextWith", "error", .lastSeen),    -- nil only towards an already closed destination
    ("OnErrorResumeNextWith", "complete", .lastSeen),
    ("WhileIWithContext", "subscribe", .lastSeen),    -- re-subscribes with the context of the last completion
    ("ReduceIWithContext", "next", .lastSeen),        -- guarded by i = 0 (proved: reduce_spec)
    ("RepeatWith", "complete", .lastSeen),
    ("Timeout", "error", .lastSeen),                  -- atomic holder initialised with the subscriber context
    ("DefaultIfEmptyWithContext", "next", .outer),    -- the user-supplied default context (by definition)
    ("ContextReset", "next", .outer), ("ContextReset", "error", .outer), ("ContextReset", "complete", .outer) ]
    -- (`ToChannel` handing its channel out with context.TODO() was repaired: fix commit cb2e183)

def c09RowOk (r : OpFact) : Bool :=
  r.ctxRows.all (fun c => c.prov.good || knownCtxRows.contains (r.name, c.kind, c.prov))

/-! ### C12: no per-operator-value or per-pipeline state written by a subscription -/

def knownStateRows : List (String × String) :=
  [ ("ShareWithConfig", "refCount") ]        -- hot by definition
  -- repaired: MergeMapIWithContext's index in the application scope (fix commit 11bf135),
  -- OnErrorResumeNextWith's captured slice rewritten per application (fix commit fd0e106)

def c12RowOk (r : OpFact) : Bool :=
  r.stateRows.all (fun s => knownStateRows.contains (r.name, s.var))

/-! ### C14 / C03: the subscribe function does not wait for its source, and returns a teardown that
    reaches every upstream subscription -/

def knownWaiting : List String :=
  ["ConcatAll", "OnErrorResumeNextWith", "RetryWithConfig", "DoWhileIWithContext", "WhileIWithContext",
   "RepeatWith", "Timer", "detachOn"]

def OpFact.blocks (r : OpFact) : Bool := decide (r.waits > 0) || r.recvOutsideGo

def knownNoTeardown : List String := ["RepeatWith"]

def c14RowOk (r : OpFact) : Bool :=
  (!r.blocks || knownWaiting.contains r.name)
  && decide (r.discarded = 0)
  && (decide (r.subscribeSites = 0) || !(r.returns == "nil" || r.returns == "none") || knownNoTeardown.contains r.name)

/-! ### C07: goroutines that run user code are recovered -/

def knownUnrecovered : List String := []

def c07RowOk (r : OpFact) : Bool :=
  r.goStmts.all (fun g => !(g.kind == "go" && g.callsUser) || g.recovered || knownUnrecovered.contains r.name)

end Ro.Facts

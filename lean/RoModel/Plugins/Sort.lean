/-
  RoModel.Plugins.Sort — plugins/sort/operator.go:41-112.  All three operators collect the source
  (`ro.CollectWithContext`), call `sort.Slice(values, func(i, j) bool { return cmp(values[i], values[j]) < 0 })`
  and replay the slice with the context of the terminal notification.

  `sort.Slice` is pdqsort_func (zsortfunc.go): for at most 12 elements it is `insertionSortLessFunc`
  (modelled: `goInsertionSort`), above that a pattern-defeating quicksort that is not modelled —
  it enters as the parameter `big`, of which only "returns a sorted permutation" is assumed
  (package sort's contract).  The stable reference is core's `List.mergeSort`.
-/
import RoModel.Machine
namespace Ro.Plugins.Sort
open Ro

variable {α : Type}

/-- one pass of `insertionSortLessFunc`: `for j := i; j > a && less(data[j], data[j-1]); j-- { swap }`
    — `x` moves left past every element it is strictly less than, and stops at the first it is not.
    `l` is the already sorted prefix given from right to left. -/
def insertRev (lt : α → α → Bool) (x : α) : List α → List α
  | [] => [x]
  | y :: ys => if lt x y then y :: insertRev lt x ys else x :: y :: ys

/-- `insertionSortLessFunc(data, 0, n, less)` -/
def goInsertionSort (lt : α → α → Bool) (l : List α) : List α :=
  (l.foldl (fun acc x => insertRev lt x acc) []).reverse

/-- `sort.Slice` with `less(i, j) = cmp(v[i], v[j]) < 0` -/
def sortSlice (big : List α → List α) (lt : α → α → Bool) (l : List α) : List α :=
  if l.length ≤ 12 then goInsertionSort lt l else big l

/-- the documented meaning of `SortStableFunc`: the stable sort -/
def stableSort (lt : α → α → Bool) (l : List α) : List α := l.mergeSort (fun a b => !lt b a)

/-- `Sort` / `SortFunc` / `SortStableFunc` as a machine. State: the collected values. -/
def sortM (sorter : List α → List α) : Machine (List α) α α where
  init := []
  onNext s _ v := (s ++ [v], [])
  onError s c e := (s, [.error c e])
  onComplete s c := (s, (sorter s).map (Notif.next c) ++ [.complete c])

end Ro.Plugins.Sort

/-
  RoModel.Plugins.Sort — plugins/sort/operator.go.  All three operators collect the source
  (`ro.CollectWithContext`), sort the slice with `less(i, j) = cmp(values[i], values[j]) < 0`
  and replay it with the context of the terminal notification.

  `Sort` and `SortFunc` call `sort.Slice`, which is pdqsort_func (zsortfunc.go): for at most 12
  elements it is `insertionSortLessFunc` (modelled: `goInsertionSort`), above that a
  pattern-defeating quicksort that is not modelled — it enters as the parameter `big`, of which
  only "returns a sorted permutation" is assumed (package sort's contract).
  `SortStableFunc` calls `sort.SliceStable` (insertion sort on blocks + symMerge; not modelled line
  by line): package sort promises a stable sort, and it is modelled by THE stable sort, core's
  `List.mergeSort` (`stableSort`).
-/
import RoModel.Machine
namespace Ro.Plugins.Sort
open Ro

variable {α : Type}

/-- one pass of `insertionSortLessFunc`: `for j := i; j > a && less(data[j], data[j-1]); j-- { swap }`
    — `x` moves left past every element it is strictly less than, and stops at the first it is not.
    `l` is the already sorted prefix given from right to left. -/
def insertRev (lt : α → α → Bool) (x : α) : List α → List α
  | [] => [x]
  | y :: ys => if lt x y then y :: insertRev lt x ys else x :: y :: ys

/-- `insertionSortLessFunc(data, 0, n, less)` -/
def goInsertionSort (lt : α → α → Bool) (l : List α) : List α :=
  (l.foldl (fun acc x => insertRev lt x acc) []).reverse

/-- `sort.Slice` with `less(i, j) = cmp(v[i], v[j]) < 0` -/
def sortSlice (big : List α → List α) (lt : α → α → Bool) (l : List α) : List α :=
  if l.length ≤ 12 then goInsertionSort lt l else big l

/-- `sort.SliceStable` — what `SortStableFunc` runs: the stable sort -/
def stableSort (lt : α → α → Bool) (l : List α) : List α := l.mergeSort (fun a b => !lt b a)

/-- `Sort` / `SortFunc` / `SortStableFunc` as a machine. State: the collected values. -/
def sortM (sorter : List α → List α) : Machine (List α) α α where
  init := []
  onNext s _ v := (s ++ [v], [])
  onError s c e := (s, [.error c e])
  onComplete s c := (s, (sorter s).map (Notif.next c) ++ [.complete c])

end Ro.Plugins.Sort

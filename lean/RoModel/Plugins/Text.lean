/-
  RoModel.Plugins.Text — `Ellipsis` of plugins/strings/operator_ellipsis.go and
  plugins/bytes/operator_ellipsis.go (helper `ellipsis`), over byte strings, with Go slices modelled as windows
  (offset, length, capacity) on a backing array so that "the input's backing array is not written"
  can be stated.

  `strings.TrimSpace` / `bytes.TrimSpace` remove leading and trailing runes with
  `unicode.IsSpace`. Every such rune has one fixed UTF-8 encoding (`spaceSeqs`); decoding from the
  left matches exactly these prefixes and `utf8.DecodeLastRune` from the right matches exactly
  these suffixes (a truncated or invalid sequence decodes to U+FFFD, width 1, which is not a
  space), so trimming is "strip these byte sequences from both ends" for every byte string, valid
  UTF-8 or not.  Core Lean only.
-/
import RoModel.Plugins.Bytes
namespace Ro.Plugins.Text

/-- UTF-8 encodings of the runes with `unicode.IsSpace`: TAB LF VT FF CR SP, U+0085, U+00A0,
    U+1680, U+2000–U+200A, U+2028, U+2029, U+202F, U+205F, U+3000 -/
def spaceSeqs : List Bytes :=
  [[9], [10], [11], [12], [13], [32], [0xC2, 0x85], [0xC2, 0xA0], [0xE1, 0x9A, 0x80],
   [0xE2, 0x80, 0x80], [0xE2, 0x80, 0x81], [0xE2, 0x80, 0x82], [0xE2, 0x80, 0x83], [0xE2, 0x80, 0x84],
   [0xE2, 0x80, 0x85], [0xE2, 0x80, 0x86], [0xE2, 0x80, 0x87], [0xE2, 0x80, 0x88], [0xE2, 0x80, 0x89],
   [0xE2, 0x80, 0x8A], [0xE2, 0x80, 0xA8], [0xE2, 0x80, 0xA9], [0xE2, 0x80, 0xAF], [0xE2, 0x81, 0x9F],
   [0xE3, 0x80, 0x80]]

/-- width of the space rune the byte string starts with (0: it does not start with one) -/
def spacePrefix (s : Bytes) : Nat :=
  match spaceSeqs.find? (fun q => q.isPrefixOf s) with
  | some q => q.length
  | none => 0

/-- number of bytes `TrimLeftFunc(s, unicode.IsSpace)` removes -/
def trimLeftN : Nat → Bytes → Nat
  | 0, _ => 0
  | fuel + 1, s =>
    let w := spacePrefix s
    if w = 0 then 0 else w + trimLeftN fuel (s.drop w)

def trimLeft (s : Bytes) : Bytes := s.drop (trimLeftN s.length s)

/-- trailing spaces are leading spaces of the reversed string with reversed sequences; done by
    reversing the candidate sequences instead of re-deriving the scan -/
def spaceSuffix (s : Bytes) : Nat :=
  match spaceSeqs.find? (fun q => q.reverse.isPrefixOf s.reverse) with
  | some q => q.length
  | none => 0

def trimRightN : Nat → Bytes → Nat
  | 0, _ => 0
  | fuel + 1, s =>
    let w := spaceSuffix s
    if w = 0 then 0 else w + trimRightN fuel (s.take (s.length - w))

def trimRight (s : Bytes) : Bytes := s.take (s.length - trimRightN s.length s)

/-- `strings.TrimSpace` / the value of `bytes.TrimSpace` -/
def trimSpace (s : Bytes) : Bytes := trimRight (trimLeft s)

def dots : Bytes := [46, 46, 46]

/-- `rostrings.ellipsis` (operator_ellipsis.go:23-34); strings are immutable, so this is a
    function of the value only.  `length` may be any Go int. -/
def ellipsis (s : Bytes) (length : Int) : Bytes :=
  let t := trimSpace s
  if (t.length : Int) > length then
    if t.length < 3 ∨ length < 3 then dots
    else trimSpace (t.take (length - 3).toNat) ++ dots
  else t

/-! ### byte slices -/

/-- a Go slice header over the caller's backing array: `cap` is counted from `off` -/
structure Slice where
  off : Nat
  len : Nat
  cap : Nat
deriving DecidableEq, Repr

/-- a `[]byte` value: nil, a window on the caller's array, or a freshly allocated array -/
inductive Ref
  | nil
  | window (s : Slice)
  | fresh (bs : Bytes)
deriving DecidableEq, Repr

def Slice.Valid (h : Bytes) (s : Slice) : Prop := s.len ≤ s.cap ∧ s.off + s.cap ≤ h.length

def Slice.view (h : Bytes) (s : Slice) : Bytes := (h.drop s.off).take s.len

def Ref.view (h : Bytes) : Ref → Bytes
  | .nil => []
  | .window s => s.view h
  | .fresh bs => bs

/-- `bytes.TrimSpace`: a sub-window of its argument, or nil when nothing is left
    (bytes.go TrimSpace `if start == stop { return nil }`, TrimLeftFunc `if i == -1 { return nil }`) -/
def trimSpaceS (h : Bytes) (s : Slice) : Ref :=
  let v := s.view h
  let l := trimLeftN v.length v
  let t := trimSpace v
  if t.length = 0 then .nil
  else .window { off := s.off + l, len := t.length, cap := s.cap - l }

/-- `s[0:k]` -/
def Slice.prefix (s : Slice) (k : Nat) : Slice := { s with len := k }

/-- `robytes.ellipsis` (plugins/bytes/operator_ellipsis.go): heap after the call, result.
    The kept prefix is copied into a new array (`make` + `append`) before the dots are appended,
    so the only windows on the caller's array it returns are sub-windows it never writes. -/
def ellipsisB (h : Bytes) (s : Slice) (length : Int) : Bytes × Ref :=
  match trimSpaceS h s with
  | .window t =>
    if (t.len : Int) > length then
      if t.len < 3 ∨ length < 3 then (h, .fresh dots)
      else (h, .fresh ((trimSpaceS h (t.prefix (length - 3).toNat)).view h ++ dots))
    else (h, .window t)
  | r => if (0 : Int) > length then (h, .fresh dots) else (h, r)

end Ro.Plugins.Text

/-
  RoModel.Plugins.Bytes — byte strings as the plugin models see them, and the text protocol
  pieces shared with go/harness/plugin.go (hex items, FNV-1a clipping of long renderings).

  A Go `string` / `[]byte` value is a sequence of bytes (not necessarily UTF-8); it is modelled as
  `List Nat` whose elements are < 256 (the parser only produces such lists; theorems that need
  the bound state it as `∀ b ∈ bs, b < 256`).  Core Lean only.
-/
namespace Ro.Plugins

abbrev Bytes := List Nat

def IsBytes (bs : Bytes) : Prop := ∀ b ∈ bs, b < 256

def hexDigit (n : Nat) : Char :=
  if n < 10 then Char.ofNat (48 + n) else Char.ofNat (87 + n)

def hexVal (c : Char) : Option Nat :=
  let n := c.toNat
  if 48 ≤ n ∧ n ≤ 57 then some (n - 48)
  else if 97 ≤ n ∧ n ≤ 102 then some (n - 87)
  else none

def renderHex (bs : Bytes) : String :=
  String.ofList (bs.flatMap (fun b => [hexDigit (b / 16 % 16), hexDigit (b % 16)]))

/-- hex text to bytes; a loop over the UTF-8 bytes of the text (64 KiB items: no deep recursion) -/
def parseHex (s : String) : Option Bytes :=
  let bs := s.toUTF8
  if bs.size % 2 != 0 then none
  else
    let r := (List.range (bs.size / 2)).foldl (fun (acc : Option (Array Nat)) i =>
      match acc, hexVal (Char.ofNat (bs.get! (2 * i)).toNat), hexVal (Char.ofNat (bs.get! (2 * i + 1)).toNat) with
      | some a, some x, some y => some (a.push (x * 16 + y))
      | _, _, _ => none) (some (Array.mkEmpty (bs.size / 2)))
    r.map Array.toList

/-- one term of an item expression: `6162` or `6162*300` (the bytes repeated 300 times) -/
def parseTerm (s : String) : Option Bytes :=
  match s.splitOn "*" with
  | [h] => parseHex h
  | [h, n] => match parseHex h, n.toNat? with
    | some bs, some k => some ((List.replicate k bs).flatten)
    | _, _ => none
  | _ => none

/-- item expression: `e` (the empty byte string) or terms joined by `+` -/
def parseItem (s : String) : Option Bytes :=
  if s == "e" then some []
  else ((s.splitOn "+").mapM parseTerm).map List.flatten

/-- the items of an `in=` field: `-` (none) or items joined by `,` -/
def parseItems (s : String) : Option (List Bytes) :=
  if s == "-" || s == "" then some [] else (s.splitOn ",").mapM parseItem

/-- FNV-1a, 64 bit, over the UTF-8 bytes of an (ASCII) rendering -/
def fnv64 (s : String) : UInt64 :=
  s.toUTF8.foldl (fun h b => (h ^^^ b.toUInt64) * 1099511628211) 14695981039346656037

def hex64 (v : UInt64) : String :=
  String.ofList ((List.range 16).map (fun i => hexDigit ((v.toNat / 16 ^ (15 - i)) % 16)))

/-- renderings longer than 256 characters are replaced by `#<length>.<fnv64>` on both sides -/
def clip (s : String) : String :=
  if s.length > 256 then "#" ++ toString s.length ++ "." ++ hex64 (fnv64 s) else s

end Ro.Plugins

/-
  RoModel.Plugins.Lift — the shape of almost every plugin operator: `ro.Map(f)`, `ro.MapErr(f)`,
  `ro.Filter(p)` around ONE library call that looks at the item only (no index, context returned
  unchanged: operator_transformations.go `Map` → `MapIWithContext` adapter).
  `f` is an arbitrary function: regexp, templates, JSON, gob, time, Unicode case mapping enter here
  uninterpreted.
-/
import RoModel.Ops.Transform
import RoModel.Ops.Filter
namespace Ro.Plugins
open Ro

variable {α β : Type}

/-- `ro.Map(func(v) { return f(v) })` -/
def liftMap (f : α → β) : Machine Nat α β := mapM (fun c v _ => (c, f v))

/-- `ro.MapErr(func(v) { return f(v) })`; `f v = (value, err)` as in Go -/
def liftMapErr (f : α → β × Option Err) : Machine Nat α β :=
  mapErrM (fun c v _ => ((f v).1, c, (f v).2))

/-- `ro.Filter(func(v) { return p(v) })` -/
def liftFilter (p : α → Bool) : Machine Nat α α := filterM (fun c v _ => (c, p v))

end Ro.Plugins

/-
  RoModel.Plugins.Reader — plugins/stdio/source.go:30-53 (`NewIOReader`) and :57-83
  (`NewIOReaderLine`).

  An `io.Reader` is a script of `Read` results: the bytes it copied to the front of the caller's
  buffer together with the error it returned (`none`, EOF or another error).  The io.Reader
  contract allows `n > 0` together with an error.  `NewIOReader` allocates ONE buffer of
  `IOReaderBufferSize` bytes per subscription and hands `buf[:n]` to the observer after every
  successful read — every delivered slice is a window on that same array.
-/
import RoModel.Machine
import RoModel.Plugins.Bytes
namespace Ro.Plugins.Reader
open Ro Ro.Plugins

inductive RErr
  | eof
  | other (n : Nat)
deriving DecidableEq, Repr

structure Read where
  data : Bytes
  err : Option RErr
deriving DecidableEq, Repr

inductive Term
  | complete
  | error (n : Nat)
  | none          -- the script ran out: the reader blocks for ever (not produced by the harness)
deriving DecidableEq, Repr

structure Run where
  buf : Bytes                 -- the one buffer
  lens : List Nat := []       -- lengths of the delivered windows `buf[:n]`, in order
  delivered : List Bytes := []  -- what each window showed when it was delivered
  term : Term := .none
deriving Repr

def overwrite (buf : Bytes) (data : Bytes) : Bytes := data ++ buf.drop data.length

/-- source.go:34-45 -/
def ioReader : Run → List Read → Run
  | r, [] => r
  | r, rd :: rest =>
    let buf := overwrite r.buf rd.data       -- reader.Read(buf) wrote n bytes
    match rd.err with
    | some .eof => { r with buf := buf, term := .complete }        -- the n bytes are not looked at
    | some (.other k) => { r with buf := buf, term := .error k }
    | none => ioReader { r with buf := buf, lens := r.lens ++ [rd.data.length], delivered := r.delivered ++ [rd.data] } rest

def bufSize : Nat := 1024

def runIOReader (script : List Read) : Run := ioReader { buf := List.replicate bufSize 0 } script

/-- what an observer that kept the delivered slices sees in them after the run -/
def Run.retained (r : Run) : List Bytes := r.lens.map (fun n => r.buf.take n)

/-- the repaired reader (repo_fixes/C18-stdio-reader.patch): a copy per chunk, and the bytes
    that arrive together with an error are delivered first -/
def ioReaderFixed : List Bytes → List Read → List Bytes × Term
  | acc, [] => (acc, .none)
  | acc, rd :: rest =>
    let acc' := if rd.data.length > 0 then acc ++ [rd.data] else acc
    match rd.err with
    | some .eof => (acc', .complete)
    | some (.other k) => (acc', .error k)
    | none => ioReaderFixed (acc ++ [rd.data]) rest

/-- all bytes the reader produced up to and including the read that returned an error -/
def produced : List Read → Bytes
  | [] => []
  | rd :: rest => match rd.err with
    | some _ => rd.data
    | none => rd.data ++ produced rest

/-- `NewIOReaderLine`: one fresh copy per `ReadLine` result (source.go:72-74); `bufio` is not
    modelled, the line splitting enters as the list of results -/
def lineReader (lines : List Bytes) : List Bytes := lines.map (fun l => l.map id)

end Ro.Plugins.Reader

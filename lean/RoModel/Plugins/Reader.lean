/-
  RoModel.Plugins.Reader — plugins/stdio/source.go `NewIOReader` (buffer, `Read` loop, one fresh
  chunk per read) and `NewIOReaderLine`.

  An `io.Reader` is a script of `Read` results: the bytes it copied to the front of the caller's
  buffer together with the error it returned (`none`, EOF or another error).  The io.Reader
  contract allows `n > 0` together with an error.  `NewIOReader` allocates one buffer of
  `IOReaderBufferSize` bytes per subscription; after every `Read` it copies `buf[:n]` into a NEW
  array and hands that to the observer (when `n > 0`, or when there was no error), then looks at
  the error.  A fresh array is never written again, so a chunk is modelled by the bytes copied
  into it — taken from the shared buffer as it stood after that `Read`.
-/
import RoModel.Machine
import RoModel.Plugins.Bytes
namespace Ro.Plugins.Reader
open Ro Ro.Plugins

inductive RErr
  | eof
  | other (n : Nat)
deriving DecidableEq, Repr

structure Read where
  data : Bytes
  err : Option RErr
deriving DecidableEq, Repr

inductive Term
  | complete
  | error (n : Nat)
  | none          -- the script ran out: the reader blocks for ever (not produced by the harness)
deriving DecidableEq, Repr

structure Run where
  buf : Bytes                 -- the one read buffer
  chunks : List Bytes := []   -- the fresh arrays handed to the observer, in order
  term : Term := .none
deriving Repr

/-- `reader.Read(buf)` wrote `data` to the front of the buffer -/
def overwrite (buf : Bytes) (data : Bytes) : Bytes := data ++ buf.drop data.length

/-- the loop of `NewIOReader` -/
def ioReader : Run → List Read → Run
  | r, [] => r
  | r, rd :: rest =>
    let buf := overwrite r.buf rd.data
    -- `if n > 0 || err == nil { chunk := make([]byte, n); copy(chunk, buf[:n]); Next(chunk) }`
    let chunks := if rd.data.length > 0 ∨ rd.err.isNone then r.chunks ++ [buf.take rd.data.length] else r.chunks
    match rd.err with
    | some .eof => { buf := buf, chunks := chunks, term := .complete }
    | some (.other k) => { buf := buf, chunks := chunks, term := .error k }
    | none => ioReader { buf := buf, chunks := chunks, term := r.term } rest

def bufSize : Nat := 1024

def runIOReader (script : List Read) : Run := ioReader { buf := List.replicate bufSize 0 } script

/-- what each read that is handed on carried: every read without error, and the erroring read
    when it also returned bytes; nothing after the first error -/
def handedOn : List Read → List Bytes
  | [] => []
  | rd :: rest => match rd.err with
    | some _ => if rd.data.length > 0 then [rd.data] else []
    | none => rd.data :: handedOn rest

/-- all bytes the reader produced up to and including the read that returned an error -/
def produced : List Read → Bytes
  | [] => []
  | rd :: rest => match rd.err with
    | some _ => rd.data
    | none => rd.data ++ produced rest

/-- `NewIOReaderLine`: one fresh copy per `ReadLine` result; `bufio` is not modelled, the line
    splitting enters as the list of results -/
def lineReader (lines : List Bytes) : List Bytes := lines.map (fun l => l.map id)

end Ro.Plugins.Reader

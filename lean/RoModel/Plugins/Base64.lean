/-
  RoModel.Plugins.Base64 — `encoding/base64` as used by plugins/encoding/base64/operator.go:33-52
  (`EncodeToString`, `DecodeString` of the four predefined encodings: Std / URL × padded / raw).

  `encode` follows base64.go `(*Encoding).Encode` (3 bytes → 4 characters, tail of 1 or 2 bytes,
  optional `=` padding).  `decode` follows `(*Encoding).Decode` / `decodeQuantum` in the default
  non-strict mode: CR and LF are skipped anywhere, a quantum of 4 alphabet characters gives 3
  bytes, padding is accepted only as `xx==` / `xxx=` at the very end (followed by CR/LF only),
  an unpadded tail of 2 or 3 characters is accepted only by the raw encodings, the unused low
  bits of a tail are ignored.  The fast paths (`assemble64`, `assemble32`) fall back to
  `decodeQuantum` on any non-alphabet byte and are not modelled separately.
  `none` stands for `CorruptInputError` (the offset is not modelled).
-/
import RoModel.Plugins.Bytes
namespace Ro.Plugins.Base64

structure Enc where
  url : Bool
  pad : Bool
deriving DecidableEq, Repr

def std : Enc := ⟨false, true⟩
def urlEnc : Enc := ⟨true, true⟩
def rawStd : Enc := ⟨false, false⟩
def rawUrl : Enc := ⟨true, false⟩

def alphaCommon : List Nat :=
  "ABCDEFGHIJKLMNOPQRSTUVWXYZabcdefghijklmnopqrstuvwxyz0123456789".toList.map Char.toNat

/-- `encodeStd` / `encodeURL` (base64.go:34-35) -/
def alphabet (e : Enc) : List Nat := alphaCommon ++ (if e.url then [45, 95] else [43, 47])

def encChar (e : Enc) (i : Nat) : Nat := (alphabet e).getD i 0

/-- `decodeMap`: index of the character in the alphabet -/
def decChar (e : Enc) (c : Nat) : Option Nat :=
  let i := (alphabet e).idxOf c
  if i < 64 then some i else none

def padding (e : Enc) (n : Nat) : Bytes := if e.pad then List.replicate n 61 else []

def encode (e : Enc) : Bytes → Bytes
  | [] => []
  | [a] => [encChar e (a / 4), encChar e (a % 4 * 16)] ++ padding e 2
  | [a, b] => [encChar e (a / 4), encChar e (a % 4 * 16 + b / 16), encChar e (b % 16 * 4)] ++ padding e 1
  | a :: b :: c :: rest =>
    encChar e (a / 4) :: encChar e (a % 4 * 16 + b / 16) :: encChar e (b % 16 * 4 + c / 64) ::
      encChar e (c % 64) :: encode e rest

/-- skip CR / LF -/
def skipNL : Bytes → Bytes
  | 10 :: r => skipNL r
  | 13 :: r => skipNL r
  | r => r

/-- bytes of a (possibly partial) quantum of 6-bit values -/
def quantumBytes : List Nat → Bytes
  | [a, b] => [a * 4 + b / 16]
  | [a, b, c] => [a * 4 + b / 16, b % 16 * 16 + c / 4]
  | [a, b, c, d] => [a * 4 + b / 16, b % 16 * 16 + c / 4, c % 4 * 64 + d]
  | _ => []

/-- `acc`: the 6-bit values of the current quantum read so far (`j = acc.length < 4`); the result
    is the bytes decoded from here on (`none`: CorruptInputError somewhere ahead). -/
def decodeGo (e : Enc) : List Nat → Bytes → Option Bytes
  | acc, [] =>
    -- base64.go decodeQuantum `if len(src) == si`
    if acc.length = 0 then some []
    else if acc.length = 1 ∨ e.pad then none
    else some (quantumBytes acc)
  | acc, ch :: rest =>
    match decChar e ch with
    | some v =>
      if acc.length = 3 then (decodeGo e [] rest).map (quantumBytes (acc ++ [v]) ++ ·)
      else decodeGo e (acc ++ [v]) rest
    | none =>
      if ch = 10 ∨ ch = 13 then decodeGo e acc rest
      else if e.pad ∧ ch = 61 then
        if acc.length < 2 then none
        else if acc.length = 2 then
          -- "==" expected; newlines may sit between and after
          match skipNL rest with
          | 61 :: r2 => if skipNL r2 = [] then some (quantumBytes acc) else none
          | _ => none
        else if skipNL rest = [] then some (quantumBytes acc) else none
      else none

/-- `enc.DecodeString(s)`: `some bytes` when err == nil, `none` for CorruptInputError -/
def decode (e : Enc) (s : Bytes) : Option Bytes := decodeGo e [] s

end Ro.Plugins.Base64

/-
  RoModel.Plugins.Strconv — the decimal part of `strconv` that plugins/strconv/operator.go lifts:
  `Itoa` (:226), `Atoi` (:32), `ParseInt(s, 10, 64)` (:43), `FormatInt(v, 10)` (:166),
  `ParseBool` (:69), `FormatBool` (:116).  Go `int` is 64 bit here.

  `parseMag` is `strconv.ParseUint(s, 10, 64)` read line by line (atoi.go): digits are consumed left to
  right; a non-digit gives ErrSyntax at once, `n >= cutoff` or an overflowing `n*10+d` gives
  ErrRange at once (whichever comes first in the scan); underscores are only legal with base 0 and
  are therefore syntax errors here.  `parseInt64` is `ParseInt` (sign, then the range check against
  2^63); `Atoi`'s fast path for short strings gives the same results and is not modelled
  separately.
-/
import RoModel.Plugins.Bytes
namespace Ro.Plugins.Strconv

inductive NumErr | syntax | range
deriving DecidableEq, Repr

def decDigitsF : Nat → Nat → Bytes
  | 0, _ => []
  | f + 1, n => if n < 10 then [48 + n] else decDigitsF f (n / 10) ++ [48 + n % 10]

/-- decimal digits (ASCII codes), most significant first; `0` ↦ "0" -/
def decDigits (n : Nat) : Bytes := decDigitsF (n + 1) n

/-- `strconv.Itoa` / `FormatInt(v, 10)` -/
def itoa (n : Int) : Bytes :=
  if n < 0 then 45 :: decDigits n.natAbs else decDigits n.natAbs

def maxU64 : Nat := 18446744073709551615
def cutoff : Nat := 1844674407370955162   -- maxUint64/10 + 1

def parseMag : Nat → Bytes → Except NumErr Nat
  | acc, [] => .ok acc
  | acc, c :: rest =>
    if c < 48 ∨ c > 57 then .error .syntax
    else if acc ≥ cutoff then .error .range
    else if acc * 10 + (c - 48) > maxU64 then .error .range
    else parseMag (acc * 10 + (c - 48)) rest

/-- `ParseUint(s, 10, 64)` -/
def parseUint64 (s : Bytes) : Except NumErr Nat :=
  if s = [] then .error .syntax else parseMag 0 s

def two63 : Nat := 9223372036854775808

/-- sign already removed: the range check of `ParseInt` -/
def signed (neg : Bool) (body : Bytes) : Except NumErr Int :=
  match parseUint64 body with
  | .error .syntax => .error .syntax
  | .error .range => .error .range      -- un = maxUint64 ≥ cutoff
  | .ok un =>
    if !neg ∧ un ≥ two63 then .error .range
    else if neg ∧ un > two63 then .error .range
    else .ok (if neg then -(un : Int) else (un : Int))

/-- `ParseInt(s, 10, 64)` and `Atoi(s)` -/
def parseInt64 : Bytes → Except NumErr Int
  | [] => .error .syntax
  | c :: rest =>
    if c = 43 then signed false rest
    else if c = 45 then signed true rest
    else signed false (c :: rest)

def atoi (s : Bytes) : Except NumErr Int := parseInt64 s

/-- `strconv.FormatBool` -/
def formatBool (b : Bool) : Bytes :=
  if b then [116, 114, 117, 101] else [102, 97, 108, 115, 101]

/-- `strconv.ParseBool` (atob.go): exactly these twelve spellings -/
def parseBool (s : Bytes) : Option Bool :=
  if s = [49] ∨ s = [116] ∨ s = [84] ∨ s = [84, 82, 85, 69] ∨ s = [116, 114, 117, 101] ∨ s = [84, 114, 117, 101] then some true
  else if s = [48] ∨ s = [102] ∨ s = [70] ∨ s = [70, 65, 76, 83, 69] ∨ s = [102, 97, 108, 115, 101] ∨ s = [70, 97, 108, 115, 101] then some false
  else none

end Ro.Plugins.Strconv

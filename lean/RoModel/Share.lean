/-
  RoModel.Share — `ShareWithConfig` (operator_connectable.go:67-181) as a transition system, read
  line by line from the pinned tree, bugs included. Core Lean only (linked into the driver).

  One shared observable = one `St`. Events (`Event`): a new downstream subscriber arrives (`sub`),
  downstream subscriber `i` leaves (`unsub i`), the source pushes a notification to every upstream
  subscription that is live (`src x`). Each event is processed to quiescence (sequential semantics;
  the regions R1/R2/R3/T of DESIGN-kernel.md §3 appear as the `-- R1` … comments of `subscribe` and
  `teardownT`). The source is an instrumented probe: its k-th subscription first plays `pre k`
  synchronously inside `Subscribe` (a `Just`-like prefix; `[]` = purely hot) and then stays hot
  until its teardown runs; `live`/`total` are the probe's subscription counters.

  Objects of the Go code and where they live in the state:
    * `mu`-protected variables `refCount`, `subject`, `sourceSubscription` (both are *generation*
      numbers here: `getOrCreateSubject` always assigns the two together, `reset` compares each with
      the pair captured by the caller), the two atomics `hasBeenResetOnError/Completion`;
    * per generation `g` (`Gen`): the connector subject (minimal local model of
      subject_publish.go / subject_behavior.go / subject_replay.go: status, registered observers,
      last value, replay buffer), the `sourceSubscription` object (done flag + the proxies whose
      `Unsubscribe` was `Add`ed to it), the proxy subscriber (status, its Subscription's done flag,
      whether the upstream teardown is registered on it), and the upstream subscription itself
      (subscribed? torn down?);
    * per downstream subscriber `i` (`DSub`): the `subscriberImpl` created by
      `observableImpl.SubscribeWithContext` (observable.go:303-321) — the subject re-uses it as is
      (`newSubscriberImpl`, subscriber.go:117-121) — with its status, what its observer received,
      its Subscription's done flag and its two possible finalizers in registration order:
      "delete my entry from the subject of generation g" and Share's teardown (captured g).
  Not modelled: contexts (C09), re-entrant calls from observer callbacks into the same shared
  observable (excluded from generated sequences), interleavings inside one event (the concurrent
  harness variant searches those).
-/
namespace Ro.Share

inductive SErr
  | user (n : Nat)
deriving DecidableEq, Repr, Inhabited

/-- a notification as a downstream observer / the drop hook sees it (no context) -/
inductive Ev
  | next (v : Int)
  | error (e : SErr)
  | complete
deriving DecidableEq, Repr, Inhabited

def Ev.isTerminal : Ev → Bool
  | .next _ => false
  | _ => true

/-- `subscriberImpl.status` after this terminal (subscriber.go:205-241): 1 error, 2 complete -/
def Ev.code : Ev → Nat
  | .error _ => 1
  | _ => 2

/-- connector kinds: `NewPublishSubject`, `NewBehaviorSubject(init)`, `NewReplaySubject(n)`,
    `NewReplaySubject(ReplaySubjectUnlimitedBufferSize)` -/
inductive Conn
  | publish
  | behavior (init : Int)
  | replay (n : Nat)
  | replayAll
deriving DecidableEq, Repr, Inhabited

/-- `ShareConfig.ResetOnError / ResetOnComplete / ResetOnRefCountZero` -/
structure Flags where
  onError : Bool
  onComplete : Bool
  onZero : Bool
deriving DecidableEq, Repr, Inhabited

structure Cfg where
  conn : Conn
  flags : Flags
  /-- what the k-th upstream subscription plays synchronously inside `Subscribe` -/
  pre : Nat → List Ev

inductive Status
  | open
  | errored (e : SErr)
  | completed
deriving DecidableEq, Repr, Inhabited

def Status.ofTerminal : Ev → Status
  | .error e => .errored e
  | _ => .completed

/-- minimal subject state (subject_publish.go:37-45, subject_behavior.go, subject_replay.go) -/
structure Subj where
  status : Status := .open
  /-- registered observers (downstream subscriber ids), insertion order -/
  obs : List Nat := []
  /-- behavior: `last` -/
  last : Int := 0
  /-- replay: `values` -/
  buf : List Int := []
deriving Repr, Inhabited

def Subj.new : Conn → Subj
  | .behavior init => { last := init }
  | _ => {}

structure Gen where
  subj : Subj := {}
  /-- `sourceSubscription.done` -/
  ssDone : Bool := false
  /-- proxies (by generation) whose `Unsubscribe` has been `Add`ed to this sourceSubscription -/
  ssFins : List Nat := []
  /-- proxy `subscriberImpl.status` -/
  pStatus : Nat := 0
  /-- proxy's Subscription: `done` -/
  pDone : Bool := false
  /-- proxy's Subscription: the upstream teardown is registered -/
  pFin : Bool := false
  /-- `source.SubscribeWithContext(proxy)` has been called -/
  upSub : Bool := false
  /-- the upstream teardown has run -/
  upTorn : Bool := false
  /-- the downstream subscriber whose Subscribe created this generation: the source is subscribed with THAT subscriber's
      context (`source.SubscribeWithContext(subscriberCtx, proxy)`, operator_connectable.go:160-165) — C09 -/
  creator : Nat := 0
deriving Repr, Inhabited

structure DSub where
  /-- `subscriberImpl.status`: 0 open, 1 errored, 2 completed or unsubscribed -/
  status : Nat := 0
  /-- what the user's observer received -/
  trace : List Ev := []
  /-- its Subscription: `done` -/
  done : Bool := false
  /-- finalizer 1 (subject's `Subscribe`): delete my entry in the subject of generation g -/
  delFin : Option Nat := none
  /-- finalizer 2 (observable.go:310): Share's teardown, with the captured generation -/
  tearFin : Option Nat := none
deriving Repr, Inhabited

structure St where
  refCount : Int := 0
  subject : Option Nat := none
  sourceSubscription : Option Nat := none
  flagE : Bool := false
  flagC : Bool := false
  gens : Nat → Gen := fun _ => {}
  ngens : Nat := 0
  subs : Nat → DSub := fun _ => {}
  nsubs : Nat := 0
  /-- `OnDroppedNotification`, in call order -/
  drops : List Ev := []

instance : Inhabited St := ⟨{}⟩

namespace St

def modGen (s : St) (g : Nat) (f : Gen → Gen) : St :=
  { s with gens := fun k => if k = g then f (s.gens k) else s.gens k }

def modSub (s : St) (i : Nat) (f : DSub → DSub) : St :=
  { s with subs := fun k => if k = i then f (s.subs k) else s.subs k }

def drop (s : St) (x : Ev) : St := { s with drops := s.drops ++ [x] }

/-- the probe's teardown has not run -/
def upLive (s : St) (g : Nat) : Bool := (s.gens g).upSub && !(s.gens g).upTorn

/-- the probe's counters -/
def live (s : St) : Nat := ((List.range s.ngens).filter s.upLive).length
def total (s : St) : Nat := ((List.range s.ngens).filter (fun g => (s.gens g).upSub)).length

end St

/-! ### the proxy's Subscription, the proxy, `sourceSubscription`, `reset` -/

/-- proxy's `Subscription.Unsubscribe` (subscription.go:114-150): set done, run the finalizers -/
def pSubnUnsub (g : Nat) (s : St) : St :=
  if (s.gens g).pDone then s
  else if (s.gens g).pFin then s.modGen g fun x => { x with pDone := true, pFin := false, upTorn := true }
  else s.modGen g fun x => { x with pDone := true }

/-- proxy `Unsubscribe` (subscriber.go:259-263): CAS 0→2, then the Subscription -/
def pUnsubscribe (g : Nat) (s : St) : St :=
  if (s.gens g).pStatus = 0 then pSubnUnsub g (s.modGen g fun x => { x with pStatus := 2 }) else s

/-- `sourceSubscription_g.Unsubscribe()` -/
def ssUnsub (g : Nat) (s : St) : St :=
  if (s.gens g).ssDone then s
  else ((s.gens g).ssFins).foldl (fun s p => pUnsubscribe p s) (s.modGen g fun x => { x with ssDone := true, ssFins := [] })

/-- the two comparisons at the end of `reset` -/
def clearShared (g : Nat) (s : St) : St :=
  { s with sourceSubscription := if s.sourceSubscription = some g then none else s.sourceSubscription,
           subject := if s.subject = some g then none else s.subject }

/-- `reset(currentSubject, currentSourceSubscription)` — operator_connectable.go:98-109 -/
def reset (g : Nat) (s : St) : St := clearShared g (ssUnsub g s)

/-! ### downstream subscribers -/

/-- `subscriberImpl.Unsubscribe`'s CAS 0→2 -/
def casClose (i : Nat) (s : St) : St :=
  if (s.subs i).status = 0 then s.modSub i fun d => { d with status := 2 } else s

def decRef (s : St) : St := { s with refCount := s.refCount - 1 }

/-- operator_connectable.go:171-175 -/
def zeroReset (fl : Flags) (g : Nat) (s : St) : St :=
  if fl.onZero && s.refCount == 0 && !s.flagE && !s.flagC then reset g s else s

/-- Share's teardown (operator_connectable.go:165-178), region T. `sub.Unsubscribe()` is the
    subscriber's own `Unsubscribe`: a CAS 0→2; the nested `Subscription.Unsubscribe` returns at once
    because this teardown only ever runs as a finalizer of that Subscription (`done` already set).
    Then [mu] `refCount--` and the reset test. -/
def teardownT (fl : Flags) (i g : Nat) (s : St) : St := zeroReset fl g (decRef (casClose i s))

/-- finalizer 1: `s.observers.Delete(index)` -/
def runDel (i : Nat) (o : Option Nat) (s : St) : St :=
  match o with
  | some g => s.modGen g fun x => { x with subj := { x.subj with obs := x.subj.obs.erase i } }
  | none => s

/-- finalizer 2: Share's teardown -/
def runTear (fl : Flags) (i : Nat) (o : Option Nat) (s : St) : St :=
  match o with
  | some g => teardownT fl i g s
  | none => s

/-- downstream subscriber's `Subscription.Unsubscribe`: finalizers in registration order -/
def dSubnUnsub (fl : Flags) (i : Nat) (s : St) : St :=
  if (s.subs i).done then s
  else runTear fl i (s.subs i).tearFin (runDel i (s.subs i).delFin
        (s.modSub i fun d => { d with done := true, delFin := none, tearFin := none }))

/-- `subscriberImpl.Unsubscribe` -/
def dUnsubscribe (fl : Flags) (i : Nat) (s : St) : St :=
  if (s.subs i).status = 0 then dSubnUnsub fl i (s.modSub i fun d => { d with status := 2 }) else s

/-- `subscriberImpl.NextWithContext` (subscriber.go:176-197) -/
def dNext (i : Nat) (v : Int) (s : St) : St :=
  if (s.subs i).status = 0 then s.modSub i fun d => { d with trace := d.trace ++ [.next v] }
  else s.drop (.next v)

/-- the CAS-guarded delivery of a terminal -/
def dDeliver (i : Nat) (t : Ev) (s : St) : St :=
  if (s.subs i).status = 0 then s.modSub i fun d => { d with status := t.code, trace := d.trace ++ [t] }
  else s.drop t

/-- `subscriberImpl.ErrorWithContext / CompleteWithContext` (subscriber.go:205-241): the
    `Subscription.Unsubscribe` at the end is *not* guarded by the CAS -/
def dTerm (fl : Flags) (i : Nat) (t : Ev) (s : St) : St := dSubnUnsub fl i (dDeliver i t s)

/-! ### the connector subject of generation g -/

/-- behavior stores the value before broadcasting (subject_behavior.go `s.last = …`) -/
def subjStore (conn : Conn) (g : Nat) (v : Int) (s : St) : St :=
  match conn with
  | .behavior _ => s.modGen g fun x => { x with subj := { x.subj with last := v } }
  | _ => s

/-- `broadcastNext` -/
def bcastNext (g : Nat) (v : Int) (s : St) : St :=
  ((s.gens g).subj.obs).foldl (fun s i => dNext i v s) s

/-- replay appends after broadcasting and evicts the oldest value beyond the buffer size; the
    evicted value goes to the drop hook (subject_replay.go:112-118) -/
def subjBuffer (conn : Conn) (g : Nat) (v : Int) (s : St) : St :=
  match conn with
  | .replay n =>
    if ((s.gens g).subj.buf ++ [v]).length > n then
      (s.drop (.next (((s.gens g).subj.buf ++ [v]).headD 0))).modGen g fun x =>
        { x with subj := { x.subj with buf := (x.subj.buf ++ [v]).drop ((x.subj.buf ++ [v]).length - n) } }
    else s.modGen g fun x => { x with subj := { x.subj with buf := x.subj.buf ++ [v] } }
  | .replayAll => s.modGen g fun x => { x with subj := { x.subj with buf := x.subj.buf ++ [v] } }
  | _ => s

/-- `NextWithContext` of the three subjects -/
def subjNext (conn : Conn) (g : Nat) (v : Int) (s : St) : St :=
  match (s.gens g).subj.status with
  | .open => subjBuffer conn g v (bcastNext g v (subjStore conn g v s))
  | _ => s.drop (.next v)

/-- `broadcastError / broadcastComplete` -/
def bcastTerm (fl : Flags) (g : Nat) (t : Ev) (s : St) : St :=
  ((s.gens g).subj.obs).foldl (fun s i => dTerm fl i t s) s

/-- `unsubscribeAll` -/
def subjClear (g : Nat) (s : St) : St :=
  s.modGen g fun x => { x with subj := { x.subj with obs := [] } }

/-- `ErrorWithContext / CompleteWithContext` of the three subjects, then `unsubscribeAll` -/
def subjTerm (fl : Flags) (g : Nat) (t : Ev) (s : St) : St :=
  match (s.gens g).subj.status with
  | .open => subjClear g (bcastTerm fl g t (s.modGen g fun x => { x with subj := { x.subj with status := Status.ofTerminal t } }))
  | _ => subjClear g (s.drop t)

/-- replay: the stored values first, whatever the status (subject_replay.go:60-62) -/
def subjReplay (conn : Conn) (g i : Nat) (s : St) : St :=
  match conn with
  | .replay _ | .replayAll => ((s.gens g).subj.buf).foldl (fun s v => dNext i v s) s
  | _ => s

/-- behavior: the last value to a subscriber of an open subject -/
def subjLast (conn : Conn) (g i : Nat) (s : St) : St :=
  match conn with
  | .behavior _ => dNext i (s.gens g).subj.last s
  | _ => s

/-- register: store the observer, then `subscription.Add(delete entry)` (subscription.go:78-91:
    the finalizer runs at once when the subscription is already done) -/
def subjRegister (g i : Nat) (s : St) : St :=
  if (s.subs i).done then
    (s.modGen g fun x => { x with subj := { x.subj with obs := x.subj.obs ++ [i] } }).modGen g fun x =>
      { x with subj := { x.subj with obs := x.subj.obs.erase i } }
  else (s.modGen g fun x => { x with subj := { x.subj with obs := x.subj.obs ++ [i] } }).modSub i fun d => { d with delFin := some g }

/-- `SubscribeWithContext` of the three subjects with the ready-made subscriber `i` -/
def subjSubscribe (cfg : Cfg) (g i : Nat) (s : St) : St :=
  match ((subjReplay cfg.conn g i s).gens g).subj.status with
  | .errored e => dTerm cfg.flags i (.error e) (subjReplay cfg.conn g i s)
  | .completed => dTerm cfg.flags i .complete (subjReplay cfg.conn g i s)
  | .open => subjRegister g i (subjLast cfg.conn g i (subjReplay cfg.conn g i s))

/-! ### the proxy observer between source and subject (operator_connectable.go:131-157) -/

def pNext (cfg : Cfg) (g : Nat) (v : Int) (s : St) : St :=
  if (s.gens g).pStatus = 0 then subjNext cfg.conn g v s else s.drop (.next v)

/-- the reset / latch decision of the proxy's error and completion callbacks -/
def pDecide (fl : Flags) (g : Nat) (t : Ev) (s : St) : St :=
  match t with
  | .error _ => if fl.onError then reset g s else { s with flagE := true }
  | _ => if fl.onComplete then reset g s else { s with flagC := true }

def pTerm (cfg : Cfg) (g : Nat) (t : Ev) (s : St) : St :=
  -- subscriberImpl.Error/Complete end with the proxy's own Subscription.Unsubscribe
  if (s.gens g).pStatus = 0 then
    pSubnUnsub g (subjTerm cfg.flags g t (pDecide cfg.flags g t (s.modGen g fun x => { x with pStatus := t.code })))
  else pSubnUnsub g (s.drop t)

def pEmit (cfg : Cfg) (g : Nat) (x : Ev) (s : St) : St :=
  match x with
  | .next v => pNext cfg g v s
  | t => pTerm cfg g t s

/-- the probe plays its synchronous prefix -/
def playPre (cfg : Cfg) (g : Nat) (pre : List Ev) (s : St) : St :=
  pre.foldl (fun s x => pEmit cfg g x s) s

/-- observable.go:310 `subscription.Add(teardown)` for the upstream subscription — and that
    subscription *is* the proxy (subscriber.go:117-121) -/
def upAddTeardown (g : Nat) (s : St) : St :=
  if (s.gens g).pDone then s.modGen g fun x => { x with upTorn := true }
  else s.modGen g fun x => { x with pFin := true }

/-- `source.SubscribeWithContext(ctx, proxy)`: the probe counts the subscription, plays its
    synchronous prefix, returns its teardown -/
def srcSubscribe (cfg : Cfg) (g : Nat) (s : St) : St :=
  upAddTeardown g (playPre cfg g (cfg.pre s.total) (s.modGen g fun x => { x with upSub := true }))

/-- `subscription.Add(teardown)` of observable.go:310 for downstream subscriber i -/
def addTeardown (fl : Flags) (i g : Nat) (s : St) : St :=
  if (s.subs i).done then teardownT fl i g s else s.modSub i fun d => { d with tearFin := some g }

/-- `observableImpl.SubscribeWithContext` allocates the downstream subscriber -/
def newSub (s : St) : St :=
  { s with subs := fun k => if k = s.nsubs then {} else s.subs k, nsubs := s.nsubs + 1 }

/-- `getOrCreateSubject` would create (operator_connectable.go:87) -/
def needsNew (s : St) : Bool := s.subject.isNone || s.sourceSubscription.isNone

/-- region R1 [mu]: `refCount++`, `getOrCreateSubject` (operator_connectable.go:112-119) -/
def r1 (cfg : Cfg) (s : St) : St :=
  if needsNew s then
    { s with refCount := s.refCount + 1,
             gens := (fun k => if k = s.ngens then { subj := Subj.new cfg.conn, creator := s.nsubs - 1 } else s.gens k), ngens := s.ngens + 1,
             subject := some s.ngens, sourceSubscription := some s.ngens }
  else { s with refCount := s.refCount + 1 }

/-- `X.AddUnsubscribable(proxy)` on the `sourceSubscription` object of generation `g'`
    (subscription.go:78-100: runs the finalizer at once when already done) -/
def ssAdd (g' g : Nat) (s : St) : St :=
  if (s.gens g').ssDone then pUnsubscribe g s else s.modGen g' fun x => { x with ssFins := x.ssFins ++ [g] }

/-- `currentSourceSubscription.AddUnsubscribable(source.Subscribe(proxy))`
    (operator_connectable.go:160-165): the *local* copy made under `mu` in R1 — generation `g`, never
    nil; when a terminal has already reset the generation its `sourceSubscription` is done and the
    proxy's `Unsubscribe` runs at once. Then observable.go:310 registers Share's teardown.
    (Before fix a510ca9 the shared variable was re-read here without `mu`: nil dereference when a
    terminal had reset it inside R3.) -/
def r3tail (fl : Flags) (i g : Nat) (s : St) : St := addTeardown fl i g (ssAdd g g s)

/-- region R3 for the subscriber that created the generation (operator_connectable.go:125-166) -/
def r3 (cfg : Cfg) (i g : Nat) (s : St) : St :=
  r3tail cfg.flags i g (srcSubscribe cfg g { s with flagE := false, flagC := false })

/-- `observableImpl.SubscribeWithContext` of the shared observable + the subscribe function of
    `ShareWithConfig` (operator_connectable.go:111-179): R1, R2 (subscribe to the subject), R3 -/
def subscribe (cfg : Cfg) (s : St) : St :=
  if needsNew s then
    r3 cfg s.nsubs s.ngens (subjSubscribe cfg s.ngens s.nsubs (r1 cfg (newSub s)))
  else
    addTeardown cfg.flags s.nsubs (s.subject.getD 0) (subjSubscribe cfg (s.subject.getD 0) s.nsubs (r1 cfg (newSub s)))

/-! ### events -/

inductive Event
  | sub
  | unsub (i : Nat)
  | src (x : Ev)
deriving DecidableEq, Repr, Inhabited

/-- the probe pushes to every upstream subscription whose teardown has not run -/
def push (cfg : Cfg) (x : Ev) (s : St) : St :=
  (List.range s.ngens).foldl (fun s g => if s.upLive g then pEmit cfg g x s else s) s

def step (cfg : Cfg) (s : St) : Event → St
  | .sub => subscribe cfg s
  | .unsub i => if i < s.nsubs then dUnsubscribe cfg.flags i s else s
  | .src x => push cfg x s

def run (cfg : Cfg) (evs : List Event) : St := evs.foldl (step cfg) {}

/-- the probe's counters after each event -/
def counters (cfg : Cfg) : St → List Event → List (Nat × Nat)
  | _, [] => []
  | s, e :: es => let s' := step cfg s e; (s'.live, s'.total) :: counters cfg s' es

def traces (s : St) : List (List Ev) := (List.range s.nsubs).map fun i => (s.subs i).trace

/-! ### a re-entrant source (depth one): things happen *inside* `source.Subscribe`, i.e. inside region R3
    of the subscriber that creates the generation, after the synchronous prefix and before the call
    returns. This is the one place where the harness can interleave other events into a `Subscribe`
    deterministically (the probe runs them itself), and it is where the asynchronous forms of the
    findings live. `subscribeK cfg id = subscribe cfg` (by `rfl`). -/

def srcSubscribeK (cfg : Cfg) (k : St → St) (g : Nat) (s : St) : St :=
  upAddTeardown g (k (playPre cfg g (cfg.pre s.total) (s.modGen g fun x => { x with upSub := true })))

def r3K (cfg : Cfg) (k : St → St) (i g : Nat) (s : St) : St :=
  r3tail cfg.flags i g (srcSubscribeK cfg k g { s with flagE := false, flagC := false })

def subscribeK (cfg : Cfg) (k : St → St) (s : St) : St :=
  if needsNew s then
    r3K cfg k s.nsubs s.ngens (subjSubscribe cfg s.ngens s.nsubs (r1 cfg (newSub s)))
  else
    addTeardown cfg.flags s.nsubs (s.subject.getD 0) (subjSubscribe cfg (s.subject.getD 0) s.nsubs (r1 cfg (newSub s)))

theorem subscribeK_id (cfg : Cfg) (s : St) : subscribeK cfg id s = subscribe cfg s := rfl

/-- an event with possibly nested plain events -/
inductive NEvent
  | plain (e : Event)
  /-- a new subscriber arrives; if it creates a generation, `inner` happens inside the source's
      `Subscribe` (skipped otherwise: the source is not subscribed) -/
  | subNested (inner : List Event)
deriving Repr, Inhabited

/-- inside `Subscribe` of subscriber `self` nobody holds `self`'s subscription yet: `unsub self` is void -/
def stepInner (cfg : Cfg) (self : Nat) (s : St) (e : Event) : St :=
  match e with
  | .unsub i => if i = self then s else step cfg s e
  | _ => step cfg s e

def nstep (cfg : Cfg) (s : St) : NEvent → St
  | .plain e => step cfg s e
  | .subNested inner => subscribeK cfg (fun u => inner.foldl (stepInner cfg s.nsubs) u) s

def nrun (cfg : Cfg) (evs : List NEvent) : St := evs.foldl (nstep cfg) {}

def ncounters (cfg : Cfg) : St → List NEvent → List (Nat × Nat)
  | _, [] => []
  | s, e :: es => let s' := nstep cfg s e; (s'.live, s'.total) :: ncounters cfg s' es

/-- runs of plain events are the runs the theorems are about -/
theorem nrun_plain (cfg : Cfg) (evs : List Event) : nrun cfg (evs.map NEvent.plain) = run cfg evs := by
  unfold nrun run
  generalize ({} : St) = s
  induction evs generalizing s with
  | nil => rfl
  | cons e es ih => exact ih (step cfg s e)

/-- downstream subscribers whose `subscriberImpl` is still open -/
def openSubs (s : St) : List Nat := (List.range s.nsubs).filter fun i => (s.subs i).status = 0

end Ro.Share

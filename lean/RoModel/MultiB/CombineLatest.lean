/-
  RoModel.MultiB.CombineLatest — CombineLatestWith1…4 / CombineLatest2…5
  (operator_combining.go:244-750) and CombineLatestAll / CombineLatestAny (757-871).
-/
import RoModel.MultiB.Zip
namespace Ro.MultiB
variable {α : Type}

/-- `valueA, valueB, …` (atomic pointers, nil until the first value) and the `status` counter:
    number of completed sources; `n` = done (also stored by the teardown), `n+1` = error
    (operator_combining.go:247-254). `CombineLatestAll` counts downwards from `n` instead
    (`n - status` here; 0 = done, -1 = error; 766-773): the same counter. -/
structure CLSt (α : Type) where
  latest : Nat → Option α := fun _ => none
  status : Nat := 0

def clStep (n : Nat) (s : CLSt α) (i : Nat) : Ev α → Eff (CLSt α) α (List α)
  | .next v =>
    -- 284-287 / 815-818: store, then onUpdate (256-270 / 775-790): only while status < n, and only
    -- when every source has a value
    let s' : CLSt α := { s with latest := upd s.latest i (some v) }
    { st := s',
      emits := if s'.status < n && (List.range n).all (fun j => (s'.latest j).isSome)
               then [.next ((List.range n).filterMap s'.latest)] else [] }
  | .error e =>
    -- 288-291: status = error; destination.Error
    { st := { s with status := n + 1 }, emits := [.error e] }
  | .complete =>
    -- 292-295: status++; onCompleted (272-276): complete when status == n
    { st := { s with status := s.status + 1 }, emits := if s.status + 1 = n then [.complete] else [] }

/-- `CombineLatestWith{n-1}`: subscribes the `n` sources in order (278-318); teardown = status done
    + `subscriptions.Unsubscribe()` (320-323). -/
def combineLatestM (n : Nat) : Machine (CLSt α) α (List α) where
  n := n
  start := { st := {}, subscribe := List.range n }
  step := clStep n

/-- `CombineLatestAll` over a synchronous outer source of `n` inner sources (833-855): the inner
    sources are collected and subscribed when the outer completes (none: complete at once, 848-851);
    an outer error is forwarded and nothing is subscribed. -/
def combineLatestAllM (n : Nat) (outer : OuterEnd) : Machine (CLSt α) α (List α) where
  n := n
  start := match outer with
    | .never => { st := {} }
    | .error e => { st := { status := n + 1 }, emits := [.error e] }
    | .complete => if n = 0 then { st := {}, emits := [.complete] } else { st := {}, subscribe := List.range n }
  step := clStep n

end Ro.MultiB

/-
  RoModel.MultiB.BufferWhen — BufferWhen (operator_transformations.go:396-462).
  Source 0 = the buffered source, source 1 = the boundary.
-/
import RoModel.MultiB.Core
namespace Ro.MultiB
variable {α : Type}

/-- `flush` (401-411): swap the buffer under the spinlock, emit the old one — even when empty -/
def bufferWhenStep (buffer : List α) : Nat → Ev α → Eff (List α) α (List α)
  | 0, .next v => { st := buffer ++ [v] }                                   -- 420-426
  | 0, .error e => { st := buffer, emits := [.error e] }                    -- 427: no flush
  | 0, .complete => { st := [], emits := [.next buffer, .complete] }        -- 428-431
  | _, .next _ => { st := [], emits := [.next buffer] }                     -- 440-442
  | _, .error e => { st := buffer, emits := [.error e] }                    -- 443
  | _, .complete => { st := [], emits := [.next buffer, .complete] }        -- 444-447

def bufferWhenM : Machine (List α) α (List α) where
  n := 2
  start := { st := [], subscribe := [0, 1] }   -- 415-450: source first, then boundary
  step := bufferWhenStep

end Ro.MultiB

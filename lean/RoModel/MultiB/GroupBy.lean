/-
  RoModel.MultiB.GroupBy — GroupBy / GroupByI / GroupByWithContext / GroupByIWithContext
  (operator_transformations.go:311-389). One source; groups are unicast subjects, the downstream
  value is the group's index (creation order). A recorder subscribes to every group `delay` notifications
  after it was emitted (`delay = 0`: inside the `destination.Next` call), at the latest at the end
  of the run.
-/
import RoModel.MultiB.Subj
namespace Ro.MultiB
variable {α κ : Type}

structure GroupSt (α κ : Type) where
  /-- every group created, in creation order, with its key -/
  groups : List (κ × Subj α) := []
  /-- the `groups` sync.Map still holds them (it is reset by the teardown, 381-386) -/
  mapped : Bool := true
  /-- `i` (339) -/
  idx : Nat := 0
  /-- recorders not yet subscribed: (group index, ticks left) -/
  pending : List (Nat × Nat) := []

def modAt {γ : Type} (l : List γ) (k : Nat) (f : γ → γ) : List γ :=
  match l[k]? with
  | some x => l.set k (f x)
  | none => l

def findKey [DecidableEq κ] (gs : List (κ × Subj α)) (k : κ) : Option Nat :=
  gs.findIdx? (fun p => p.1 == k)

/-- the teardown (381-386), which runs inside `destination.Error/Complete` because the downstream
    closes there: every group is completed (`notifyAll(Complete)`), the map is reset; so the
    `notifyAll` that follows in the error / complete callback (366-377) ranges over an empty map. -/
def groupCloseAll (gs : List (κ × Subj α)) : List (κ × Subj α) × List (Ev α) :=
  (gs.map (fun p => (p.1, p.2.complete.1)), gs.flatMap (fun p => p.2.complete.2))

def groupByStep [DecidableEq κ] (key : α → Nat → κ) (delay : Nat) (s : GroupSt α κ) (_i : Nat) : Ev α → Eff (GroupSt α κ) α Nat
  | .next v =>
    let k := key v s.idx                                           -- 354-355
    match (if s.mapped then findKey s.groups k else none) with
    | some g =>                                                    -- 357-359: feed the group
      match s.groups[g]? with
      | some p => { st := { s with idx := s.idx + 1, groups := s.groups.set g (p.1, (p.2.next v).1) }, sdrops := (p.2.next v).2 }
      | none => { st := { s with idx := s.idx + 1 } }
    | none =>                                                      -- 360-365: new subject, feed it, emit it
      let subj := (({} : Subj α).next v).1
      let id := s.groups.length
      if delay = 0 then
        { st := { s with idx := s.idx + 1, groups := s.groups ++ [(k, subj.subscribe)] }, emits := [.next id] }
      else
        { st := { s with idx := s.idx + 1, groups := s.groups ++ [(k, subj)], pending := s.pending ++ [(id, delay)] }, emits := [.next id] }
  | .error e =>                                                    -- 366-371
    let r := groupCloseAll s.groups
    { st := { s with groups := r.1, mapped := false }, emits := [.error e], sdrops := r.2 }
  | .complete =>                                                   -- 372-377
    let r := groupCloseAll s.groups
    { st := { s with groups := r.1, mapped := false }, emits := [.complete], sdrops := r.2 }

/-- after every notification the source has issued: recorders whose delay has elapsed subscribe -/
def groupTick (s : GroupSt α κ) : GroupSt α κ :=
  let p := s.pending.map (fun x => (x.1, x.2 - 1))
  let due := (p.filter (fun x => x.2 == 0)).map (·.1)
  { s with pending := p.filter (fun x => x.2 != 0),
           groups := due.foldl (fun gs g => modAt gs g (fun q => (q.1, q.2.subscribe))) s.groups }

/-- end of the run: every recorder still pending subscribes -/
def groupFinish (s : GroupSt α κ) : GroupSt α κ :=
  { s with pending := [],
           groups := (s.pending.map (·.1)).foldl (fun gs g => modAt gs g (fun q => (q.1, q.2.subscribe))) s.groups }

def groupByM [DecidableEq κ] (key : α → Nat → κ) (delay : Nat) : Machine (GroupSt α κ) α Nat where
  n := 1
  start := { st := {}, subscribe := [0] }
  step := groupByStep key delay
  tick := groupTick
  finish := groupFinish
  -- 381-386: sub.Unsubscribe(); notifyAll(Complete); reset the map
  teardown := fun s => ({ s with groups := (groupCloseAll s.groups).1, mapped := false }, (groupCloseAll s.groups).2)

end Ro.MultiB

/-
  RoModel.MultiB.Core — multi-source operators, logical semantics (C05, second half).

  An operator with several sources is a set of callbacks over shared locals; the callbacks of
  source `i` run when source `i` notifies. In the *logical* semantics every notification is
  processed to quiescence before the next one is issued, so a run is determined by the
  per-source scripts and an interleaving `order : List Nat` (which source notifies next).

  `run m scripts order` threads the interleaving through
      per-source upstream gates  →  machine  →  downstream gate
  exactly as the Go code wires hot sources (sources that notify after `Subscribe` returned):

   * source `i` is `idle` until the operator subscribes to it, then `live`, then `done` — after
     its own terminal (`subscriberImpl.ErrorWithContext/CompleteWithContext`, subscriber.go:207-241)
     or after somebody unsubscribed it (`subscriberImpl.Unsubscribe`, subscriber.go:259-263);
     a `done` source's teardown has run ("released");
   * a notification of an `idle` source is missed (nobody listens to a hot source that is not
     subscribed), one of a `done` source is refused by its subscriber and goes to
     `OnDroppedNotification`; one of a `live` source runs the machine's callback;
   * the machine's emissions pass the downstream gate (closed by the first terminal);
   * when the downstream closes, the operator's teardown runs (the subscription of the
     downstream subscriber holds it, observable.go:303-321): every `combining` operator's teardown
     calls the shared `subscriptions.Unsubscribe()`, which releases every live source; some
     callbacks call it themselves (`unsubAll`). Once that shared subscription is done, a source
     subscribed later is unsubscribed at once (`subscriptionImpl.Add`, subscription.go:78-91).

  Contexts are not modelled here (C09 is about them); values and errors are.
  Core Lean only: linked into the `driver` executable.
-/
import RoModel.Basic
namespace Ro.MultiB

/-- a notification without its context -/
inductive Ev (α : Type) where
  | next (v : α)
  | error (e : Err)
  | complete
deriving DecidableEq, Repr

namespace Ev
variable {α β : Type}
def isTerminal : Ev α → Bool
  | .next _ => false
  | _ => true
def val? : Ev α → Option α
  | .next v => some v
  | _ => none
def isComplete : Ev α → Bool
  | .complete => true
  | _ => false
def map (f : α → β) : Ev α → Ev β
  | .next v => .next (f v)
  | .error e => .error e
  | .complete => .complete
@[simp] theorem isTerminal_next (v : α) : (Ev.next v).isTerminal = false := rfl
@[simp] theorem isTerminal_error (e : Err) : (Ev.error e : Ev α).isTerminal = true := rfl
@[simp] theorem isTerminal_complete : (Ev.complete : Ev α).isTerminal = true := rfl
end Ev

/-- values, then at most one terminal, then nothing -/
def Grammar {α : Type} : List (Ev α) → Prop
  | [] => True
  | x :: xs => if x.isTerminal then xs = [] else Grammar xs

/-- what a subscriber lets through: everything up to and including the first terminal -/
def gateEv {α : Type} : List (Ev α) → List (Ev α)
  | [] => []
  | x :: xs => if x.isTerminal then [x] else x :: gateEv xs

inductive SrcStatus
  | idle   -- not subscribed (yet)
  | live   -- subscribed, its subscriber accepts notifications
  | done   -- its own terminal was delivered, or it was unsubscribed: teardown has run
deriving DecidableEq, Repr

/-- pointwise update of per-source state -/
def upd {γ : Type} (f : Nat → γ) (i : Nat) (v : γ) : Nat → γ := fun j => if j = i then v else f j

@[simp] theorem upd_same {γ : Type} (f : Nat → γ) (i : Nat) (v : γ) : upd f i v i = v := by simp [upd]
theorem upd_other {γ : Type} (f : Nat → γ) (i j : Nat) (v : γ) (h : j ≠ i) : upd f i v j = f j := by simp [upd, h]

/-- what one callback (or the subscribe function) does, besides changing the locals -/
structure Eff (σ α β : Type) where
  st : σ
  /-- `destination.Next/Error/Complete` calls, in order -/
  emits : List (Ev β) := []
  /-- the callback calls the shared `subscriptions.Unsubscribe()` -/
  unsubAll : Bool := false
  /-- sources subscribed by the callback, in order (after everything else it does) -/
  subscribe : List Nat := []
  /-- notifications refused by an inner unicast subject (`OnDroppedNotification`) -/
  sdrops : List (Ev α) := []

structure Machine (σ α β : Type) where
  /-- number of sources -/
  n : Nat
  /-- the subscribe function: initial locals, its own emissions, the sources it subscribes -/
  start : Eff σ α β
  /-- the callback of source `i` -/
  step : σ → Nat → Ev α → Eff σ α β
  /-- the operator's teardown is registered while notifications arrive and unsubscribes every
      source (true for every operator here except ConcatAll with its synchronous outer source,
      whose callbacks call `subscriptions.Unsubscribe()` themselves) -/
  hotTeardown : Bool := true
  /-- consumer side (recorders of inner observables): actions due after every notification a
      source has issued … -/
  tick : σ → σ := id
  /-- … and at the end of the run -/
  finish : σ → σ := id
  /-- what the operator's teardown does besides unsubscribing the sources, when it runs because the
      downstream unsubscribed from outside (GroupBy completes its groups); notifications refused by
      inner subjects on that occasion -/
  teardown : σ → σ × List (Ev α) := fun s => (s, [])

inductive Dropped (α β : Type)
  | up (i : Nat) (x : Ev α)   -- refused by the closed subscriber of source `i`
  | down (x : Ev β)           -- refused by the closed downstream subscriber
  | subj (x : Ev α)           -- refused by an inner unicast subject
deriving Repr

structure St (σ α β : Type) where
  m : σ
  rest : Nat → List (Ev α)
  status : Nat → SrcStatus := fun _ => .idle
  subs : Nat → Nat := fun _ => 0
  /-- the shared `subscriptions` object is done -/
  subsDone : Bool := false
  downOpen : Bool := true
  out : List (Ev β) := []
  drops : List (Dropped α β) := []

variable {σ α β : Type}

/-- hand one emission to the downstream subscriber -/
def St.push (s : St σ α β) (x : Ev β) : St σ α β :=
  if s.downOpen then { s with out := s.out ++ [x], downOpen := !x.isTerminal }
  else { s with drops := s.drops ++ [.down x] }

/-- the shared `subscriptions.Unsubscribe()`: every live source is released -/
def St.releaseAll (s : St σ α β) : St σ α β :=
  { s with status := fun j => if s.status j = .live then .done else s.status j, subsDone := true }

/-- `subscriptions.AddUnsubscribable(src.SubscribeWithContext(…))` for a hot source -/
def St.subscribeOne (s : St σ α β) (k : Nat) : St σ α β :=
  if s.status k = .idle then
    { s with subs := upd s.subs k (s.subs k + 1), status := upd s.status k (if s.subsDone then .done else .live) }
  else s

def St.apply (hot : Bool) (s : St σ α β) (e : Eff σ α β) : St σ α β :=
  let s1 := e.emits.foldl St.push { s with m := e.st, drops := s.drops ++ e.sdrops.map .subj }
  let s2 := if e.unsubAll || (hot && !s1.downOpen) then s1.releaseAll else s1
  e.subscribe.foldl St.subscribeOne s2

/-- source `i` issues its next notification (if it has one); afterwards the consumer's clock ticks -/
def St.issue (m : Machine σ α β) (s : St σ α β) (i : Nat) : St σ α β :=
  match s.rest i with
  | [] => s
  | x :: r =>
    -- a source says nothing after its own terminal
    let s0 := { s with rest := upd s.rest i (if x.isTerminal then [] else r) }
    let s' : St σ α β := match s.status i with
      | .idle => s0
      | .done => { s0 with drops := s0.drops ++ [Dropped.up i x] }
      | .live =>
        let s1 := if x.isTerminal then { s0 with status := upd s0.status i .done } else s0
        s1.apply m.hotTeardown (m.step s.m i x)
    { s' with m := m.tick s'.m }

def St.feed (m : Machine σ α β) (s : St σ α β) (i : Nat) : St σ α β := s.issue m i

def scriptsFn (scripts : List (List (Ev α))) : Nat → List (Ev α) := fun i => scripts.getD i []

def Machine.init (m : Machine σ α β) (rest : Nat → List (Ev α)) : St σ α β :=
  ({ m := m.start.st, rest := rest } : St σ α β).apply m.hotTeardown m.start

/-- run before the consumer's final actions -/
def runCore (m : Machine σ α β) (rest : Nat → List (Ev α)) (order : List Nat) : St σ α β :=
  order.foldl (St.feed m) (m.init rest)

/-- Run the operator on hot sources with the given scripts; `order` says which source notifies
    next; every notification is processed to quiescence. -/
def run (m : Machine σ α β) (scripts : List (List (Ev α))) (order : List Nat) : St σ α β :=
  let s := runCore m (scriptsFn scripts) order
  { s with m := m.finish s.m }

/-- `Unsubscribe()` called from outside on the subscription `Subscribe` returned: the downstream
    subscriber closes (subscriber.go:259-263) and the operator's teardown runs -/
def St.cut (m : Machine σ α β) (s : St σ α β) : St σ α β :=
  if s.downOpen then
    let s1 : St σ α β := { s with downOpen := false, m := (m.teardown s.m).1, drops := s.drops ++ (m.teardown s.m).2.map .subj }
    if m.hotTeardown then s1.releaseAll else s1
  else s

/-- as `run`, with an external `Unsubscribe()` after the first `k` entries of the interleaving
    (used by the correspondence only: it ties what the teardown releases) -/
def runCut (m : Machine σ α β) (scripts : List (List (Ev α))) (order : List Nat) (k : Nat) : St σ α β :=
  let s := (order.take k).foldl (St.feed m) (m.init (scriptsFn scripts))
  let s' := (order.drop k).foldl (St.feed m) (s.cut m)
  { s' with m := m.finish s'.m }

/-- The notifications the sources issue, in arrival order, tagged by source (a source says nothing
    after its own terminal). This is the input of every specification. -/
def arrivals (rest : Nat → List (Ev α)) : List Nat → List (Nat × Ev α)
  | [] => []
  | i :: os =>
    match rest i with
    | [] => arrivals rest os
    | x :: r => (i, x) :: arrivals (upd rest i (if x.isTerminal then [] else r)) os

def St.released (s : St σ α β) (i : Nat) : Bool := s.status i == .done
def St.live (s : St σ α β) (i : Nat) : Bool := s.status i == .live

end Ro.MultiB

/-
  RoModel.MultiB.Subj — the unicast subject (subject_unicast.go) as used for windows and groups,
  together with the one recorder that is (eventually) subscribed to it.
-/
import RoModel.MultiB.Core
namespace Ro.MultiB
variable {α : Type}

inductive SubjStatus
  | active
  | errored (e : Err)
  | completed
deriving DecidableEq, Repr

structure Subj (α : Type) where
  status : SubjStatus := .active
  /-- `s.observer != nil` -/
  attached : Bool := false
  /-- `s.values`: queued until the single observer subscribes (unlimited buffer) -/
  queue : List α := []
  /-- what the recorder has received -/
  rcv : List (Ev α) := []

/-- `ErrUnicastSubjectConcurrent` (sentinel 6 of the harness) -/
def errUnicastConcurrent : Err := .sentinel 6

/-- NextWithContext (108-127) -/
def Subj.next (s : Subj α) (v : α) : Subj α × List (Ev α) :=
  match s.status with
  | .active => if s.attached then ({ s with rcv := s.rcv ++ [.next v] }, []) else ({ s with queue := s.queue ++ [v] }, [])
  | _ => (s, [.next v])

/-- ErrorWithContext (135-155) -/
def Subj.error (s : Subj α) (e : Err) : Subj α × List (Ev α) :=
  match s.status with
  | .active =>
    if s.attached then ({ s with status := .errored e, attached := false, rcv := s.rcv ++ [.error e] }, [])
    else ({ s with status := .errored e }, [.error e])
  | _ => (s, [.error e])

/-- CompleteWithContext (163-182) -/
def Subj.complete (s : Subj α) : Subj α × List (Ev α) :=
  match s.status with
  | .active =>
    if s.attached then ({ s with status := .completed, attached := false, rcv := s.rcv ++ [.complete] }, [])
    else ({ s with status := .completed }, [.complete])
  | _ => (s, [.complete])

/-- SubscribeWithContext (60-100) by the recorder: an errored / completed subject only hands out its
    terminal (the queued values are *not* replayed — the late-subscriber deviation); otherwise the
    queue is replayed and the recorder attached. -/
def Subj.subscribe (s : Subj α) : Subj α :=
  match s.status with
  | .errored e => { s with rcv := s.rcv ++ [.error e] }
  | .completed => { s with rcv := s.rcv ++ [.complete] }
  | .active =>
    if s.attached then { s with rcv := s.rcv ++ [.error errUnicastConcurrent] }
    else { s with rcv := s.rcv ++ s.queue.map .next, queue := [], attached := true }

/-- the downstream trace with every inner observable replaced by what its recorder received -/
def viewOut (subjects : List (Subj α)) (out : List (Ev Nat)) : List (Ev (List (Ev α))) :=
  out.map (Ev.map (fun k => ((subjects[k]?).map (·.rcv)).getD []))

end Ro.MultiB

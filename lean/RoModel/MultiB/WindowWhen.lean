/-
  RoModel.MultiB.WindowWhen — WindowWhen (operator_transformations.go:617-698).
  Source 0 = the windowed source, source 1 = the boundary. Windows are unicast subjects; the
  downstream value is the window's index; a recorder subscribes to every window at the moment it
  is emitted.
-/
import RoModel.MultiB.Subj
namespace Ro.MultiB
variable {α : Type}

/-- all windows created so far (the last one is `window`, the current one) -/
structure WinSt (α : Type) where
  wins : List (Subj α) := []

def WinSt.modLast (s : WinSt α) (f : Subj α → Subj α × List (Ev α)) : WinSt α × List (Ev α) :=
  match s.wins.getLast? with
  | none => (s, [])
  | some w => ({ wins := s.wins.dropLast ++ [(f w).1] }, (f w).2)

/-- `flush(ctx, skipNew)` (623-644): complete the current window (if any); unless `skipNew`, make
    a new unicast subject the current window and emit it — the recorder subscribes inside that
    `destination.Next` call (window emitted ⇒ downstream open, so it is always delivered). -/
def winFlush (s : WinSt α) (skipNew : Bool) : WinSt α × List (Ev Nat) × List (Ev α) :=
  let r := s.modLast Subj.complete
  if skipNew then (r.1, [], r.2)
  else ({ wins := r.1.wins ++ [({} : Subj α).subscribe] }, [.next r.1.wins.length], r.2)

def windowWhenStep (s : WinSt α) : Nat → Ev α → Eff (WinSt α) α Nat
  | 0, .next v =>                                          -- 654-662: feed the current window
    let r := s.modLast (fun w => w.next v)
    { st := r.1, sdrops := r.2 }
  | _, .next _ =>                                          -- 676-678: flush(ctx, false)
    let r := winFlush s false
    { st := r.1, emits := r.2.1, sdrops := r.2.2 }
  | _, .error e =>                                         -- 663-666 / 679-682: flush(ctx, true); Error
    let r := winFlush s true
    { st := r.1, emits := [.error e], sdrops := r.2.2 }
  | _, .complete =>                                        -- 667-670 / 683-686: flush(ctx, true); Complete
    let r := winFlush s true
    { st := r.1, emits := [.complete], sdrops := r.2.2 }

def windowWhenM : Machine (WinSt α) α Nat where
  n := 2
  start :=                                                 -- 646: first window, then 648-690 subscribe
    let r := winFlush ({} : WinSt α) false
    { st := r.1, emits := r.2.1, subscribe := [0, 1] }
  step := windowWhenStep

end Ro.MultiB

/-
  RoModel.MultiB.Zip — ZipWith1…5 / Zip2…6 (operator_combining.go:1104-1582) and ZipAll / Zip
  (operator_combining.go:1584-1690), read line by line; one machine for every arity.
  (Line numbers: /repo after the fix commits b6f7afa and 655488e.)
-/
import RoModel.MultiB.Core
namespace Ro.MultiB
variable {α : Type}

/-- the locals of one subscription: `valueA, valueB, …` (queues) and `completedA, …`, all guarded by
    `mu` (operator_combining.go:1162-1168) -/
structure ZipSt (α : Type) where
  q : Nat → List α := fun _ => []
  completed : Nat → Bool := fun _ => false

/-- `onUpdate` (operator_combining.go:1177-1205, 1590-1634): under the mutex, when every queue is
    non-empty pop one value of each; emit the tuple after unlocking; lock again to see whether some
    completed source's queue is now empty, unlock, and then complete the destination. -/
def zipOnUpdate (n : Nat) (s : ZipSt α) : ZipSt α × List (Ev (List α)) :=
  if (List.range n).all (fun j => !(s.q j).isEmpty) then
    let row := (List.range n).filterMap (fun j => (s.q j).head?)
    let s' : ZipSt α := { s with q := fun j => (s.q j).tail }
    (s', .next row :: (if (List.range n).any (fun j => s'.completed j && (s'.q j).isEmpty) then [.complete] else []))
  else (s, [])

/-- the three callbacks of `zipInnerSubscription` (operator_combining.go:1104-1149) -/
def zipStep (n : Nat) (s : ZipSt α) (i : Nat) : Ev α → Eff (ZipSt α) α (List α)
  | .next v =>
    -- 1109-1117: append under the mutex, then onUpdate
    let r := zipOnUpdate n { s with q := upd s.q i (s.q i ++ [v]) }
    { st := r.1, emits := r.2 }
  | .error e =>
    -- 1118-1127: the source is *not* marked completed; destination.Error; subscriptions.Unsubscribe()
    { st := s, emits := [.error e], unsubAll := true }
  | .complete =>
    -- 1128-1145: completed = true; when the own queue is empty: complete the destination and
    -- `subscriptions.Unsubscribe()`; otherwise nothing — the queued values are still owed, the
    -- destination is completed by onUpdate once they have been zipped
    if (s.q i).isEmpty then
      { st := { s with completed := upd s.completed i true }, emits := [.complete], unsubAll := true }
    else
      { st := { s with completed := upd s.completed i true } }

/-- `ZipWith{n-1}` / `Zip{n}`: the subscribe function subscribes the `n` sources in order
    (1207-1209); the teardown unsubscribes them and clears the locals (1211-1223; no callback can
    run afterwards, so clearing is not observable). -/
def zipM (n : Nat) : Machine (ZipSt α) α (List α) where
  n := n
  start := { st := {}, subscribe := List.range n }
  step := zipStep n

/-- how a synchronous outer source of `n` inner sources ends -/
inductive OuterEnd
  | never
  | error (e : Err)
  | complete
deriving DecidableEq, Repr

/-- `ZipAll` (1650-1690) over an outer source that emits its `n` inner sources and ends inside
    `Subscribe`: `ToSlice` hands the slice over at the outer completion, `zipAllInnerSubscriptions`
    subscribes the inner sources; the outer observer's complete callback completes the destination
    only when there is no inner source (1673-1679) — otherwise the zipped inner sources do.
    Outer error: forwarded, nothing subscribed. -/
def zipAllM (n : Nat) (outer : OuterEnd) : Machine (ZipSt α) α (List α) where
  n := n
  start := match outer with
    | .never => { st := {} }
    | .error e => { st := {}, emits := [.error e] }
    | .complete => if n = 0 then { st := {}, emits := [.complete] } else { st := {}, subscribe := List.range n }
  step := zipStep n

end Ro.MultiB

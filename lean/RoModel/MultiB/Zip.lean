/-
  RoModel.MultiB.Zip — ZipWith1…5 / Zip2…6 (operator_combining.go:1101-1539) and ZipAll / Zip
  (operator_combining.go:1541-1638), read line by line; one machine for every arity.
-/
import RoModel.MultiB.Core
namespace Ro.MultiB
variable {α : Type}

/-- the locals of one subscription: `valueA, valueB, …` (queues) and `completedA, …`, all guarded by
    `mu` (operator_combining.go:1162-1168) -/
structure ZipSt (α : Type) where
  q : Nat → List α := fun _ => []
  completed : Nat → Bool := fun _ => false

/-- `onUpdate` (operator_combining.go:1170-1192, 1547-1581): under the mutex, when every queue is
    non-empty pop one value of each; emit the tuple after unlocking; lock again and complete the
    destination when some completed source's queue is now empty. -/
def zipOnUpdate (n : Nat) (s : ZipSt α) : ZipSt α × List (Ev (List α)) :=
  if (List.range n).all (fun j => !(s.q j).isEmpty) then
    let row := (List.range n).filterMap (fun j => (s.q j).head?)
    let s' : ZipSt α := { s with q := fun j => (s.q j).tail }
    (s', .next row :: (if (List.range n).any (fun j => s'.completed j && (s'.q j).isEmpty) then [.complete] else []))
  else (s, [])

/-- the three callbacks of `zipInnerSubscription` (operator_combining.go:1101-1142) -/
def zipStep (n : Nat) (s : ZipSt α) (i : Nat) : Ev α → Eff (ZipSt α) α (List α)
  | .next v =>
    -- 1106-1114: append under the mutex, then onUpdate
    let r := zipOnUpdate n { s with q := upd s.q i (s.q i ++ [v]) }
    { st := r.1, emits := r.2 }
  | .error e =>
    -- 1115-1124: completed = true; destination.Error; subscriptions.Unsubscribe()
    { st := { s with completed := upd s.completed i true }, emits := [.error e], unsubAll := true }
  | .complete =>
    -- 1125-1138: completed = true; complete the destination only when the own queue is empty;
    -- then `subscriptions.Unsubscribe()` — unconditionally (the deviation: it is the *shared*
    -- subscription, so the other sources are cancelled although tuples are still owed)
    { st := { s with completed := upd s.completed i true },
      emits := if (s.q i).isEmpty then [.complete] else [],
      unsubAll := true }

/-- `ZipWith{n-1}` / `Zip{n}`: the subscribe function subscribes the `n` sources in order
    (1194-1196); the teardown unsubscribes them and clears the locals (1198-1210; no callback can
    run afterwards, so clearing is not observable). -/
def zipM (n : Nat) : Machine (ZipSt α) α (List α) where
  n := n
  start := { st := {}, subscribe := List.range n }
  step := zipStep n

/-- how a synchronous outer source of `n` inner sources ends -/
inductive OuterEnd
  | never
  | error (e : Err)
  | complete
deriving DecidableEq, Repr

/-- `ZipAll` (1607-1638) over an outer source that emits its `n` inner sources and ends inside
    `Subscribe`: `ToSlice` hands the slice over at the outer completion, `zipAllInnerSubscriptions`
    subscribes the inner sources, and then the outer observer's complete callback completes the
    destination at once (1626-1628) — the deviation: with inner sources that have not finished
    inside their own `Subscribe`, nothing but `Complete` is ever delivered; the teardown
    (1632-1635) then unsubscribes every inner source. Outer error: forwarded, nothing subscribed. -/
def zipAllM (n : Nat) (outer : OuterEnd) : Machine (ZipSt α) α (List α) where
  n := n
  start := match outer with
    | .never => { st := {} }
    | .error e => { st := {}, emits := [.error e] }
    | .complete => { st := {}, subscribe := List.range n, emits := [.complete] }
  step := zipStep n

end Ro.MultiB

/-
  RoModel.MultiB.Micro — true-concurrency (micro-step) semantics for the operators that take state
  under a lock / with atomics and call the destination after releasing it: Zip*, CombineLatest*,
  BufferWhen, WindowWhen (C05, last sentence; DESIGN.md "T (true concurrency)").

  Threads = sources (a source never overlaps its own callbacks). A callback is a sequence of
  *atomic steps*: one critical section of the operator's mutex / spinlock, one atomic load / store /
  add, one call of the destination (the destination is a safe subscriber: its lock serialises the
  calls, so each call is atomic with respect to the others), or one call of an inner unicast subject
  (which works under its own mutex). A schedule is a list of thread ids; entry `t` lets thread `t`
  perform its next atomic step (starting its next notification when it is between callbacks).
  A callback that has started runs to its end even if the downstream has closed meanwhile — its
  later destination calls are refused — exactly as a goroutine already inside the operator would.
-/
import RoModel.MultiB.Zip
import RoModel.MultiB.CombineLatest
import RoModel.MultiB.BufferWhen
import RoModel.MultiB.WindowWhen
import RoModel.Spec.MultiB
namespace Ro.MultiB.Micro
open Ro.MultiB

structure StepRes (σ β : Type) where
  st : σ
  emits : List (Ev β) := []
  unsubAll : Bool := false
  /-- the step calls the destination while holding the operator's mutex: if that call closes the
      downstream, the teardown runs inside it and takes the same (non-reentrant) mutex — the
      goroutine blocks forever, and so does every other goroutine at its next critical section -/
  underLock : Bool := false

/-- the rest of a callback -/
inductive Prog (σ β : Type) where
  | done
  | step (f : σ → StepRes σ β × Prog σ β)

structure Thread (σ α β : Type) where
  rest : List (Ev α)
  cont : Option (σ → StepRes σ β × Prog σ β) := none
  /-- its subscriber still accepts notifications -/
  gate : Bool := true
  /-- the notification being processed is the source's own terminal -/
  closing : Bool := false

structure MMachine (σ α β : Type) where
  init : σ
  startEmits : List (Ev β) := []
  prog : Nat → Ev α → Prog σ β

structure MSt (σ α β : Type) where
  shared : σ
  threads : List (Thread σ α β)
  downOpen : Bool := true
  out : List (Ev β) := []
  /-- a goroutine is blocked forever on the operator's own mutex -/
  dead : Bool := false

variable {σ α β : Type}

def pushOut (s : MSt σ α β) (x : Ev β) : MSt σ α β :=
  if s.downOpen then { s with out := s.out ++ [x], downOpen := !x.isTerminal } else s

/-- the effects of one atomic step of thread `t`, whose callback then continues with `next` -/
def applyStep (s : MSt σ α β) (t : Nat) (th : Thread σ α β) (r : StepRes σ β) (next : Prog σ β) : MSt σ α β :=
  let s0 := r.emits.foldl pushOut { s with shared := r.st }
  let s1 := if r.underLock && s.downOpen && !s0.downOpen then { s0 with dead := true } else s0
  let th' : Thread σ α β :=
    match next with
    | .done => { th with cont := none, gate := th.gate && !th.closing, closing := false }
    | .step f => { th with cont := some f }
  let ths := s1.threads.set t th'
  -- the downstream closed (teardown) or the callback unsubscribed everything: all gates close
  if r.unsubAll || !s1.downOpen then { s1 with threads := ths.map (fun x => { x with gate := false }) }
  else { s1 with threads := ths }

/-- thread `t` performs its next atomic step; `none` when it has nothing to do -/
def mstep (m : MMachine σ α β) (s : MSt σ α β) (t : Nat) : Option (MSt σ α β) :=
  if s.dead then none else
  match s.threads[t]? with
  | none => none
  | some th =>
    match th.cont with
    | some f => some (applyStep s t th (f s.shared).1 (f s.shared).2)
    | none =>
      match th.rest with
      | [] => none
      | x :: r =>
        let th0 : Thread σ α β := { th with rest := if x.isTerminal then [] else r }
        if th.gate then
          match m.prog t x with
          | .done => some { s with threads := s.threads.set t { th0 with gate := th0.gate && !x.isTerminal } }
          | .step f => some (applyStep s t { th0 with closing := x.isTerminal } (f s.shared).1 (f s.shared).2)
        else some { s with threads := s.threads.set t th0 }   -- refused by its closed subscriber

def MMachine.start (m : MMachine σ α β) (scripts : List (List (Ev α))) : MSt σ α β :=
  m.startEmits.foldl pushOut { shared := m.init, threads := scripts.map (fun sc => { rest := sc }) }

/-- run a schedule (entries of threads that cannot move are skipped) -/
def runMicro (m : MMachine σ α β) (scripts : List (List (Ev α))) (schedule : List Nat) : MSt σ α β :=
  schedule.foldl (fun s t => (mstep m s t).getD s) (m.start scripts)

/-- every final state reachable by some schedule (depth-first over the enabled threads) -/
def reach (m : MMachine σ α β) : Nat → MSt σ α β → List (MSt σ α β)
  | 0, s => [s]
  | fuel + 1, s =>
    let nexts := (List.range s.threads.length).filterMap (fun t => mstep m s t)
    if nexts.isEmpty then [s] else nexts.flatMap (reach m fuel)

/-! ### Zip (operator_combining.go:1101-1213): every mutex section is one step -/

def zipProg (n : Nat) (i : Nat) : Ev α → Prog (ZipSt α) (List α)
  | .next v =>
    -- 1107-1111 append
    .step fun s => ({ st := { s with q := upd s.q i (s.q i ++ [v]) } },
    -- 1171-1179 onUpdate: pop under the mutex
    .step fun s =>
      if (List.range n).all (fun j => !(s.q j).isEmpty) then
        let row := (List.range n).filterMap (fun j => (s.q j).head?)
        ({ st := { s with q := fun j => (s.q j).tail } },
        -- 1181 destination.Next, outside the mutex
        .step fun s => ({ st := s, emits := [.next row] },
        -- 1183-1191 lock again, complete when a finished source is drained
        -- 1187: destination.Complete is called *while holding the mutex*
        .step fun s => ({ st := s, underLock := true,
                          emits := if (List.range n).any (fun j => s.completed j && (s.q j).isEmpty) then [.complete] else [] }, .done)))
      else ({ st := s }, .done))
  | .error e =>
    .step fun s => ({ st := { s with completed := upd s.completed i true } },       -- 1116-1120
    .step fun s => ({ st := s, emits := [.error e] },                                -- 1122
    .step fun s => ({ st := s, unsubAll := true }, .done)))                           -- 1123
  | .complete =>
    .step fun s =>                                                                    -- 1126-1135
      let empty := (s.q i).isEmpty
      ({ st := { s with completed := upd s.completed i true } },
      .step fun s => ({ st := s, emits := if empty then [.complete] else [] },        -- 1132
      .step fun s => ({ st := s, unsubAll := true }, .done)))                         -- 1137

def zipMM (n : Nat) : MMachine (ZipSt α) α (List α) where
  init := {}
  prog := zipProg n

/-! ### CombineLatest (244-326): every atomic operation is one step -/

/-- `onUpdate`: load the other sources' pointers one by one (258-264), then emit (266-268) -/
def clLoads (n : Nat) (i : Nat) (v : α) : List Nat → (Nat → Option α) → Prog (CLSt α) (List α)
  | [], acc =>
    if (List.range n).all (fun j => (acc j).isSome) then
      .step fun s => ({ st := s, emits := [.next ((List.range n).filterMap acc)] }, .done)
    else .done
  | j :: js, acc =>
    if j = i then clLoads n i v js (upd acc i (some v))
    else .step fun s => ({ st := s }, clLoads n i v js (upd acc j (s.latest j)))

def clProg (n : Nat) (i : Nat) : Ev α → Prog (CLSt α) (List α)
  | .next v =>
    .step fun s => ({ st := { s with latest := upd s.latest i (some v) } },          -- 285 Store
    .step fun s => ({ st := s },                                                      -- 257 load status
      if s.status < n then clLoads n i v (List.range n) (fun _ => none) else .done))
  | .error e =>
    .step fun s => ({ st := { s with status := n + 1 } },                             -- 289
    .step fun s => ({ st := s, emits := [.error e] }, .done))                         -- 290
  | .complete =>
    .step fun s => ({ st := { s with status := s.status + 1 } },                      -- 293 atomic add
    .step fun s => ({ st := s },                                                      -- 273 load
      if s.status = n then .step fun s => ({ st := s, emits := [.complete] }, .done) else .done))

def clMM (n : Nat) : MMachine (CLSt α) α (List α) where
  init := {}
  prog := clProg n

/-! ### BufferWhen (396-462): `flush` takes the buffer under the spinlock and emits after releasing it -/

def bwFlush (andComplete : Bool) : Prog (List α) (List α) :=
  .step fun buf => ({ st := [] },                                                     -- 403-408
  .step fun s => ({ st := s, emits := [.next buf] },                                  -- 410
    if andComplete then .step fun s => ({ st := s, emits := [.complete] }, .done) else .done))

def bwProg : Nat → Ev α → Prog (List α) (List α)
  | 0, .next v => .step fun buf => ({ st := buf ++ [v] }, .done)
  | _, .next _ => bwFlush false
  | _, .error e => .step fun s => ({ st := s, emits := [.error e] }, .done)
  | _, .complete => bwFlush true

def bwMM : MMachine (List α) α (List α) where
  init := []
  prog := bwProg

/-! ### WindowWhen (617-698): the source picks the current window under the spinlock and feeds it
    after releasing it; `flush` swaps the window under the lock, then completes the old one and
    emits the new one -/

structure WSt (α : Type) where
  wins : List (Subj α) := []
  cur : Nat := 0

def WSt.mod (s : WSt α) (k : Nat) (f : Subj α → Subj α) : WSt α :=
  match s.wins[k]? with
  | some w => { s with wins := s.wins.set k (f w) }
  | none => s

def wwEnd (t : Ev Nat) : Prog (WSt α) Nat :=
  .step fun s =>
    let old := s.cur                                                                  -- 627-629 tmp := window
    ({ st := s },
    .step fun s => ({ st := s.mod old (fun w => w.complete.1) },                      -- 638-640
    .step fun s => ({ st := s, emits := [t] }, .done)))                               -- destination.Error / Complete

def wwProg : Nat → Ev α → Prog (WSt α) Nat
  | 0, .next v =>
    .step fun s =>
      let tmp := s.cur                                                                -- 655-659
      ({ st := s }, .step fun s => ({ st := s.mod tmp (fun w => (w.next v).1) }, .done))   -- 661
  | _, .next _ =>
    .step fun s =>
      let old := s.cur                                                                -- 627-636
      let nw := s.wins.length
      ({ st := { wins := s.wins ++ [{}], cur := nw } },
      .step fun s => ({ st := s.mod old (fun w => w.complete.1) },                    -- 638-640
      -- 642-644: destination.Next(new window); the recorder subscribes inside it when it is delivered
      .step fun s => ({ st := s.mod nw (fun w => w.subscribe), emits := [.next nw] }, .done)))
  | _, .error e => wwEnd (.error e)
  | _, .complete => wwEnd .complete

/-- the first window is created, emitted and subscribed by the subscribe function (646) -/
def wwMM : MMachine (WSt α) α Nat where
  init := { wins := [({} : Subj α).subscribe], cur := 0 }
  startEmits := [.next 0]
  prog := wwProg

/-! ### what the specification allows: its value on some arrival order compatible with the scripts -/

/-- all interleavings of sources with the given numbers of notifications -/
def orders : List Nat → Nat → List (List Nat)
  | _, 0 => [[]]
  | left, fuel + 1 =>
    if left.all (· == 0) then [[]]
    else (List.range left.length).flatMap (fun i =>
      if left.getD i 0 = 0 then [] else (orders (left.set i (left.getD i 0 - 1)) fuel).map (i :: ·))

def allOrders (scripts : List (List (Ev α))) : List (List Nat) :=
  orders (scripts.map List.length) ((scripts.map List.length).sum)

end Ro.MultiB.Micro

/-
  RoModel.MultiB.Concat — ConcatAll / Concat / ConcatWith (operator_combining.go:879-928) and
  FlatMap* (operator_transformations.go:159-208, which is ConcatAll over the projected sources).

  The outer source is synchronous (`Just(sources…)` for Concat/ConcatWith, the source of FlatMap):
  it emits the inner sources `0 … n-1` and then ends, all inside `Subscribe`. The outer `Next`
  callback subscribes the inner source and blocks in `sub.Wait()` (898-915) until that inner
  subscription is done; so the next outer notification is issued exactly when the current inner
  source finishes.
-/
import RoModel.MultiB.Zip
namespace Ro.MultiB
variable {α : Type}

/-- `cur` = index of the inner source the outer callback is waiting on -/
structure ConcatSt where
  cur : Nat := 0

/-- the outer source's terminal (916-920) -/
def concatOuterEmits : OuterEnd → List (Ev α)
  | .never => []
  | .error e => [.error e]     -- 916-919: subscriptions.Unsubscribe(); destination.Error
  | .complete => [.complete]   -- 920: destination.CompleteWithContext

def concatOuterUnsub : OuterEnd → Bool
  | .error _ => true
  | _ => false

def concatStep (n : Nat) (outer : OuterEnd) (s : ConcatSt) (_i : Nat) : Ev α → Eff ConcatSt α α
  | .next v => { st := s, emits := [.next v] }   -- 902: destination.NextWithContext itself
  | .complete =>
    -- 907: the callback does nothing; the inner subscription is done, `Wait` returns, the outer
    -- source goes on: next inner source, or its own terminal
    if s.cur + 1 < n then { st := { cur := s.cur + 1 }, subscribe := [s.cur + 1] }
    else { st := { cur := n }, emits := concatOuterEmits outer, unsubAll := concatOuterUnsub outer }
  | .error e =>
    -- 903-906: subscriptions.Unsubscribe(); destination.Error. The outer subscription is not yet in
    -- `subscriptions` (its Subscribe has not returned), so the synchronous outer source goes on:
    -- every remaining inner source is subscribed (899) and unsubscribed at once (913: the shared
    -- subscription is done), then the outer terminal arrives at the closed destination.
    { st := { cur := n }, unsubAll := true,
      emits := .error e :: concatOuterEmits outer,
      subscribe := (List.range n).drop (s.cur + 1) }

def concatM (n : Nat) (outer : OuterEnd) : Machine ConcatSt α α where
  n := n
  hotTeardown := false   -- 925: the teardown is only registered when the blocking Subscribe returns
  start :=
    if 0 < n then { st := {}, subscribe := [0] }
    else { st := {}, emits := concatOuterEmits outer, unsubAll := concatOuterUnsub outer }
  step := concatStep n outer

end Ro.MultiB

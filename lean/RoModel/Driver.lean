/-
  RoModel.Driver — dispatch of `case` lines to the handler of their `kind=`; one handler module
  per kind under RoModel/Drivers/. To add a kind: create RoModel/Drivers/<Kind>.lean exposing
  `run : Case → String`, import it here and add one line to `handlers`.
-/
import RoModel.DriverCore
import RoModel.Drivers.Op
import RoModel.Drivers.Chain
import RoModel.Drivers.Cancel
import RoModel.Drivers.NilObs
import RoModel.Drivers.Precision
import RoModel.Drivers.SeqEq
import RoModel.Drivers.ObsShared
import RoModel.Drivers.Overlap
import RoModel.Drivers.Timed
import RoModel.Drivers.Plugin
import RoModel.Drivers.Resub
import RoModel.Drivers.Subject
import RoModel.Drivers.SubjLin
import RoModel.Drivers.Rate
import RoModel.Drivers.Chan
import RoModel.Drivers.Multi
import RoModel.Drivers.Create
import RoModel.Drivers.More
import RoModel.Drivers.Fault
import RoModel.Drivers.Prom
import RoModel.Drivers.Cut
import RoModel.Drivers.MultiB
import RoModel.Drivers.MultiBC
import RoModel.Drivers.Share
import RoModel.Drivers.Race
import RoModel.Drivers.Kernel
namespace Ro.Driver

def handlers : List (String × (Case → String)) := [
  ("op", Drivers.Op.run),
  ("kernel", Drivers.Kernel.run),
  ("chain", Drivers.Chain.runChain),
  ("reuse", Drivers.Chain.runReuse),
  ("reusemulti", Drivers.Chain.runReuseMulti),
  ("cancel", Drivers.Cancel.run),
  ("overlap", Drivers.Overlap.run),
  ("overlap2", Drivers.Overlap.run2),
  ("overlap3", Drivers.Overlap.run3),
  ("subjoverlap", Drivers.Overlap.runSubj),
  ("leak", Drivers.Cancel.runLeak),
  ("nilobs", Drivers.NilObs.run),
  ("precision", Drivers.Precision.run),
  ("seqeq", Drivers.SeqEq.run),
  ("sharedobs", Drivers.ObsShared.run),
  ("nextret", Drivers.Cancel.runNextRet),
  ("ctxpair", Drivers.Cancel.runCtxPair),
  ("lateuse", Drivers.Cancel.runLateUse),
  ("tdwait", Drivers.Cancel.runTdWait),
  ("numtype", Drivers.Precision.runNumType),
  ("timed", Drivers.Timed.run),
  ("plugin", Drivers.Plugin.run),
  ("resub", Drivers.Resub.run),
  ("subject", Drivers.Subject.run),
  ("subjx", Drivers.Subject.runX),
  ("subjlin", Drivers.SubjLin.run),
  ("rate", Drivers.Rate.run),
  ("chan", Drivers.Chan.run),
  ("chanv", Drivers.Chan.runV),
  ("multi", Drivers.Multi.run),
  ("multimicro", Drivers.Multi.runMicro),
  ("multipark", Drivers.Multi.runPark),
  ("create", Drivers.Create.run),
  ("tap", Drivers.More.runTap),
  ("pipe", Drivers.More.runPipe),
  ("fault", Drivers.Fault.run),
  ("prom", Drivers.Prom.run),
  ("cutin", Drivers.Cut.runCutIn),
  ("collect", Drivers.Cut.runCollect),
  ("teardown", Drivers.Cut.runTeardown),
  ("multib", Drivers.MultiB.run),
  ("multibc", Drivers.MultiBC.run),
  ("share", Drivers.Share.run),
  ("conn", Drivers.Share.runConn),
  ("sharec", Drivers.Share.runConc),
  ("connc", Drivers.Share.runConc),
  ("sharex", Drivers.Share.runScenario),
  ("sharet", Drivers.Share.runTerm),
  ("race", Drivers.Race.run)
]

def runCase (c : Case) : String :=
  match handlers.find? (·.1 == c.getD "kind" "op") with
  | some h => h.2 c
  | none => s!"res {c.id} unsupported-kind-{c.getD "kind" "op"}"

partial def loop (h : IO.FS.Stream) (out : IO.FS.Stream) : IO Unit := do
  let line ← h.getLine
  if line.isEmpty then return ()
  match parseCase line with
  | some c => out.putStrLn (runCase c)
  | none => if line.trimAscii.toString.isEmpty then pure () else out.putStrLn "res ? bad-case"
  loop h out

end Ro.Driver

/-
  RoModel.Driver — dispatch of `case` lines to the handler of their `kind=`; one handler module
  per kind under RoModel/Drivers/. To add a kind: create RoModel/Drivers/<Kind>.lean exposing
  `run : Case → String`, import it here and add one line to `handlers`.
-/
import RoModel.DriverCore
import RoModel.Drivers.Op
import RoModel.Drivers.Kernel
namespace Ro.Driver

def handlers : List (String × (Case → String)) := [
  ("op", Drivers.Op.run),
  ("kernel", Drivers.Kernel.run)
]

def runCase (c : Case) : String :=
  match handlers.find? (·.1 == c.getD "kind" "op") with
  | some h => h.2 c
  | none => s!"res {c.id} unsupported-kind-{c.getD "kind" "op"}"

partial def loop (h : IO.FS.Stream) (out : IO.FS.Stream) : IO Unit := do
  let line ← h.getLine
  if line.isEmpty then return ()
  match parseCase line with
  | some c => out.putStrLn (runCase c)
  | none => if line.trimAscii.toString.isEmpty then pure () else out.putStrLn "res ? bad-case"
  loop h out

end Ro.Driver

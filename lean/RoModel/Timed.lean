/-
  RoModel.Timed — timed traces (property C16).

  Time is a natural number (the correspondence harness uses integer microseconds of one monotonic
  clock). A *timed trace* is what can be observed around one subscription of a time-driven operator:

    * `sub`    a stamp taken just BEFORE `Subscribe` was called,
    * `emits`  the source's calls into the operator, each with a stamp taken just before the call
               (`t0`) and just after it returned (`t1`),
    * `dels`   the notifications delivered to the downstream observer, in delivery order, each with
               a stamp taken at the entry (`t0`) and at the exit (`t1`) of the observer callback,
    * `cut`    how the subscription was ended from outside, if it was: `Unsubscribe` called from
               another goroutine (stamps before / after the call), `Unsubscribe` called from inside
               the k-th delivery, or cancellation of the subscription context (stamps before / after).

  The only assumption made about Go's timers and tickers anywhere in this area (DESIGN.md 2.3, 7):

      a timer armed at `t` with delay `d` fires at some `t' ≥ t + d` chosen by the environment;
      the k-th tick of a ticker of period `p` created at `t` is received at some `t' ≥ t + k·p`.

  Core Lean only: this file is linked into the `driver` executable.
-/
namespace Ro.Timed

/-- instants and durations are natural numbers (a notation, so that `omega` sees `Nat`) -/
notation "Time" => Nat

/-- Error codes seen downstream of the time-driven operators. -/
abbrev ErrCode := Nat
/-- `ro.Timeout: timeout after …` (`errors.go:139`) -/
def errTimeout : ErrCode := 0
/-- `ctx.Err()` of a cancelled subscription context (`operator_creation.go:68-69`) -/
def errCancelled : ErrCode := 1
/-- any other error produced by the library itself (e.g. a recovered panic, `observable.go:313-316`) -/
def errOther : ErrCode := 2
/-- the source's own error `n` -/
def errUser (n : Nat) : ErrCode := 10 + n

/-- A notification as far as C16 can see it (contexts are C09's business). -/
inductive TN
  | next (v : Int)
  | buf (vs : List Int)
  | error (code : ErrCode)
  | complete
deriving DecidableEq, Repr, Inhabited

def TN.isTerminal : TN → Bool
  | .error _ => true
  | .complete => true
  | _ => false

@[simp] theorem TN.isTerminal_next (v : Int) : (TN.next v).isTerminal = false := rfl
@[simp] theorem TN.isTerminal_buf (v : List Int) : (TN.buf v).isTerminal = false := rfl
@[simp] theorem TN.isTerminal_error (c : ErrCode) : (TN.error c).isTerminal = true := rfl
@[simp] theorem TN.isTerminal_complete : TN.complete.isTerminal = true := rfl

/-- A stamped call: `t0` taken before it (entry), `t1` after it (exit). -/
structure Ev where
  t0 : Time
  t1 : Time
  n : TN
deriving DecidableEq, Repr, Inhabited

/-- an event of a model run: both stamps are the exact instant -/
def Ev.at (t : Time) (n : TN) : Ev := ⟨t, t, n⟩

inductive Cut
  | none
  | unsubOut (u0 u1 : Time)
  | unsubIn (k : Nat) (u0 u1 : Time)
  | cancel (c0 c1 : Time)
deriving DecidableEq, Repr, Inhabited

structure TimedTrace where
  sub : Time
  emits : List Ev
  dels : List Ev
  cut : Cut
deriving Repr, Inhabited

inductive Op
  | delay | delayEach | timeout | interval | intervalWithInitial | timer | rangeWithInterval
  | throttleTime | sampleTime | bufferWithTime | bufferWithTimeOrCount
deriving DecidableEq, Repr, Inhabited

/-- Configuration of one operator: `d` the duration / period / window, `d2` the initial delay of
    `IntervalWithInitial`, `n` the count of `BufferWithTimeOrCount`, `a`,`b` the bounds of
    `RangeWithInterval`. -/
structure Cfg where
  op : Op
  d : Nat
  d2 : Nat := 0
  n : Nat := 0
  a : Int := 0
  b : Int := 0
  /-- the step of `RangeWithStepAndInterval` (with integral bounds and step); 1 for `RangeWithInterval` -/
  step : Nat := 1
  /-- assert that buffers arrive in source order ACROSS buffers (always on, except when the driver
      classifies a rejected `BufferWithTimeOrCount` trace: see `Drivers/Timed.lean`, known finding
      "unlock-then-emit window") -/
  xorder : Bool := true
deriving Repr, Inhabited

/-- what the downstream gate (`subscriber.go:176-241`, `observer.go:107-140`) lets through of a
    timed list of emissions: everything up to and including the first terminal -/
def gateT : List Ev → List Ev
  | [] => []
  | e :: es => if e.n.isTerminal then [e] else e :: gateT es

/-- an `Unsubscribe` that took effect at `u` closes the gate: delivery attempts are made one after
    the other, and from the first one made later than `u` on they are refused
    (`subscriber.go:188-194`, status test under the producer lock) -/
def cutAt : Option Time → List Ev → List Ev
  | none, l => l
  | some u, l => l.takeWhile (fun e => decide (e.t0 ≤ u))

/-- what reaches the downstream observer of a list of delivery attempts -/
def down (unsub : Option Time) (attempts : List Ev) : List Ev := cutAt unsub (gateT attempts)

/-- How many further ticks the `select` loop of `Interval` / `IntervalWithInitial` / `Timer` may take
    once `ctx.Done()` is ready, before it takes `ctx.Done()`: Go's `select` chooses uniformly among
    the ready cases, so `m` further ticks have probability at most `2^-m` even if a tick is ready at
    every iteration (which itself needs every iteration to last a whole period). The delivery that was
    already under way when the cancellation returned is included. This constant is the second (and
    last) assumption about the environment, used only for "silent after cancellation". -/
def cancelSlack : Nat := 8

/-- deliveries / attempts that begin after instant `c` -/
def lateCount (c : Time) (l : List Ev) : Nat := (l.filter (fun e => decide (c < e.t0))).length

def cutOf : Option Time → Cut
  | none => .none
  | some u => .unsubOut u u

/-! ## Models of the operators

Each model is a total function from the source's timeline and the ENVIRONMENT's choices (when each
timer callback runs, when each tick is received, which of two ready `select` cases is taken, when
the teardown takes effect) to the timed trace. What the environment may choose is restricted only by
the well-formedness predicates (`…WF`, `…Valid`): time does not run backwards, and a timer / ticker
never fires early. Every theorem of RoProofs/Timed*.lean quantifies over all such choices. -/

/-! ### Delay (`operator_utility.go:293-367`)

`produce` appends the notification to `queue` under `muQueue` and then arms one `time.AfterFunc(d, consume)`;
`consume` takes `muQueue`, returns if the queue is empty, otherwise pops the HEAD (whichever timer it
is that fired), takes `muNext` BEFORE releasing `muQueue` (hand-over-hand, so the order in which
callbacks take `muNext` — the delivery order — is the order of the pops), and delivers. The model
makes "take muQueue, pop, take muNext" one atomic step at the instant the callback takes `muQueue`
and delivers in that order. The teardown clears the queue and closes the gate. -/

structure DelayRun where
  d : Nat
  sub : Time
  /-- the source's calls in order: the instant `produce` armed the timer (after the append), the notification -/
  emits : List (Time × TN)
  /-- the AfterFunc callbacks in the order in which they take `muQueue`: instant, index of the timer -/
  fires : List (Time × Nat)
  unsub : Option Time

/-- `m` = number of pops so far; the queue holds `emits[m], …` as far as already appended -/
def delayPops (emits : List (Time × TN)) : List (Time × Nat) → Nat → List Ev
  | [], _ => []
  | f :: fs, m =>
    match emits[m]? with
    | some e => if e.1 ≤ f.1 then Ev.at f.1 e.2 :: delayPops emits fs (m + 1) else delayPops emits fs m
    | none => delayPops emits fs m      -- `len(queue) == 0`: return

def delayTrace (r : DelayRun) : TimedTrace :=
  { sub := r.sub
    emits := r.emits.map (fun e => Ev.at e.1 e.2)
    dels := down r.unsub (delayPops r.emits r.fires 0)
    cut := cutOf r.unsub }

/-- the environment of a Delay run: time does not run backwards, every timer fires at most once and
    never early -/
structure DelayWF (r : DelayRun) : Prop where
  emitsSorted : r.emits.Pairwise (fun x y => x.1 ≤ y.1)
  firesSorted : r.fires.Pairwise (fun x y => x.1 ≤ y.1)
  nodup : (r.fires.map (·.2)).Nodup
  neverEarly : ∀ f ∈ r.fires, ∃ e, r.emits[f.2]? = some e ∧ e.1 + r.d ≤ f.1

/-! ### DelayEach (`operator_utility.go:371-389`): `time.Sleep(d)` on the producer's goroutine before
each value; terminals are forwarded at once. `wake k` is when the k-th sleep returns. -/

structure DelayEachRun where
  d : Nat
  sub : Time
  /-- the source's calls: instant of the call, instant the sleep returned (values only), notification -/
  emits : List (Time × Time × TN)
  unsub : Option Time

def delayEachTrace (r : DelayEachRun) : TimedTrace :=
  { sub := r.sub
    emits := r.emits.map (fun e => Ev.at e.1 e.2.2)
    dels := down r.unsub (r.emits.map (fun e => if e.2.2.isTerminal then Ev.at e.1 e.2.2 else Ev.at e.2.1 e.2.2))
    cut := cutOf r.unsub }

/-- `time.Sleep(d)` returns no earlier than `d` after it was called -/
def DelayEachWF (r : DelayEachRun) : Prop :=
  ∀ e ∈ r.emits, e.2.2.isTerminal = false → e.1 + r.d ≤ e.2.1

/-! ### Interval (`operator_creation.go:85-115`): one goroutine, `select` over `done`, `ctx.Done()` and
`ticker.C`; value `k` is sent when the k-th tick (counting from 0) is received. When the context is
cancelled the loop leaves at some later instant (possibly after more ticks: `select` chooses among the
ready cases at random) and the deferred `Complete` is delivered; after `Unsubscribe` (teardown closes
`done`) the same `Complete` is refused by the closed subscriber. -/

structure IntervalRun where
  p : Nat
  sub : Time
  /-- the instants at which the loop receives a tick, in order -/
  ticks : List Time
  /-- cancellation requested at `c`; the loop left (and completed) at `x` -/
  stop : Option (Time × Time)
  unsub : Option Time

def stopAttempt : Option (Time × Time) → List Ev
  | some (_, x) => [Ev.at x .complete]
  | none => []

def stopCut (stop : Option (Time × Time)) (unsub : Option Time) : Cut :=
  match stop with
  | some (c, _) => .cancel c c
  | none => cutOf unsub

def intervalTrace (r : IntervalRun) : TimedTrace :=
  { sub := r.sub
    emits := []
    dels := down r.unsub (r.ticks.mapIdx (fun k t => Ev.at t (.next (k : Int))) ++ stopAttempt r.stop)
    cut := stopCut r.stop r.unsub }

/-- the k-th tick (from 0) of a ticker of period `p` created after `sub` is received no earlier
    than `sub + (k+1)·p`; the loop cannot see `ctx.Done()` before the cancellation -/
structure IntervalWF (r : IntervalRun) : Prop where
  neverEarly : ∀ k t, r.ticks[k]? = some t → r.sub + (k + 1) * r.p ≤ t
  stopLate : ∀ c x, r.stop = some (c, x) → c ≤ x
  /-- once cancelled, the loop takes at most `cancelSlack` more ticks before it takes `ctx.Done()` -/
  selectFair : ∀ c x, r.stop = some (c, x) → (r.ticks.filter (fun t => decide (c < t))).length ≤ cancelSlack

/-! ### Timer (`operator_creation.go:59-79`): `select` over `timer.C` and `ctx.Done()` inside Subscribe. -/

inductive TimerOutcome
  | fired (t t' : Time)          -- value at `t`, completion at `t'`
  | cancelled (c x : Time)       -- cancellation requested at `c`, `ctx.Err()` delivered at `x`
  | pending                      -- still waiting when the observation ended

structure TimerRun where
  d : Nat
  sub : Time
  outcome : TimerOutcome

def timerTrace (r : TimerRun) : TimedTrace :=
  match r.outcome with
  | .fired t t' => { sub := r.sub, emits := [], dels := [Ev.at t (.next (r.d : Int)), Ev.at t' .complete], cut := .none }
  | .cancelled c x => { sub := r.sub, emits := [], dels := [Ev.at x (.error errCancelled)], cut := .cancel c c }
  | .pending => { sub := r.sub, emits := [], dels := [], cut := .none }

def TimerWF (r : TimerRun) : Prop :=
  match r.outcome with
  | .fired t _ => r.sub + r.d ≤ t
  | .cancelled c x => c ≤ x
  | .pending => True

/-! ### RangeWithInterval (`operator_creation.go:245-265`): `Interval(p) |> Map(a ± v) |> Take(|b-a|)`;
`Empty` when `a = b`. `Take` completes right after its last value (`operator_filter.go`, C04). -/

structure RangeRun where
  a : Int
  b : Int
  /-- 1 for `RangeWithInterval`; the (integral, positive) step of `RangeWithStepAndInterval`
      (`operator_creation.go:283-300`: `Interval(p) |> Map(a ± v·step) |> Take(⌈|b-a| / step⌉)`, as repaired) -/
  step : Nat := 1
  p : Nat
  sub : Time
  ticks : List Time
  stop : Option (Time × Time)
  unsub : Option Time

def rangeVal (a b : Int) (step k : Nat) : Int := if a ≤ b then a + ((k * step : Nat) : Int) else a - ((k * step : Nat) : Int)

/-- how many values the range `[a : b)` holds when walked in steps of `step`: `⌈|b-a| / step⌉` -/
def rangeCount (a b : Int) (step : Nat) : Nat := ((b - a).natAbs + step - 1) / step

theorem rangeCount_one (a b : Int) : rangeCount a b 1 = (b - a).natAbs := by simp [rangeCount]

def rangeAttempts (r : RangeRun) : List Ev :=
  let n := rangeCount r.a r.b r.step
  if n = 0 then [Ev.at r.sub .complete]
  else
    let vals := (r.ticks.take n).mapIdx (fun k t => Ev.at t (.next (rangeVal r.a r.b r.step k)))
    if n ≤ r.ticks.length then vals ++ [Ev.at ((r.ticks[n-1]?).getD 0) .complete]
    else vals ++ stopAttempt r.stop

def rangeTrace (r : RangeRun) : TimedTrace :=
  { sub := r.sub, emits := [], dels := down r.unsub (rangeAttempts r), cut := stopCut r.stop r.unsub }

structure RangeWF (r : RangeRun) : Prop where
  neverEarly : ∀ k t, r.ticks[k]? = some t → r.sub + (k + 1) * r.p ≤ t
  stopLate : ∀ c x, r.stop = some (c, x) → c ≤ x
  selectFair : ∀ c x, r.stop = some (c, x) → (r.ticks.filter (fun t => decide (c < t))).length ≤ cancelSlack

/-! ### IntervalWithInitial (`operator_creation.go:122-176`, as repaired by 6a7ef90)

`ticker := time.NewTicker(math.MaxInt64)` is silent until `ticker.Reset(interval)` arms it;
`timer := time.NewTimer(initial)`. For `initial = 0` the subscribe function itself sends value 0 and
calls `Reset(interval)` before the goroutine starts; the timer case is then ignored (`initial != 0`).
For `initial > 0` the goroutine `select`s over the timer (value, then `Reset(interval)`) and the
ticker (value). `Reset` PANICS for `interval = 0`: inside Subscribe (`initial = 0`) the panic becomes an
Error (`observable.go:306-318`); inside the goroutine it is recovered by `recoverUnhandledError` and the
deferred `Complete` runs — so `interval > 0` is a precondition of everything below.
(Before 6a7ef90 the ticker was `NewTicker(initial*2)`: `initial = 0` panicked, and for
`interval > initial` a tick of that first schedule raced the initial timer.) -/

inductive IwiEv
  | timer (t : Time)      -- the `timer.C` case is taken at `t`
  | tick (t : Time)       -- the `ticker.C` case is taken at `t`
deriving Repr

structure IwiSt where
  now : Time
  v : Nat                  -- next value
  timerDone : Bool         -- the one-shot timer has been received
  reset : Option Time      -- instant of `ticker.Reset(interval)`
  newLb : Time             -- the next tick is not produced before this
  need : Time              -- `sub + initial + v·interval`: what C16 asks for value `v`
  ended : Option TN        -- `Reset(0)` panicked: the terminal that follows
  out : List (Time × Nat × Time)   -- instant, value, bound asked
deriving Repr

def IwiSt.emit (s : IwiSt) (t : Time) (p : Nat) : IwiSt :=
  { s with now := t, out := s.out ++ [(t, s.v, s.need)], v := s.v + 1, need := s.need + p }

/-- `ticker.Reset(p)` at instant `t` (after a value was sent): arms the ticker, or panics for `p = 0` -/
def IwiSt.armAt (s : IwiSt) (t : Time) (p : Nat) (onPanic : TN) : IwiSt :=
  if p = 0 then { s with ended := some onPanic } else { s with reset := some t, newLb := t + p }

/-- the state when the goroutine starts; `first` = instant of the synchronous value 0 when `initial = 0` -/
def iwiInit (sub i p : Nat) (first : Time) : IwiSt :=
  let s0 : IwiSt := { now := sub, v := 0, timerDone := false, reset := none, newLb := 0, need := sub + i, ended := none, out := [] }
  if i = 0 then (s0.emit first p).armAt first p (.error errOther) else s0

/-- one `select` iteration; `none` when the environment's choice would need a timer or a tick
    earlier than asked (or time running backwards, a second firing of the one-shot timer, or an event
    after the goroutine died) -/
def iwiStep (sub i p : Nat) (s : IwiSt) : IwiEv → Option IwiSt
  | .timer t =>
    if s.timerDone = false ∧ s.ended.isNone ∧ s.now ≤ t ∧ sub + i ≤ t then
      if i = 0 then some { s with now := t, timerDone := true }     -- `ok && initial != 0` is false
      else some { ((s.emit t p).armAt t p .complete) with timerDone := true }
    else none
  | .tick t =>
    match s.reset with
    | none => none                                                   -- the ticker is silent until Reset
    | some _ =>
      if s.ended.isNone ∧ s.now ≤ t ∧ s.newLb ≤ t then some { (s.emit t p) with newLb := s.newLb + p } else none

def iwiRunFrom (sub i p : Nat) : IwiSt → List IwiEv → Option IwiSt
  | s, [] => some s
  | s, e :: es => match iwiStep sub i p s e with
    | some s' => iwiRunFrom sub i p s' es
    | none => none

structure IwiRun where
  i : Nat
  p : Nat
  sub : Time
  /-- instant of the synchronous first value (only used when `i = 0`) -/
  first : Time
  evs : List IwiEv
  stop : Option (Time × Time)
  unsub : Option Time

/-- `none`: the environment's choices are not possible (a timer or tick earlier than asked) -/
def iwiTrace (r : IwiRun) : Option TimedTrace :=
  if r.first < r.sub then none
  else
    (iwiRunFrom r.sub r.i r.p (iwiInit r.sub r.i r.p r.first) r.evs).map fun s =>
      { sub := r.sub, emits := []
        dels := down r.unsub (s.out.map (fun o => Ev.at o.1 (.next (o.2.1 : Int)))
                 ++ (s.ended.map (Ev.at s.now)).toList ++ stopAttempt r.stop)
        cut := stopCut r.stop r.unsub }

/-! ### Timeout (`operator_utility.go:437-477`)

One `time.AfterFunc(d, raise)` timer, armed in Subscribe; every source `Next` does `timer.Stop()`,
forwards, then `timer.Reset(d)`; terminals `Stop` and forward. `Stop` prevents a pending firing but
cannot recall a callback that has already started: such a callback reaches `destination.Error` at some
later instant, possibly after further values were forwarded. -/

inductive ToEv
  | next (v : Int) (t0 t1 tr : Time)   -- forwarded over [t0, t1] (Stop before t0), `Reset(d)` at `tr`
  | term (n : TN) (t : Time)           -- terminal: Stop, forward at `t`
  | fire (t : Time)                    -- the pending timer expires: its callback starts
  | raise (t : Time)                   -- a started callback calls `destination.Error(timeout)`
deriving Repr

structure ToSt where
  now : Time
  armed : Option Time      -- a firing is pending, armed at this instant
  inflight : Nat           -- callbacks started and not yet at `destination.Error`
  closed : Bool            -- a terminal went downstream
  emits : List Ev
  attempts : List Ev       -- what went downstream (nothing is recorded once closed: it is refused)
deriving Repr

def toInit (sub : Time) : ToSt :=
  { now := sub, armed := some sub, inflight := 0, closed := false, emits := [], attempts := [] }

def toStep (d : Nat) (s : ToSt) : ToEv → Option ToSt
  | .next v t0 t1 tr =>
    if s.now ≤ t0 ∧ t0 ≤ t1 ∧ t1 ≤ tr then
      some { s with now := tr, armed := some tr, emits := s.emits ++ [⟨t0, tr, .next v⟩],
                    attempts := if s.closed then s.attempts else s.attempts ++ [⟨t0, t1, .next v⟩] }
    else none
  | .term n t =>
    if s.now ≤ t ∧ n.isTerminal = true ∧ n ≠ .error errTimeout then   -- the source's own terminals
      some { s with now := t, armed := none, emits := s.emits ++ [⟨t, t, n⟩], closed := true,
                    attempts := if s.closed then s.attempts else s.attempts ++ [⟨t, t, n⟩] }
    else none
  | .fire t =>
    match s.armed with
    | some a => if s.now ≤ t ∧ a + d ≤ t then some { s with now := t, armed := none, inflight := s.inflight + 1 } else none
    | none => none
  | .raise t =>
    if s.now ≤ t ∧ 0 < s.inflight then
      some { s with now := t, inflight := s.inflight - 1, closed := true,
                    attempts := if s.closed then s.attempts else s.attempts ++ [Ev.at t (.error errTimeout)] }
    else none

def toRunFrom (d : Nat) : ToSt → List ToEv → Option ToSt
  | s, [] => some s
  | s, e :: es => match toStep d s e with
    | some s' => toRunFrom d s' es
    | none => none

structure ToRun where
  d : Nat
  sub : Time
  evs : List ToEv
  unsub : Option Time

def toTrace (r : ToRun) : Option TimedTrace :=
  (toRunFrom r.d (toInit r.sub) r.evs).map fun s =>
    { sub := r.sub, emits := s.emits, dels := cutAt r.unsub s.attempts, cut := cutOf r.unsub }

/-! ### ThrottleTime (`operator_transformations.go:829-855`): `lastAt` starts at 0, which is the start of
the PROCESS on `xtime.NowNanoMonotonic`'s clock (`internal/xtime/time.go:30-36`), not the subscription;
a value passes when `lastAt + w < now`. Time 0 of this model is the process start. -/

def throttlePass (w : Nat) : Time → List (Time × TN) → List Ev
  | _, [] => []
  | last, (t, .next v) :: r =>
    if last + w < t then Ev.at t (.next v) :: throttlePass w t r else throttlePass w last r
  | last, (t, n) :: r => Ev.at t n :: throttlePass w last r

structure ThrottleRun where
  w : Nat
  sub : Time
  /-- the source's calls: the instant the operator read its clock, the notification -/
  emits : List (Time × TN)
  unsub : Option Time

def throttleTrace (r : ThrottleRun) : TimedTrace :=
  { sub := r.sub, emits := r.emits.map (fun e => Ev.at e.1 e.2)
    dels := down r.unsub (throttlePass r.w 0 r.emits), cut := cutOf r.unsub }

/-! ### SampleTime = SampleWhen(Interval(p)) (`operator_transformations.go:707-775`): the source side
stores the latest value and sets `hasValue` under `mu`; a tick, under `mu`, takes the stored value if
`hasValue` (clearing it) and sends it after unlocking. Logical model: the critical sections are the
events. -/

inductive SaEv
  | src (t : Time) (v : Int)
  | tick (t : Time)
deriving Repr

/-- state: stored value if `hasValue`; ticks seen; output: (tick number, instant, value) -/
def sampleFrom : Option Int → Nat → List SaEv → List (Nat × Time × Int)
  | _, _, [] => []
  | _, k, .src _ v :: r => sampleFrom (some v) k r
  | some v, k, .tick t :: r => (k, t, v) :: sampleFrom none (k + 1) r
  | none, k, .tick _ :: r => sampleFrom none (k + 1) r

/-! ### BufferWithTime / BufferWithTimeOrCount (`operator_transformations.go:396-549`): logical model
(each flush — take the buffer under `mu`, send it — is one event). The micro-step reading, in which a
flush of the ticker goroutine and a count-flush of the source goroutine interleave between "take" and
"send", belongs to C05 (DESIGN.md Appendix D #11) and is only witnessed here (`bufferMicro`). -/

inductive BuEv
  | src (t : Time) (v : Int)
  | tick (t : Time)
  | complete (t : Time)
deriving Repr

/-- state: the buffer; output: the buffers sent, in order, with their instants (`cnt = none`: no count) -/
def bufferFrom (cnt : Option Nat) : List Int → List BuEv → List (Time × List Int)
  | _, [] => []
  | buf, .src t v :: r =>
    match cnt with
    | some n => if (buf ++ [v]).length ≥ n then (t, buf ++ [v]) :: bufferFrom cnt [] r else bufferFrom cnt (buf ++ [v]) r
    | none => bufferFrom cnt (buf ++ [v]) r
  | buf, .tick t :: r => (t, buf) :: bufferFrom cnt [] r
  | buf, .complete t :: _ => [(t, buf)]

/-- micro-step flush: `take` (under `mu`) and `send` are separate; two flushers `A` (ticker goroutine)
    and `B` (source goroutine, count reached) -/
inductive MicroEv
  | src (v : Int)
  | take (who : Bool)
  | send (who : Bool)
deriving Repr

/-- state: buffer, what each flusher holds; output: buffers in the order sent -/
def bufferMicro : List Int → Option (List Int) → Option (List Int) → List MicroEv → List (List Int)
  | _, _, _, [] => []
  | buf, a, b, .src v :: r => bufferMicro (buf ++ [v]) a b r
  | buf, _, b, .take true :: r => bufferMicro [] (some buf) b r
  | buf, a, _, .take false :: r => bufferMicro [] a (some buf) r
  | buf, some x, b, .send true :: r => x :: bufferMicro buf none b r
  | buf, a, some x, .send false :: r => x :: bufferMicro buf a none r
  | buf, a, b, _ :: r => bufferMicro buf a b r

end Ro.Timed

/-
  RoModel.Timed — timed traces (property C16).

  Time is a natural number (the correspondence harness uses integer microseconds of one monotonic
  clock). A *timed trace* is what can be observed around one subscription of a time-driven operator:

    * `sub`    a stamp taken just BEFORE `Subscribe` was called,
    * `emits`  the source's calls into the operator, each with a stamp taken just before the call
               (`t0`) and just after it returned (`t1`),
    * `dels`   the notifications delivered to the downstream observer, in delivery order, each with
               a stamp taken at the entry (`t0`) and at the exit (`t1`) of the observer callback,
    * `cut`    how the subscription was ended from outside, if it was: `Unsubscribe` called from
               another goroutine (stamps before / after the call), `Unsubscribe` called from inside
               the k-th delivery, or cancellation of the subscription context (stamps before / after).

  The only assumption made about Go's timers and tickers anywhere in this area (DESIGN.md 2.3, 7):

      a timer armed at `t` with delay `d` fires at some `t' ≥ t + d` chosen by the environment;
      the k-th tick of a ticker of period `p` created at `t` is received at some `t' ≥ t + k·p`.

  Core Lean only: this file is linked into the `driver` executable.
-/
namespace Ro.Timed

abbrev Time := Nat

/-- Error codes seen downstream of the time-driven operators. -/
abbrev ErrCode := Nat
/-- `ro.Timeout: timeout after …` (`errors.go:139`) -/
def errTimeout : ErrCode := 0
/-- `ctx.Err()` of a cancelled subscription context (`operator_creation.go:68-69`) -/
def errCancelled : ErrCode := 1
/-- any other error produced by the library itself (e.g. a recovered panic, `observable.go:313-316`) -/
def errOther : ErrCode := 2
/-- the source's own error `n` -/
def errUser (n : Nat) : ErrCode := 10 + n

/-- A notification as far as C16 can see it (contexts are C09's business). -/
inductive TN
  | next (v : Int)
  | buf (vs : List Int)
  | error (code : ErrCode)
  | complete
deriving DecidableEq, Repr, Inhabited

def TN.isTerminal : TN → Bool
  | .error _ => true
  | .complete => true
  | _ => false

@[simp] theorem TN.isTerminal_next (v : Int) : (TN.next v).isTerminal = false := rfl
@[simp] theorem TN.isTerminal_buf (v : List Int) : (TN.buf v).isTerminal = false := rfl
@[simp] theorem TN.isTerminal_error (c : ErrCode) : (TN.error c).isTerminal = true := rfl
@[simp] theorem TN.isTerminal_complete : TN.complete.isTerminal = true := rfl

/-- A stamped call: `t0` taken before it (entry), `t1` after it (exit). -/
structure Ev where
  t0 : Time
  t1 : Time
  n : TN
deriving DecidableEq, Repr, Inhabited

/-- an event of a model run: both stamps are the exact instant -/
def Ev.at (t : Time) (n : TN) : Ev := ⟨t, t, n⟩

inductive Cut
  | none
  | unsubOut (u0 u1 : Time)
  | unsubIn (k : Nat) (u0 u1 : Time)
  | cancel (c0 c1 : Time)
deriving DecidableEq, Repr, Inhabited

structure TimedTrace where
  sub : Time
  emits : List Ev
  dels : List Ev
  cut : Cut
deriving Repr, Inhabited

inductive Op
  | delay | delayEach | timeout | interval | intervalWithInitial | timer | rangeWithInterval
  | throttleTime | sampleTime | bufferWithTime | bufferWithTimeOrCount
deriving DecidableEq, Repr, Inhabited

/-- Configuration of one operator: `d` the duration / period / window, `d2` the initial delay of
    `IntervalWithInitial`, `n` the count of `BufferWithTimeOrCount`, `a`,`b` the bounds of
    `RangeWithInterval`. -/
structure Cfg where
  op : Op
  d : Nat
  d2 : Nat := 0
  n : Nat := 0
  a : Int := 0
  b : Int := 0
deriving Repr, Inhabited

/-- what the downstream gate (`subscriber.go:176-241`, `observer.go:107-140`) lets through of a
    timed list of emissions: everything up to and including the first terminal -/
def gateT : List Ev → List Ev
  | [] => []
  | e :: es => if e.n.isTerminal then [e] else e :: gateT es

/-- an `Unsubscribe` that took effect at `u` closes the gate for everything attempted later -/
def cutAt : Option Time → List Ev → List Ev
  | none, l => l
  | some u, l => l.filter (fun e => e.t0 ≤ u)

end Ro.Timed

/-
  RoModel.SubjectsX — subjects subscribed with a ready-made `Subscriber` (what every pass-through operator hands
  upstream) that is closed, or closes itself, while the subject's `SubscribeWithContext` is still at work:

    dead i c        a Subscriber that has already been unsubscribed
    selfUnsub i c   a Subscriber that unsubscribes itself inside its first Next callback (during the replay of a
                    behavior / replay / unicast subject, or on the first live value)

  Both are REDUCED to the sequential model of RoModel/Subjects.lean: the subject runs `subscribe i`; `unsubscribe i`
  follows at the point where the subscriber closed; what the subscription delivered to the subscriber after that point
  was refused by the closed `subscriberImpl` (subscriber.go:176-197) and went to the dropped-notification hook — except
  in a broadcast (async's Complete: value loop, then completion loop, subject_async.go), where the subscriber has left
  the observer map by the time the second loop runs and is simply not visited.

  Reading of subject_*.go: publish / behavior / replay / async store the subscription and then `Add` the deleting
  teardown, which `subscriptionImpl.Add` runs at once on a disposed subscription (subscription.go:78-91). The unicast
  subject registers its teardown while holding `s.mu`, and that teardown takes `s.mu`: with a subscriber that is closed
  by then its `Subscribe` never returned on the pinned tree; the reduction says what it must return, and the code repaired
  in /repo 5f819fc (teardown registered after the lock is released) returns exactly that.
  Core Lean only.
-/
import RoModel.Subjects
namespace Ro.Subj

inductive XOp
  | plain (o : Op Int)
  | dead (i : Nat) (c : Ctx)
  | selfUnsub (i : Nat) (c : Ctx)

/-- give subscriber `i` the trace `keep` and hand `dropped` to the hook -/
def rewrite (s : State Int) (i : Nat) (keep dropped : List (Notif Int)) : State Int :=
  let s := s.modSub i (fun x => { x with got := keep })
  { s with drops := s.drops ++ dropped }

/-- one armed subscriber (a `selfUnsub` that has not seen a value yet) after a step from `before` to `s` -/
def settleOne (k : Kind Int) (before : State Int) (replay : Bool) (acc : State Int × List Nat) (i : Nat) : State Int × List Nat :=
  let (s, still) := acc
  let old := (before.sub i).got
  let new := ((s.sub i).got).drop old.length
  match new with
  | [] => (s, still ++ [i])
  | .next c v :: rest =>
    let s := rewrite s i (old ++ [.next c v]) (if replay then rest else [])
    (k.step s (.unsubscribe i), still)
  | _ => (s, still)

def settle (k : Kind Int) (before s : State Int) (armed : List Nat) (replay : Bool) : State Int × List Nat :=
  armed.foldl (settleOne k before replay) (s, [])

def stepX (k : Kind Int) (st : State Int × List Nat) : XOp → State Int × List Nat
  | .plain o =>
    let (s, armed) := st
    settle k s (k.step s o) armed false
  | .dead i c =>
    let (s, armed) := st
    let old := (s.sub i).got
    let s1 := k.step s (.subscribe i c)
    let delivered := ((s1.sub i).got).drop old.length
    let s2 := k.step (rewrite s1 i old delivered) (.unsubscribe i)
    (s2, armed)
  | .selfUnsub i c =>
    let (s, armed) := st
    let s1 := k.step s (.subscribe i c)
    let (s2, still) := settle k s s1 [i] true
    (s2, armed ++ still)

def runX (k : Kind Int) (xs : List XOp) : State Int × List Nat := xs.foldl (stepX k) (k.init, [])

end Ro.Subj

/-
  RoModel.Connectable — `connectableObservableImpl` (observable.go:501-567) as a transition system,
  sequential semantics, over the same instrumented probe source and the same minimal subject model
  as RoModel.Share. Core Lean only.

    Connect     [mu] if subscription == nil || subscription.IsClosed():
                        subscription = source.Subscribe(subject)        -- a new unsafe subscriberImpl
                [/mu]   subscription.Add(resetSubject)                   -- outside the lock
                return subscription
    Subscribe   subject.Subscribe(observer)                              -- reads s.subject unlocked
    disconnect  = Unsubscribe of the subscription Connect returned: runs the upstream teardown and
                  `resetSubject` (swap in a fresh subject iff ResetOnDisconnect)
  `IsClosed` of the stored subscription is `subscriberImpl.IsClosed` (status ≠ 0, subscriber.go),
  which shadows the embedded Subscription's.
-/
import RoModel.Share
namespace Ro.Connectable
open Ro.Share

structure CCfg where
  conn : Conn
  resetOnDisconnect : Bool
  pre : Nat → List Ev

/-- a downstream subscriber: the `subscriberImpl` the subject's `Subscribe` creates -/
structure CSub where
  status : Nat := 0
  trace : List Ev := []
  done : Bool := false
  /-- finalizer: delete my entry from subject j -/
  delFin : Option Nat := none
deriving Repr, Inhabited

/-- the subscriber `source.SubscribeWithContext(ctx, s.subject)` creates around the subject -/
structure Link where
  /-- the subject it forwards to (the value of `s.subject` at Connect time) -/
  target : Nat := 0
  status : Nat := 0
  done : Bool := false
  /-- finalizers: the probe's teardown, the `resetSubject` closure of observable.go:549-553 -/
  tdFin : Bool := false
  resetFin : Bool := false
  upTorn : Bool := false
deriving Repr, Inhabited

structure CSt where
  subjects : Nat → Subj
  nsubjects : Nat := 1
  subject : Nat := 0
  subscription : Option Nat := none
  links : Nat → Link := fun _ => {}
  nlinks : Nat := 0
  subs : Nat → CSub := fun _ => {}
  nsubs : Nat := 0
  drops : List Ev := []
  /-- per Connect: did it return the subscription the previous Connect returned -/
  same : List Bool := []
  lastRet : Option Nat := none

/-- `newConnectableObservableImpl`: the first subject is created eagerly (observable.go:509) -/
def CSt.init (cfg : CCfg) : CSt := { subjects := fun _ => Subj.new cfg.conn }

namespace CSt
def modSubj (s : CSt) (j : Nat) (f : Subj → Subj) : CSt :=
  { s with subjects := fun k => if k = j then f (s.subjects k) else s.subjects k }
def modLink (s : CSt) (c : Nat) (f : Link → Link) : CSt :=
  { s with links := fun k => if k = c then f (s.links k) else s.links k }
def modSub (s : CSt) (i : Nat) (f : CSub → CSub) : CSt :=
  { s with subs := fun k => if k = i then f (s.subs k) else s.subs k }
def drop (s : CSt) (x : Ev) : CSt := { s with drops := s.drops ++ [x] }
def upLive (s : CSt) (c : Nat) : Bool := !(s.links c).upTorn
def live (s : CSt) : Nat := ((List.range s.nlinks).filter s.upLive).length
def total (s : CSt) : Nat := s.nlinks
end CSt

/-! downstream subscribers -/

def runDel (i : Nat) (o : Option Nat) (s : CSt) : CSt :=
  match o with
  | some j => s.modSubj j fun x => { x with obs := x.obs.erase i }
  | none => s

def dSubnUnsub (i : Nat) (s : CSt) : CSt :=
  if (s.subs i).done then s
  else runDel i (s.subs i).delFin (s.modSub i fun d => { d with done := true, delFin := none })

def dUnsubscribe (i : Nat) (s : CSt) : CSt :=
  if (s.subs i).status = 0 then dSubnUnsub i (s.modSub i fun d => { d with status := 2 }) else s

def dNext (i : Nat) (v : Int) (s : CSt) : CSt :=
  if (s.subs i).status = 0 then s.modSub i fun d => { d with trace := d.trace ++ [.next v] } else s.drop (.next v)

def dDeliver (i : Nat) (t : Ev) (s : CSt) : CSt :=
  if (s.subs i).status = 0 then s.modSub i fun d => { d with status := t.code, trace := d.trace ++ [t] } else s.drop t

def dTerm (i : Nat) (t : Ev) (s : CSt) : CSt := dSubnUnsub i (dDeliver i t s)

/-! subject j -/

def subjStore (conn : Conn) (j : Nat) (v : Int) (s : CSt) : CSt :=
  match conn with
  | .behavior _ => s.modSubj j fun x => { x with last := v }
  | _ => s

def bcastNext (j : Nat) (v : Int) (s : CSt) : CSt :=
  ((s.subjects j).obs).foldl (fun s i => dNext i v s) s

def subjBuffer (conn : Conn) (j : Nat) (v : Int) (s : CSt) : CSt :=
  match conn with
  | .replay n =>
    if ((s.subjects j).buf ++ [v]).length > n then
      (s.drop (.next (((s.subjects j).buf ++ [v]).headD 0))).modSubj j fun x =>
        { x with buf := (x.buf ++ [v]).drop ((x.buf ++ [v]).length - n) }
    else s.modSubj j fun x => { x with buf := x.buf ++ [v] }
  | .replayAll => s.modSubj j fun x => { x with buf := x.buf ++ [v] }
  | _ => s

def subjNext (conn : Conn) (j : Nat) (v : Int) (s : CSt) : CSt :=
  match (s.subjects j).status with
  | .open => subjBuffer conn j v (bcastNext j v (subjStore conn j v s))
  | _ => s.drop (.next v)

def bcastTerm (j : Nat) (t : Ev) (s : CSt) : CSt :=
  ((s.subjects j).obs).foldl (fun s i => dTerm i t s) s

def subjClear (j : Nat) (s : CSt) : CSt := s.modSubj j fun x => { x with obs := [] }

def subjTerm (j : Nat) (t : Ev) (s : CSt) : CSt :=
  match (s.subjects j).status with
  | .open => subjClear j (bcastTerm j t (s.modSubj j fun x => { x with status := Status.ofTerminal t }))
  | _ => subjClear j (s.drop t)

def subjReplay (conn : Conn) (j i : Nat) (s : CSt) : CSt :=
  match conn with
  | .replay _ | .replayAll => ((s.subjects j).buf).foldl (fun s v => dNext i v s) s
  | _ => s

def subjLast (conn : Conn) (j i : Nat) (s : CSt) : CSt :=
  match conn with
  | .behavior _ => dNext i (s.subjects j).last s
  | _ => s

def subjRegister (j i : Nat) (s : CSt) : CSt :=
  if (s.subs i).done then
    (s.modSubj j fun x => { x with obs := x.obs ++ [i] }).modSubj j fun x => { x with obs := x.obs.erase i }
  else (s.modSubj j fun x => { x with obs := x.obs ++ [i] }).modSub i fun d => { d with delFin := some j }

def subjSubscribe (conn : Conn) (j i : Nat) (s : CSt) : CSt :=
  match ((subjReplay conn j i s).subjects j).status with
  | .errored e => dTerm i (.error e) (subjReplay conn j i s)
  | .completed => dTerm i .complete (subjReplay conn j i s)
  | .open => subjRegister j i (subjLast conn j i (subjReplay conn j i s))

/-! the link (source → subject) -/

/-- the closure of observable.go:549-553 -/
def resetSubject (cfg : CCfg) (s : CSt) : CSt :=
  if cfg.resetOnDisconnect then
    { s with subjects := (fun k => if k = s.nsubjects then Subj.new cfg.conn else s.subjects k),
             nsubjects := s.nsubjects + 1, subject := s.nsubjects }
  else s

/-- finalizer 1 of the link's Subscription: the probe's teardown -/
def lRunTd (c : Nat) (b : Bool) (s : CSt) : CSt :=
  if b then s.modLink c fun x => { x with upTorn := true } else s

/-- finalizer 2: `resetSubject` -/
def lRunReset (cfg : CCfg) (b : Bool) (s : CSt) : CSt :=
  if b then resetSubject cfg s else s

/-- the link's `Subscription.Unsubscribe` (subscription.go:114-150) -/
def lSubnUnsub (cfg : CCfg) (c : Nat) (s : CSt) : CSt :=
  if (s.links c).done then s
  else lRunReset cfg (s.links c).resetFin (lRunTd c (s.links c).tdFin
        (s.modLink c fun x => { x with done := true, tdFin := false, resetFin := false }))

/-- the link's `Unsubscribe` (subscriber.go:259-263) -/
def lUnsubscribe (cfg : CCfg) (c : Nat) (s : CSt) : CSt :=
  if (s.links c).status = 0 then lSubnUnsub cfg c (s.modLink c fun x => { x with status := 2 }) else s

def lNext (cfg : CCfg) (c : Nat) (v : Int) (s : CSt) : CSt :=
  if (s.links c).status = 0 then subjNext cfg.conn (s.links c).target v s else s.drop (.next v)

def lTerm (cfg : CCfg) (c : Nat) (t : Ev) (s : CSt) : CSt :=
  if (s.links c).status = 0 then
    lSubnUnsub cfg c (subjTerm (s.links c).target t (s.modLink c fun x => { x with status := t.code }))
  else lSubnUnsub cfg c (s.drop t)

def lEmit (cfg : CCfg) (c : Nat) (x : Ev) (s : CSt) : CSt :=
  match x with
  | .next v => lNext cfg c v s
  | t => lTerm cfg c t s

/-- `source.SubscribeWithContext(ctx, s.subject)` creates the link (and counts in `total`) -/
def newLink (s : CSt) : CSt :=
  { s with links := (fun n => if n = s.nlinks then { target := s.subject } else s.links n), nlinks := s.nlinks + 1 }

def playPre (cfg : CCfg) (c : Nat) (pre : List Ev) (s : CSt) : CSt :=
  pre.foldl (fun s x => lEmit cfg c x s) s

/-- observable.go:310: `Add(the probe's teardown)` -/
def linkAddTeardown (c : Nat) (s : CSt) : CSt :=
  if (s.links c).done then s.modLink c fun x => { x with upTorn := true } else s.modLink c fun x => { x with tdFin := true }

/-- observable.go:549: `s.subscription.Add(resetSubject)`, outside the lock -/
def linkAddReset (cfg : CCfg) (c : Nat) (s : CSt) : CSt :=
  if (s.links c).done then resetSubject cfg s else s.modLink c fun x => { x with resetFin := true }

/-- observable.go:546: `s.subscription == nil || s.subscription.IsClosed()` -/
def needsConnect (s : CSt) : Bool :=
  match s.subscription with
  | none => true
  | some c => (s.links c).status != 0

def connectNew (cfg : CCfg) (s : CSt) : CSt :=
  linkAddReset cfg s.nlinks
    { (linkAddTeardown s.nlinks (playPre cfg s.nlinks (cfg.pre s.nlinks) (newLink s))) with subscription := some s.nlinks }

/-- the harness notes whether Connect returned the subscription the previous Connect returned -/
def noteRet (s : CSt) : CSt :=
  { s with same := s.same ++ [s.lastRet.isSome && s.lastRet == s.subscription], lastRet := s.subscription }

/-- `ConnectWithContext` (observable.go:544-559) -/
def connect (cfg : CCfg) (s : CSt) : CSt :=
  noteRet (if needsConnect s then connectNew cfg s else s)

inductive CEvent
  | sub
  | unsub (i : Nat)
  | src (x : Ev)
  | connect
  | disconnect
deriving DecidableEq, Repr, Inhabited

def push (cfg : CCfg) (x : Ev) (s : CSt) : CSt :=
  (List.range s.nlinks).foldl (fun s c => if s.upLive c then lEmit cfg c x s else s) s

/-- the subject's `Subscribe` creates the downstream subscriber -/
def newSub (s : CSt) : CSt :=
  { s with subs := (fun k => if k = s.nsubs then {} else s.subs k), nsubs := s.nsubs + 1 }

def step (cfg : CCfg) (s : CSt) : CEvent → CSt
  | .sub => subjSubscribe cfg.conn s.subject s.nsubs (newSub s)
  | .unsub i => if i < s.nsubs then dUnsubscribe i s else s
  | .src x => push cfg x s
  | .connect => connect cfg s
  | .disconnect => match s.lastRet with
    | some c => lUnsubscribe cfg c s
    | none => s

def run (cfg : CCfg) (evs : List CEvent) : CSt := evs.foldl (step cfg) (CSt.init cfg)

def counters (cfg : CCfg) : CSt → List CEvent → List (Nat × Nat)
  | _, [] => []
  | s, e :: es => let s' := step cfg s e; (s'.live, s'.total) :: counters cfg s' es

def traces (s : CSt) : List (List Ev) := (List.range s.nsubs).map fun i => (s.subs i).trace

end Ro.Connectable

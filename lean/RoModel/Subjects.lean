/-
  RoModel.Subjects — the five subjects of samber/ro as step functions over
  {Next v, Error e, Complete, Subscribe i, Unsubscribe i}   (property C10).

  A line-by-line reading of subject_publish.go, subject_behavior.go, subject_replay.go,
  subject_async.go, subject_unicast.go and of the subscriber each `Subscribe` wraps its
  destination in (subscriber.go:176-263).  What the code does, deviations included.

  One operation = one call of the Go method, executed alone (the sequential reading).  Everything a
  publish/behavior/replay/async method does sits between `s.mu.Lock()` and `s.mu.Unlock()`
  (regenerated fact table RoGen.SubjectLocks, theorem C10.subjects_wellLocked); unicast captures
  the observer under the lock and delivers after unlocking — the micro-step reading of that is
  `Unicast2` at the end of this file.

  Conventions of the client that drives a subject (the same in the Go harness):
   * a subscriber identity `i` is a fresh recording observer; it is subscribed at most once
     (`Subscribe i` on an identity already used is not issued: no-op), and `Unsubscribe i` calls
     `Unsubscribe()` on the subscription `Subscribe i` returned (no-op when there is none);
   * subscriber callbacks do not call back into the subject (they run inside `s.mu`).

  Core Lean only: linked into the `driver` executable.
-/
import RoModel.Basic
import RoModel.Linearizable
namespace Ro.Subj

variable {α : Type}

/-- the operations of a subject -/
inductive Op (α : Type)
  | next (c : Ctx) (v : α)
  | error (c : Ctx) (e : Err)
  | complete (c : Ctx)
  | subscribe (i : Nat) (c : Ctx)
  | unsubscribe (i : Nat)
deriving DecidableEq, Repr

/-- `status` + the stored terminal (`err lo.Tuple2[context.Context, error]`); a completion stores
    nothing: late subscribers are completed with *their own* subscription context -/
inductive Status
  | active
  | errored (c : Ctx) (e : Err)
  | completed
deriving DecidableEq, Repr

/-- one `subscriberImpl` created by `NewSubscriber(destination)` plus what its destination (the
    recording observer) has received.  `status`: subscriber.go:141-148 (0 open, 1 error,
    2 complete / unsubscribed).  `td`: a teardown was registered by `subscription.Add` and has not
    run yet (subscription.go:78-91, :114-150: finalizers run once). -/
structure Sub (α : Type) where
  used : Bool := false
  status : Nat := 0
  td : Bool := false
  got : List (Notif α) := []

/-- the subject.  `values`: replay's `values`, unicast's `values` (queue), behavior's `last`
    (always exactly one), async's `value` (`hasValue` = non-empty).  `observers`: the keys of
    the `sync.Map` in insertion order (publish/behavior/replay/async) or the `observer` field
    (unicast: at most one).  `drops`: what reached `OnDroppedNotification`, in order. -/
structure State (α : Type) where
  status : Status := .active
  values : List (Ctx × α) := []
  observers : List Nat := []
  sub : Nat → Sub α := fun _ => {}
  drops : List (Notif α) := []

/-- how a subscriber's teardown removes it: `s.observers.Delete(index)` (subject_publish.go:79-81)
    or unicast's blind `s.observer = nil` (subject_unicast.go:91-95) -/
inductive TD | delete | clear
deriving DecidableEq, Repr

def State.drop (s : State α) (n : Notif α) : State α := { s with drops := s.drops ++ [n] }

def State.modSub (s : State α) (i : Nat) (f : Sub α → Sub α) : State α :=
  { s with sub := fun j => if j = i then f (s.sub j) else s.sub j }

/-! ### the subscriber (gate) -/

/-- `subscriberImpl.NextWithContext` (subscriber.go:176-197): delivered while `status = 0`, else
    handed to the drop hook -/
def subNext (s : State α) (i : Nat) (c : Ctx) (v : α) : State α :=
  if (s.sub i).status = 0 then s.modSub i (fun x => { x with got := x.got ++ [.next c v] })
  else s.drop (.next c v)

/-- the subscription's finalizers (subscription.go:114-150), i.e. the one teardown a subject adds -/
def runTeardown (m : TD) (s : State α) (i : Nat) : State α :=
  if (s.sub i).td then
    match m with
    | .delete => { s.modSub i (fun x => { x with td := false }) with observers := s.observers.filter (· != i) }
    | .clear => { s.modSub i (fun x => { x with td := false }) with observers := [] }
  else s

def termCode : Notif α → Nat
  | .error _ _ => 1
  | _ => 2

/-- `subscriberImpl.ErrorWithContext` / `CompleteWithContext` (subscriber.go:205-241): CAS 0→1 / 0→2,
    deliver on success, drop otherwise; then `s.unsubscribe()` unconditionally -/
def subTerminal (m : TD) (s : State α) (i : Nat) (n : Notif α) : State α :=
  runTeardown m
    (if (s.sub i).status = 0 then s.modSub i (fun x => { x with status := termCode n, got := x.got ++ [n] })
     else s.drop n) i

/-- `subscriberImpl.Unsubscribe` (subscriber.go:259-263): CAS 0→2, then the finalizers -/
def subUnsubscribe (m : TD) (s : State α) (i : Nat) : State α :=
  if (s.sub i).status = 0 then runTeardown m (s.modSub i (fun x => { x with status := 2 })) i else s

/-- `subscription := NewSubscriber(destination)` (first line of every `SubscribeWithContext`) -/
def fresh (s : State α) (i : Nat) : State α := s.modSub i (fun _ => { used := true })

/-- `s.observers.Store(index, subscription); subscription.Add(func() { s.observers.Delete(index) })` -/
def register (s : State α) (i : Nat) : State α :=
  { s.modSub i (fun x => { x with td := true }) with observers := s.observers ++ [i] }

/-- `broadcastNext`: `observers.Range` calling each subscriber's `NextWithContext` (under `s.mu`).
    `Range` order is unspecified; nothing below depends on it (per-subscriber statements). -/
def broadcastNext (s : State α) (c : Ctx) (v : α) : State α :=
  s.observers.foldl (fun s i => subNext s i c v) s

/-- `broadcastError` / `broadcastComplete`: each subscriber's terminal method, which also runs the
    subscriber's teardown (deleting its entry while `Range` is in progress) -/
def broadcastTerminal (s : State α) (n : Notif α) : State α :=
  s.observers.foldl (fun s i => subTerminal .delete s i n) s

/-- `unsubscribeAll` (after `s.mu.Unlock()`): deletes every key; no teardown is run by it -/
def unsubscribeAll (s : State α) : State α := { s with observers := [] }

/-- replay of stored values to one subscriber: `for _, v := range s.values { subscription.NextWithContext(v.A, v.B) }` -/
def replayTo (s : State α) (i : Nat) (vs : List (Ctx × α)) : State α :=
  vs.foldl (fun s p => subNext s i p.1 p.2) s

/-- `s.values = append(s.values, (ctx, value))`, then the bound: the oldest value goes to the drop
    hook (with the *current* context) and the slice keeps its last `bufferSize` entries
    (subject_replay.go:108-112, subject_unicast.go:111-115); `none` = unlimited (-1) -/
def push (cap : Option Nat) (s : State α) (c : Ctx) (v : α) : State α :=
  match cap with
  | none => { s with values := s.values ++ [(c, v)] }
  | some n =>
    if (s.values ++ [(c, v)]).length > n then
      { s.drop (.next c (match s.values with | [] => v | p :: _ => p.2)) with
          values := (s.values ++ [(c, v)]).drop ((s.values ++ [(c, v)]).length - n) }
    else { s with values := s.values ++ [(c, v)] }

/-! ### publish (subject_publish.go) -/

def publishStep (s : State α) : Op α → State α
  | .subscribe i c =>                                             -- :57-86
    if (s.sub i).used then s else
    match s.status with
    | .errored ec e => subTerminal .delete (fresh s i) i (.error ec e)  -- :66-68 stored ctx and error
    | .completed => subTerminal .delete (fresh s i) i (.complete c)     -- :69-71 subscriber's ctx
    | .active => register (fresh s i) i                                  -- :74-83
  | .next c v =>                                                  -- :101-111
    match s.status with
    | .active => broadcastNext s c v
    | _ => s.drop (.next c v)
  | .error c e =>                                                 -- :119-132
    unsubscribeAll (match s.status with
      | .active => broadcastTerminal { s with status := .errored c e } (.error c e)
      | _ => s.drop (.error c e))
  | .complete c =>                                                -- :140-152
    unsubscribeAll (match s.status with
      | .active => broadcastTerminal { s with status := .completed } (.complete c)
      | _ => s.drop (.complete c))
  | .unsubscribe i => if (s.sub i).used then subUnsubscribe .delete s i else s

/-! ### behavior (subject_behavior.go); `values` always holds exactly `[last]` -/

def behaviorStep (s : State α) : Op α → State α
  | .subscribe i c =>                                             -- :59-91
    if (s.sub i).used then s else
    match s.status with
    | .errored ec e => subTerminal .delete (fresh s i) i (.error ec e)
    | .completed => subTerminal .delete (fresh s i) i (.complete c)
    | .active => register (replayTo (fresh s i) i s.values) i     -- :79 NextWithContext(last.A, last.B)
  | .next c v =>                                                  -- :106-117
    match s.status with
    | .active => broadcastNext { s with values := [(c, v)] } c v
    | _ => s.drop (.next c v)
  | .error c e =>
    unsubscribeAll (match s.status with
      | .active => broadcastTerminal { s with status := .errored c e } (.error c e)
      | _ => s.drop (.error c e))
  | .complete c =>
    unsubscribeAll (match s.status with
      | .active => broadcastTerminal { s with status := .completed } (.complete c)
      | _ => s.drop (.complete c))
  | .unsubscribe i => if (s.sub i).used then subUnsubscribe .delete s i else s

/-! ### replay (subject_replay.go): replays *before* looking at the status -/

def replayStep (cap : Option Nat) (s : State α) : Op α → State α
  | .subscribe i c =>                                             -- :64-95
    if (s.sub i).used then s else
    match s.status with
    | .errored ec e => subTerminal .delete (replayTo (fresh s i) i s.values) i (.error ec e)
    | .completed => subTerminal .delete (replayTo (fresh s i) i s.values) i (.complete c)
    | .active => register (replayTo (fresh s i) i s.values) i
  | .next c v =>                                                  -- :110-126: broadcast, then append, then evict
    match s.status with
    | .active => push cap (broadcastNext s c v) c v
    | _ => s.drop (.next c v)
  | .error c e =>
    unsubscribeAll (match s.status with
      | .active => broadcastTerminal { s with status := .errored c e } (.error c e)
      | _ => s.drop (.error c e))
  | .complete c =>
    unsubscribeAll (match s.status with
      | .active => broadcastTerminal { s with status := .completed } (.complete c)
      | _ => s.drop (.complete c))
  | .unsubscribe i => if (s.sub i).used then subUnsubscribe .delete s i else s

/-! ### async (subject_async.go): remembers the latest value, emits it on completion -/

def asyncStep (s : State α) : Op α → State α
  | .subscribe i c =>                                             -- :61-94
    if (s.sub i).used then s else
    match s.status with
    | .errored ec e => subTerminal .delete (fresh s i) i (.error ec e)
    | .completed => subTerminal .delete (replayTo (fresh s i) i s.values) i (.complete c)  -- :73-79
    | .active => register (fresh s i) i
  | .next c v =>                                                  -- :109-120: remember only
    match s.status with
    | .active => { s with values := [(c, v)] }
    | _ => s.drop (.next c v)
  | .error c e =>
    unsubscribeAll (match s.status with
      | .active => broadcastTerminal { s with status := .errored c e } (.error c e)
      | _ => s.drop (.error c e))
  | .complete c =>                                                -- :149-165: value (stored ctx), then Complete
    unsubscribeAll (match s.status with
      | .active =>
        broadcastTerminal
          (s.values.foldl (fun s p => broadcastNext s p.1 p.2) { s with status := .completed })
          (.complete c)
      | _ => s.drop (.complete c))
  | .unsubscribe i => if (s.sub i).used then subUnsubscribe .delete s i else s

/-! ### unicast (subject_unicast.go): one observer, queue while there is none.
    Sequential reading: the deferred delivery runs right after `s.mu.Unlock()`. -/

def unicastStep (cap : Option Nat) (s : State α) : Op α → State α
  | .subscribe i c =>                                             -- :62-99
    if (s.sub i).used then s else
    match s.status with
    | .errored ec e => subTerminal .clear (fresh s i) i (.error ec e)   -- :71-73 — the queue is NOT replayed
    | .completed => subTerminal .clear (fresh s i) i (.complete c)      -- :74-76 — the queue is NOT replayed
    | .active =>
      match s.observers with
      | _ :: _ => subTerminal .clear (fresh s i) i (.error c (.sentinel 6))  -- :79-82 ErrUnicastSubjectConcurrent
      | [] =>                                                            -- :84-97
        let s1 := replayTo (fresh s i) i s.values
        { s1.modSub i (fun x => { x with td := true }) with values := [], observers := [i] }
  | .next c v =>                                                  -- :107-126
    match s.status with
    | .active =>
      match s.observers with
      | i :: _ => subNext s i c v             -- `defer tmp.NextWithContext(ctx, value)`: after the unlock
      | [] => push cap s c v
    | _ => s.drop (.next c v)
  | .error c e =>                                                 -- :134-155
    match s.status with
    | .active =>
      match s.observers with
      | i :: _ => subTerminal .clear { s with status := .errored c e, observers := [] } i (.error c e)
      | [] => { s with status := .errored c e }.drop (.error c e)
    | _ => s.drop (.error c e)
  | .complete c =>                                                -- :163-183
    match s.status with
    | .active =>
      match s.observers with
      | i :: _ => subTerminal .clear { s with status := .completed, observers := [] } i (.complete c)
      | [] => { s with status := .completed }.drop (.complete c)
    | _ => s.drop (.complete c)
  | .unsubscribe i => if (s.sub i).used then subUnsubscribe .clear s i else s

/-! ### kinds, runs, queries -/

inductive Kind (α : Type)
  | publish
  | behavior (init : α)
  | replay (cap : Option Nat)
  | async
  | unicast (cap : Option Nat)

def Kind.step : Kind α → State α → Op α → State α
  | .publish => publishStep
  | .behavior _ => behaviorStep
  | .replay cap => replayStep cap
  | .async => asyncStep
  | .unicast cap => unicastStep cap

/-- the constructors: `NewBehaviorSubject(initial)` stores `(context.TODO(), initial)` -/
def Kind.init : Kind α → State α
  | .behavior v => { values := [(Ctx.bg, v)] }
  | _ => {}

def runFrom (k : Kind α) (s : State α) (ops : List (Op α)) : State α := ops.foldl k.step s
def run (k : Kind α) (ops : List (Op α)) : State α := runFrom k k.init ops

/-- the states after each operation (for the per-step status line of the correspondence) -/
def scan (k : Kind α) : State α → List (Op α) → List (State α)
  | _, [] => []
  | s, o :: os => k.step s o :: scan k (k.step s o) os

def State.countObservers (s : State α) : Nat := s.observers.length
def State.hasObserver (s : State α) : Bool := !s.observers.isEmpty
def State.isClosed (s : State α) : Bool := match s.status with | .active => false | _ => true
def State.hasThrown (s : State α) : Bool := match s.status with | .errored _ _ => true | _ => false
def State.isCompleted (s : State α) : Bool := match s.status with | .completed => true | _ => false

/-- a subject as a sequential object in the sense of RoModel/Linearizable.lean (operations return
    nothing; their effects are observed by the subscribers) -/
def subjectObj (k : Kind α) : Lin.Obj (State α) (Op α) Unit :=
  { init := k.init, step := fun s o => (k.step s o, ()) }

/-! ### multicast, micro-steps: a broadcast is a loop, and `Unsubscribe` does not take `s.mu`.
    `subscriberImpl.Unsubscribe` (subscriber.go:259-263) is a CAS on the subscriber's own status
    followed by the teardown `s.observers.Delete(index)` — neither waits for the subject's mutex —
    so it can run between two iterations of `broadcastNext`'s `Range` (subject_publish.go:201-206).
    `visitNext` is one such iteration; `broadcastNext s c v = s.observers.foldl (visitNext · · c v) s`. -/

def visitNext (s : State α) (i : Nat) (c : Ctx) (v : α) : State α := subNext s i c v

/-- an operation of a multicast subject as micro-steps: what it does before its broadcast loop(s)
    (`pre`), one function per iteration of the loops (`visits`, over the observers registered when
    the operation took the lock), and what it does afterwards (`post`).  Operations of different
    goroutines never overlap (they hold `s.mu`); only `Unsubscribe` — which takes no subject lock —
    can run between two `visits`.  `C10.micro_agrees`: run without interruption, the micro-steps are
    the atomic step. -/
structure Micro (α : Type) where
  pre : State α
  visits : List (State α → State α)
  post : State α → State α

def nextVisits (s : State α) (c : Ctx) (v : α) : List (State α → State α) :=
  s.observers.map (fun i s' => visitNext s' i c v)

def termVisits (s : State α) (n : Notif α) : List (State α → State α) :=
  s.observers.map (fun i s' => subTerminal .delete s' i n)

/-- `none`: the operation has no broadcast loop (Subscribe, Unsubscribe, anything on a terminated
    subject, async's Next) or belongs to unicast (see `unicastLocked` / `unicastDeliver`) -/
def Kind.micro (k : Kind α) (s : State α) (o : Op α) : Option (Micro α) :=
  match s.status with
  | .active =>
    match k, o with
    | .unicast _, _ => none
    | .publish, .next c v => some ⟨s, nextVisits s c v, id⟩
    | .behavior _, .next c v => some ⟨{ s with values := [(c, v)] }, nextVisits s c v, id⟩
    | .replay cap, .next c v => some ⟨s, nextVisits s c v, fun s' => push cap s' c v⟩
    | .async, .complete c =>
      some ⟨{ s with status := .completed },
            (s.values.map (fun p => nextVisits s p.1 p.2)).flatten ++ termVisits s (.complete c), unsubscribeAll⟩
    | _, .error c e => some ⟨{ s with status := .errored c e }, termVisits s (.error c e), unsubscribeAll⟩
    | _, .complete c => some ⟨{ s with status := .completed }, termVisits s (.complete c), unsubscribeAll⟩
    | _, _ => none
  | _ => none

def Micro.run (m : Micro α) : State α := m.post (m.visits.foldl (fun s f => f s) m.pre)

/-- the same with `f` (an `Unsubscribe` of another goroutine) slipped in after the first `n` visits -/
def Micro.runWith (m : Micro α) (n : Nat) (f : State α → State α) : State α :=
  m.post ((m.visits.drop n).foldl (fun s g => g s) (f ((m.visits.take n).foldl (fun s g => g s) m.pre)))

/-! ### unicast, micro-steps: the part under `s.mu` and the deferred delivery are two actions.
    A thread that called `Next`/`Error`/`Complete` first runs `lockedPart` (atomically, under the
    mutex), which may leave it a pending delivery to the captured subscriber; `deliver` is that
    delivery.  Other operations (`Subscribe`, `Unsubscribe`) can run in between. -/

structure Pending (α : Type) where
  to : Nat
  n : Notif α

/-- what `NextWithContext` / `ErrorWithContext` / `CompleteWithContext` do before `s.mu.Unlock()` -/
def unicastLocked (cap : Option Nat) (s : State α) : Op α → State α × Option (Pending α)
  | .next c v =>
    match s.status with
    | .active =>
      match s.observers with
      | i :: _ => (s, some ⟨i, .next c v⟩)
      | [] => (push cap s c v, none)
    | _ => (s.drop (.next c v), none)
  | .error c e =>
    match s.status with
    | .active =>
      match s.observers with
      | i :: _ => ({ s with status := .errored c e, observers := [] }, some ⟨i, .error c e⟩)
      | [] => ({ s with status := .errored c e }.drop (.error c e), none)
    | _ => (s.drop (.error c e), none)
  | .complete c =>
    match s.status with
    | .active =>
      match s.observers with
      | i :: _ => ({ s with status := .completed, observers := [] }, some ⟨i, .complete c⟩)
      | [] => ({ s with status := .completed }.drop (.complete c), none)
    | _ => (s.drop (.complete c), none)
  | o => (unicastStep cap s o, none)

/-- the deferred call, after the unlock -/
def unicastDeliver (s : State α) (p : Pending α) : State α :=
  match p.n with
  | .next c v => subNext s p.to c v
  | n => subTerminal .clear s p.to n

end Ro.Subj

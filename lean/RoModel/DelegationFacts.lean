/-
  RoModel.DelegationFacts — row types of the two tables that go/extract regenerates for the
  "variants / aliases / Pipe" clauses of C04 (lean/RoGen/Delegation.lean, lean/RoGen/Pipe.lean).
  Plain data; the expected values and the theorems live in RoProps/C04d.lean.
-/
namespace Ro.Facts

/-- an exported function of operator_*.go whose body is a single `return Other(args…)` -/
structure DelegRow where
  name : String
  file : String
  /-- the function finally called -/
  base : String
  /-- "alias" (every parameter forwarded as is, in order) | "adapter" (parameters and function
      literals wrapping the user's callbacks) | "compose" (anything else: curried / nested calls) -/
  kind : String
  /-- the call, normalised: `$k` = k-th parameter, `#k` = k-th parameter of the enclosing literal,
      `_` = unused parameter, type arguments stripped -/
  shape : String
  /-- a literal handed to the base takes an int64 index and does not use it -/
  dropsIndex : Bool
  /-- a literal handed to the base returns its own context parameter among its results -/
  ctxUnchanged : Bool
  /-- a literal handed to the base takes a context and does not use it -/
  ctxIgnored : Bool
deriving DecidableEq, Repr

/-- a function of pipe.go -/
structure PipeRow where
  name : String
  /-- number of operator parameters (0 for the reflective `Pipe` / `PipeOp`) -/
  n : Nat
  /-- "" = nested application of the operators to the source; "PipeN" = hands source and operators
      to that function; "range" = loop over the variadic `operators`, each applied to the accumulator -/
  via : String
  /-- positions (1-based, among the operator parameters) in application order / hand-over order -/
  order : List Nat
  /-- the extractor recognised the shape -/
  ok : Bool
deriving DecidableEq, Repr

end Ro.Facts

/-
  RoModel.Machine — single-source operators as Mealy machines, run between two kernel gates.

  An operator of samber/ro is a closure over a few locals that maps one upstream notification to
  a list of downstream notifications (template: `operator_transformations.go:54-76`). `runOp`
  threads a raw producer script (legal or not) through
      upstream subscriber+observer  →  machine  →  downstream subscriber
  exactly as `observableImpl.SubscribeWithContext` wires them:
   * the upstream gate closes at the source's own terminal, or — when the source is *hot*
     (emits after `Subscribe` returned, so the operator's teardown is registered) — as soon as
     the downstream subscriber closes and unsubscribes upstream;
   * the downstream gate closes at the first terminal the machine emits, or at an external
     `Unsubscribe` (`cut`).
-/
import RoModel.Basic
namespace Ro

structure Machine (σ α β : Type) where
  init : σ
  /-- `false` for the degenerate parameter values where the Go code returns `Empty()` and never
      subscribes to its source (`Take(0)`, `TakeLast(0)`, `Repeat(0)`, …) -/
  subscribes : Bool := true
  /-- emissions made by the subscribe function itself before it subscribes upstream -/
  onSubscribe : σ → Ctx → σ × List (Notif β) := fun s _ => (s, [])
  onNext : σ → Ctx → α → σ × List (Notif β)
  onError : σ → Ctx → Err → σ × List (Notif β)
  onComplete : σ → Ctx → σ × List (Notif β)

variable {σ α β : Type}

/-- the default reactions: forward the error / the completion unchanged
    (`destination.ErrorWithContext`, `destination.CompleteWithContext` passed as callbacks) -/
def fwdE {σ β : Type} (s : σ) (c : Ctx) (e : Err) : σ × List (Notif β) := (s, [.error c e])
def fwdC {σ β : Type} (s : σ) (c : Ctx) : σ × List (Notif β) := (s, [.complete c])

def Machine.step (m : Machine σ α β) (s : σ) : Notif α → σ × List (Notif β)
  | .next c v => m.onNext s c v
  | .error c e => m.onError s c e
  | .complete c => m.onComplete s c

/-- every emission the machine makes for a script, ungated -/
def Machine.emits (m : Machine σ α β) : σ → List (Notif α) → List (Notif β)
  | _, [] => []
  | s, x :: xs => (m.step s x).2 ++ m.emits (m.step s x).1 xs

/-- the state after a script -/
def Machine.after (m : Machine σ α β) : σ → List (Notif α) → σ
  | s, [] => s
  | s, x :: xs => m.after (m.step s x).1 xs

inductive SrcMode
  | sync   -- the source emits its whole script inside `Subscribe`
  | hot    -- the source emits after `Subscribe` has returned
deriving DecidableEq, Repr

inductive Drop (α β : Type)
  | up (n : Notif α)     -- refused by the operator's upstream subscriber
  | down (n : Notif β)   -- refused by the downstream subscriber
deriving Repr

structure RunSt (σ α β : Type) where
  st : σ
  upOpen : Bool := true
  downOpen : Bool := true
  out : List (Notif β) := []
  drops : List (Drop α β) := []
  steps : List Nat := []

/-- hand one emission to the downstream subscriber -/
def RunSt.push (r : RunSt σ α β) (n : Notif β) : RunSt σ α β :=
  if r.downOpen then
    { r with out := r.out ++ [n], downOpen := !n.isTerminal }
  else
    { r with drops := r.drops ++ [.down n] }

def RunSt.pushAll (r : RunSt σ α β) (ns : List (Notif β)) : RunSt σ α β :=
  ns.foldl RunSt.push r

/-- bookkeeping after one upstream notification has been handled: the upstream gate is closed by
    the source's own terminal, or (hot source) by the downstream having closed -/
def RunSt.settle (r1 : RunSt σ α β) (mode : SrcMode) (xTerminal : Bool) (before : Nat) : RunSt σ α β :=
  { r1 with upOpen := !(xTerminal || (mode == SrcMode.hot && !r1.downOpen)),
            steps := r1.steps ++ [r1.out.length - before] }

/-- one upstream notification -/
def RunSt.feed (m : Machine σ α β) (mode : SrcMode) (r : RunSt σ α β) (x : Notif α) : RunSt σ α β :=
  if r.upOpen then
    (({ r with st := (m.step r.st x).1 }).pushAll (m.step r.st x).2).settle mode x.isTerminal r.out.length
  else
    { r with drops := r.drops ++ [.up x], steps := r.steps ++ [0] }

/-- the state right after the subscribe function has made its own emissions -/
def Machine.start (m : Machine σ α β) (sub : Ctx) : RunSt σ α β :=
  ({ st := (m.onSubscribe m.init sub).1 } : RunSt σ α β).pushAll (m.onSubscribe m.init sub).2

/-- When `Subscribe` returns, the teardown the subscribe function returned is added to the
    subscription; if the downstream subscriber is already closed (the operator emitted a terminal
    by itself) it runs at once (`subscription.go:78-91`) and a hot source is unsubscribed before it
    emits anything. A synchronous source has emitted everything before that point. -/
def RunSt.afterSubscribe (r : RunSt σ α β) (mode : SrcMode) : RunSt σ α β :=
  if mode == SrcMode.hot && !r.downOpen then { r with upOpen := false } else r

/-- Run a raw script. `sub` is the subscription context. -/
def runOp (m : Machine σ α β) (mode : SrcMode) (sub : Ctx) (raw : List (Notif α)) : RunSt σ α β :=
  let r0 := m.start sub
  if m.subscribes then raw.foldl (RunSt.feed m mode) (r0.afterSubscribe mode) else r0

/-- Run a raw script and call `Unsubscribe` from outside after `k` notifications (hot sources). -/
def runOpCut (m : Machine σ α β) (sub : Ctx) (raw : List (Notif α)) (k : Nat) : RunSt σ α β :=
  let r0 := m.start sub
  if m.subscribes then
    let r1 := (raw.take k).foldl (RunSt.feed m .hot) (r0.afterSubscribe .hot)
    (raw.drop k).foldl (RunSt.feed m .hot) { r1 with upOpen := false, downOpen := false }
  else r0

/-- post-compose the emitted values with a function (used by the driver to re-type outputs) -/
def Machine.mapOut {γ : Type} (m : Machine σ α β) (f : β → γ) : Machine σ α γ where
  init := m.init
  subscribes := m.subscribes
  onSubscribe s c := ((m.onSubscribe s c).1, (m.onSubscribe s c).2.map (Notif.mapVal f))
  onNext s c v := ((m.onNext s c v).1, (m.onNext s c v).2.map (Notif.mapVal f))
  onError s c e := ((m.onError s c e).1, (m.onError s c e).2.map (Notif.mapVal f))
  onComplete s c := ((m.onComplete s c).1, (m.onComplete s c).2.map (Notif.mapVal f))

/-- Sequential composition `source |> m1 |> m2` as one machine: `m1`'s emissions pass the
    subscriber/observer pair between the two operators (closed by `m1`'s first terminal) and
    are fed to `m2`. State: (σ₁, σ₂, middle gate open). -/
def Machine.seq {σ₂ γ : Type} (m1 : Machine σ α β) (m2 : Machine σ₂ β γ) : Machine (σ × σ₂ × Bool) α γ :=
  let feedMid : σ₂ × Bool → List (Notif β) → (σ₂ × Bool) × List (Notif γ) := fun s ns =>
    ns.foldl (fun (acc : (σ₂ × Bool) × List (Notif γ)) n =>
      if acc.1.2 then (((m2.step acc.1.1 n).1, !n.isTerminal), acc.2 ++ (m2.step acc.1.1 n).2) else acc) (s, [])
  { init := (m1.init, m2.init, true)
    subscribes := m1.subscribes   -- m2 always subscribes to m1's observable
    onSubscribe := fun s c =>
      -- m2's subscribe function runs first, then (inside it) m1's
      let r2 := m2.onSubscribe s.2.1 c
      let r1 := m1.onSubscribe s.1 c
      let mid := feedMid (r2.1, s.2.2) r1.2
      ((r1.1, mid.1.1, mid.1.2), r2.2 ++ mid.2)
    onNext := fun s c v =>
      let r1 := m1.onNext s.1 c v
      let mid := feedMid (s.2.1, s.2.2) r1.2
      ((r1.1, mid.1.1, mid.1.2), mid.2)
    onError := fun s c e =>
      let r1 := m1.onError s.1 c e
      let mid := feedMid (s.2.1, s.2.2) r1.2
      ((r1.1, mid.1.1, mid.1.2), mid.2)
    onComplete := fun s c =>
      let r1 := m1.onComplete s.1 c
      let mid := feedMid (s.2.1, s.2.2) r1.2
      ((r1.1, mid.1.1, mid.1.2), mid.2) }

/-- Number of times the source is subscribed by one subscription of the operator. -/
def Machine.subs (m : Machine σ α β) : Nat := if m.subscribes then 1 else 0

end Ro

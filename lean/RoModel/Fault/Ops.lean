/-
  RoModel.Fault.Ops — where each catalogue operator's closure calls user code (`FMachine`s over the
  machines of RoModel/Ops/*), plus the three operators whose user callback sits in Error /
  Complete / subscribe position (`Tap`, `Catch`, `TapOnSubscribe`; `ThrowIfEmpty`'s machine exists).

  Each `callsN` is read off the Go closure: the line that invokes the user callback is the first
  statement executed by the Next callback in the states named, and the closure's locals are
  assigned only after it returned (Go evaluates the call before the assignment), so a panic leaves
  the state untouched. Line numbers refer to the `…IWithContext` body every variant delegates to.
-/
import RoModel.Fault
import RoModel.Ops.Aggregate
namespace Ro.Fault
open Ro
variable {α β κ : Type}

/-- an operator without user callbacks -/
def plain {σ : Type} (m : Machine σ α β) : FMachine σ α β := { base := m }

/-- the Next callback always starts by invoking the user callback -/
def always {σ : Type} (m : Machine σ α β) : FMachine σ α β := { base := m, callsN := fun _ _ _ => true }

/-- operator_filter.go:58-65 -/
def filterF (p : Pred α) := always (filterM p)
/-- operator_filter.go:120-127 -/
def distinctByF [DecidableEq κ] (key : Ctx → α → Ctx × κ) := always (distinctByM key)
/-- operator_filter.go:237-247: the predicate is called only while skipping -/
def skipWhileF (p : Pred α) : FMachine (Bool × Nat) α α := { base := skipWhileM p, callsN := fun s _ _ => s.1 }
/-- operator_filter.go:427-438: the predicate is called only until it was false once -/
def takeWhileF (p : Pred α) : FMachine (Bool × Nat) α α := { base := takeWhileM p, callsN := fun s _ _ => !s.1 }
/-- operator_filter.go:644-651 -/
def firstF (p : Pred α) := always (firstM p)
/-- operator_filter.go:702-709 -/
def lastF (p : Pred α) := always (lastM p)
/-- operator_transformations.go:62-67 -/
def mapF (f : Ctx → α → Nat → Ctx × β) := always (mapM f)
/-- operator_transformations.go:135-145: `count++` and `destination.Error(ctx', err)` with the
    context the callback returned -/
def mapErrF (f : Ctx → α → Nat → β × Ctx × Option Err) : FMachine Nat α β :=
  { base := mapErrM f, callsN := fun _ _ _ => true,
    onErrRet := some (fun i c v e => (i + 1, [.error (f c v i).2.1 e])) }
/-- operator_transformations.go:292-297 -/
def scanF (f : Ctx → β → α → Nat → Ctx × β) (seed : β) := always (scanM f seed)
/-- operator_sink.go:94-98 -/
def toMapF [DecidableEq κ] (kv : Ctx → α → Nat → κ × β) := always (toMapM kv)
/-- operator_conditional.go:57-62: the predicate is called only while every answer was true -/
def allF (p : Ctx → α → Nat → Bool) : FMachine (Bool × Nat) α Bool := { base := allM p, callsN := fun s _ _ => s.1 }
/-- operator_conditional.go:109-117 -/
def containsF (p : Ctx → α → Nat → Bool) := always (containsM p)
/-- operator_conditional.go:164-172 -/
def findF (p : Ctx → α → Nat → Bool) := always (findM p)
/-- operator_math.go:859-862 -/
def reduceF (f : Ctx → β → α → Nat → Ctx × β) (seed : β) := always (reduceM f seed)

/-- `TapWithContext` (operator_utility.go:56-67): each of the three callbacks calls the user's
    function first and forwards afterwards -/
def tapF : FMachine Unit α α :=
  { base := idM, callsN := fun _ _ _ => true, callsE := fun _ => true, callsC := fun _ => true }

/-- `ThrowIfEmpty` (operator_error_handling.go:239-245): `throw()` is called at completion when
    nothing was seen -/
def throwIfEmptyF (e : Err) : FMachine Bool α α := { base := throwIfEmptyM e, callsC := fun s => !s }

/-- `Catch(finally)` (operator_error_handling.go:26-49) with a fallback observable that plays a
    fixed script: values pass, an error subscribes the destination to `finally(err)` with the
    error's context -/
def catchM (fb : Ctx → Err → List (Notif α)) : Machine Unit α α where
  init := ()
  onNext s c v := (s, [.next c v])
  onError s c e := (s, fb c e)
  onComplete := fwdC

def catchF (fb : Ctx → Err → List (Notif α)) : FMachine Unit α α :=
  { base := catchM fb, callsE := fun _ => true, tdWraps := 2 }

/-- `TapOnSubscribe` (operator_utility.go:177-186): the callback runs before the source is subscribed -/
def tapOnSubscribeF : FMachine Unit α α := { base := idM, callsS := true }

end Ro.Fault

/-
  RoModel.EmitLockFacts — row types of the regenerated table RoGen.EmitLocks (go/extract/emitlock.go)
  and the model behind its predicate.

  A downstream that closes the subscription from INSIDE the delivery of a notification (Take, First,
  TakeWhile … completing on that value; an observer that unsubscribes in its Next callback) runs
  `Unsubscribe` — hence the operator's teardown and every finalizer it registered
  (subscription.go:114-150, on the calling goroutine) — while the operator is still in the middle of
  its emission.  Go's `sync.Mutex` and the spin lock of internal/xsync are not re-entrant: if the
  emission holds lock `l` and the teardown acquires `l`, the goroutine waits for itself.
-/
namespace Ro.EmitLockFacts

/-- an emission site (a call of Next/Error/Complete[WithContext], or of a notification helper that
    receives the destination) in one of the contexts it runs in, with the operator-local locks held -/
structure EmitRow where
  op : String
  file : String
  line : Nat
  kind : String
  ctx : String
  held : List Nat
deriving DecidableEq, Repr

/-- the locks acquired by the teardown the subscribe function returns / by the finalizers it registers -/
structure TdRow where
  op : String
  locks : List Nat
deriving DecidableEq, Repr

def tdLocksOf (td : List TdRow) (op : String) : List Nat :=
  (td.filter (fun r => r.op = op)).flatMap (fun r => r.locks)

/-- no lock held at the emission is one the operator's teardown takes -/
def emitOk (td : List TdRow) (e : EmitRow) : Bool :=
  e.held.all (fun l => !(tdLocksOf td e.op).contains l)

def tableOk (emits : List EmitRow) (td : List TdRow) : Bool := emits.all (emitOk td)

def badRows (emits : List EmitRow) (td : List TdRow) : List EmitRow := emits.filter (fun e => !emitOk td e)

/-! ### the model: the teardown run by the goroutine that is emitting -/

inductive Outcome
  | returns
  | stuck (l : Nat)     -- waits for a lock it holds itself: never returns, nobody else can release it
deriving DecidableEq, Repr

/-- the teardown's lock acquisitions (each released before the next), run by a goroutine that already
    holds `held` (non-reentrant locks; locks held by OTHER goroutines are released eventually and only
    delay the acquisition) -/
def teardownInside (held : List Nat) : List Nat → Outcome
  | [] => .returns
  | l :: rest => if held.contains l then .stuck l else teardownInside held rest

end Ro.EmitLockFacts

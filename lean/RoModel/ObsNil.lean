/-
  RoModel.ObsNil — `observerImpl` (observer.go:93-200) built by `NewObserverWithContext` with any of its three callbacks
  nil, under a panicking Next callback. Read line by line from the pinned tree:

    NextWithContext      onNext == nil || status != 0  → OnDroppedNotification(Next v);            else tryNext
    ErrorWithContext     onError == nil || !CAS(0→1)   → OnDroppedNotification(Error e);           else tryError
    CompleteWithContext  onComplete == nil || !CAS(0→2) → OnDroppedNotification(Complete);          else tryComplete
    tryNext              the callback panics with p: err := ro.Observer: p;
                         onError == nil → OnUnhandledError(err)    else tryError(err)  (status is NOT changed: the listed C01/C07 finding)

  `fault k` = what the k-th invocation of the Next callback panics with (none: it returns). Core Lean only.
-/
import RoModel.Basic
namespace Ro.ObsNil
open Ro

structure Cfg where
  hasNext : Bool
  hasError : Bool
  hasComplete : Bool
deriving DecidableEq, Repr

structure St where
  status : Nat := 0
  /-- what the user's callbacks saw -/
  trace : List (Notif Int) := []
  /-- `OnDroppedNotification` -/
  dropped : List (Notif Int) := []
  /-- `OnUnhandledError` -/
  unhandled : List Err := []
  /-- invocations of the Next callback so far -/
  calls : Nat := 0
deriving Repr

def step (cfg : Cfg) (fault : Nat → Option Err) (s : St) : Notif Int → St
  | .next c v =>
    if !cfg.hasNext || s.status != 0 then { s with dropped := s.dropped ++ [.next c v] }
    else
      match fault s.calls with
      | none => { s with calls := s.calls + 1, trace := s.trace ++ [.next c v] }
      | some p =>
        if cfg.hasError then { s with calls := s.calls + 1, trace := s.trace ++ [.error c (.observer p)] }
        else { s with calls := s.calls + 1, unhandled := s.unhandled ++ [.observer p] }
  | .error c e =>
    if !cfg.hasError || s.status != 0 then { s with dropped := s.dropped ++ [.error c e] }
    else { s with status := 1, trace := s.trace ++ [.error c e] }
  | .complete c =>
    if !cfg.hasComplete || s.status != 0 then { s with dropped := s.dropped ++ [.complete c] }
    else { s with status := 2, trace := s.trace ++ [.complete c] }

def run (cfg : Cfg) (fault : Nat → Option Err) (script : List (Notif Int)) : St := script.foldl (step cfg fault) {}

end Ro.ObsNil

/-
  RoModel.LockFacts — row types of the `Locksets` table (lean/RoGen/Locksets.lean) that
  go/extract/locksets.go regenerates from the repository under check: one row per access to a
  shared location (a field of a kernel struct, or a captured variable of an operator that is written
  after its declaration and reachable from several emission contexts). Plain data; the decidable
  predicate over it is RoModel.LocksetPreds, the machine it is about is RoModel.Lockset.
-/
namespace Ro.LockFacts

/-- where an access runs, relative to the function `D` that declares the variable
    (for struct fields: `ctor` or `method`) -/
inductive EmCtx
  | ctor                                  -- composite literal building the struct
  | body                                  -- D's own statements: one goroutine per instance of the variable
  | teardown                              -- the literal D returns as its Teardown: after D, at most once
  | awaitedCb (site : Nat)                -- callbacks of a subscription D's body waits for (`sub.Wait()`)
  | sourceCb (site : Nat) (multi : Bool)  -- observer callbacks handed to the SubscribeWithContext call at line `site`;
                                          --   multi: the site can be live several times per instance
  | goBody (site : Nat) (multi : Bool)    -- body of a go statement
  | timerCb (site : Nat) (multi : Bool)   -- time.AfterFunc callback
  | finalizer (site : Nat) (multi : Bool) -- literal given to Subscription.Add / returned by an inner function
  | subscribeCall (site : Nat)            -- the subscribe function of an observable (variable declared outside it)
  | application (site : Nat)              -- a function value returned by D that is not its teardown
  | method                                -- method of a shared struct: any goroutine, any number of times
  | escaped                               -- handed to something the extractor does not follow
deriving DecidableEq, Repr

/-- how an access is protected. `atomic` / `under` are synchronisation; the next four name the
    structural happens-before rule a *plain* access relies on (its context class); `none` /
    `unknown`: nothing recognised. -/
inductive Prot
  | atomic
  | under (locks : List Nat)
  | initBeforePublication
  | subscribeBodyBeforeTeardown
  | sameSequentialSource
  | awaitedSourceBeforeContinuation
  | none
  | unknown
deriving DecidableEq, Repr

structure Access where
  line : Nat
  write : Bool
  fn : String
  ctx : EmCtx
  prot : Prot
deriving DecidableEq, Repr

/-- all recorded accesses to one location -/
structure Loc where
  name : String      -- "subscriptionImpl.done", "BufferWithCount.buffer"
  file : String
  rows : List Access
deriving Repr

end Ro.LockFacts

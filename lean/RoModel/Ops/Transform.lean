/-
  RoModel.Ops.Transform — machines for the single-source operators of operator_transformations.go
  and the single-source ones of operator_combining.go / operator_utility.go / operator_sink.go.
-/
import RoModel.Ops.Filter
namespace Ro
variable {α β κ : Type}

/-- `MapIWithContext`: the projection may replace the context -/
def mapM (f : Ctx → α → Nat → Ctx × β) : Machine Nat α β where
  init := 0
  onNext i c v := (i + 1, [.next (f c v i).1 (f c v i).2])
  onError := fwdE
  onComplete := fwdC

/-- `MapTo` -/
def mapToM (b : β) : Machine Unit α β where
  init := ()
  onNext s c _ := (s, [.next c b])
  onError := fwdE
  onComplete := fwdC

/-- `MapErrIWithContext`: `none` error = value; the machine keeps running after its own error
    (the downstream gate refuses what follows) -/
def mapErrM (f : Ctx → α → Nat → β × Ctx × Option Err) : Machine Nat α β where
  init := 0
  onNext i c v := (i + 1, match (f c v i).2.2 with
    | some e => [.error (f c v i).2.1 e]
    | none => [.next (f c v i).2.1 (f c v i).1])
  onError := fwdE
  onComplete := fwdC

/-- `Flatten` -/
def flattenM : Machine Unit (List α) α where
  init := ()
  onNext s c vs := (s, vs.map (Notif.next c))
  onError := fwdE
  onComplete := fwdC

/-- `ScanIWithContext` — state: (accumulator, i) -/
def scanM (f : Ctx → β → α → Nat → Ctx × β) (seed : β) : Machine (β × Nat) α β where
  init := (seed, 0)
  onNext s c v := (((f c s.1 v s.2).2, s.2 + 1), [.next (f c s.1 v s.2).1 (f c s.1 v s.2).2])
  onError := fwdE
  onComplete := fwdC

/-- `BufferWithCount(size)`, size ≥ 1 -/
def bufferCountM (size : Nat) : Machine (List α) α (List α) where
  init := []
  onNext buf c v := if (buf ++ [v]).length ≥ size then ([], [.next c (buf ++ [v])]) else (buf ++ [v], [])
  onError := fwdE
  onComplete buf c := (buf, (if buf.length > 0 then [.next c buf] else []) ++ [.complete c])

/-- `Pairwise` — state: previous value -/
def pairwiseM : Machine (Option α) α (List α) where
  init := none
  onNext s c v := (some v, match s with | some p => [.next c [p, v]] | none => [])
  onError := fwdE
  onComplete := fwdC

/-- `StartWith(prefixes…)`: emits at subscription with the subscriber context, then passes through -/
def startWithM (pre : List α) : Machine Unit α α where
  init := ()
  onSubscribe s c := (s, pre.map (Notif.next c))
  onNext s c v := (s, [.next c v])
  onError := fwdE
  onComplete := fwdC

/-- `EndWith(suffixes…)` -/
def endWithM (suf : List α) : Machine Unit α α where
  init := ()
  onNext s c v := (s, [.next c v])
  onError := fwdE
  onComplete s c := (s, suf.map (Notif.next c) ++ [.complete c])

/-- the identity pass-through (`TapOnSubscribe`, `TapOnFinalize`, `Serialize`, and `Tap` as far
    as the stream is concerned) -/
def idM : Machine Unit α α where
  init := ()
  onNext s c v := (s, [.next c v])
  onError := fwdE
  onComplete := fwdC

/-- `OnErrorReturn(v)` -/
def onErrorReturnM (v : α) : Machine Unit α α where
  init := ()
  onNext s c x := (s, [.next c x])
  onError s c _ := (s, [.next c v, .complete c])
  onComplete := fwdC

/-- `ThrowIfEmpty(throw)` — state: count > 0 -/
def throwIfEmptyM (e : Err) : Machine Bool α α where
  init := false
  onNext _ c v := (true, [.next c v])
  onError := fwdE
  onComplete s c := (s, if s then [.complete c] else [.error c e])

/-- `Materialize` -/
def materializeM : Machine Unit α (Notif α) where
  init := ()
  onNext s c v := (s, [.next c (.next c v)])
  onError s c e := (s, [.next c (.error c e), .complete c])
  onComplete s c := (s, [.next c (.complete c), .complete c])

/-- `Dematerialize`: a materialised notification is replayed with the context of the value
    that carries it -/
def dematerializeM : Machine Unit (Notif α) α where
  init := ()
  onNext s c n := (s, [match n with
    | .next _ v => .next c v
    | .error _ e => .error c e
    | .complete _ => .complete c])
  onError := fwdE
  onComplete := fwdC

/-- `ToSlice` -/
def toSliceM : Machine (List α) α (List α) where
  init := []
  onNext acc _ v := (acc ++ [v], [])
  onError := fwdE
  onComplete acc c := (acc, [.next c acc, .complete c])

/-- association list with last-write-wins, keys kept in first-insertion order (the harness
    sorts map outputs, so only the key→value relation matters) -/
def assocSet [DecidableEq κ] (m : List (κ × β)) (k : κ) (v : β) : List (κ × β) :=
  if m.any (fun p => p.1 == k) then m.map (fun p => if p.1 = k then (k, v) else p) else m ++ [(k, v)]

/-- `ToMapIWithContext` -/
def toMapM [DecidableEq κ] (kv : Ctx → α → Nat → κ × β) : Machine (List (κ × β) × Nat) α (List (κ × β)) where
  init := ([], 0)
  onNext s c v := ((assocSet s.1 (kv c v s.2).1 (kv c v s.2).2, s.2 + 1), [])
  onError := fwdE
  onComplete s c := (s, [.next c s.1, .complete c])

end Ro

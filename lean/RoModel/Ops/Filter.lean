/-
  RoModel.Ops.Filter — machines for operator_filter.go (single-source operators).
  Each machine is a line-by-line reading of the Go closure named in its doc comment:
  the state is the closure's locals, the three reactions are the three observer callbacks.
-/
import RoModel.Machine
namespace Ro
variable {α β κ : Type}

/-- a user predicate of an `…IWithContext` operator: may replace the context -/
abbrev Pred (α : Type) := Ctx → α → Nat → Ctx × Bool


/-- `FilterIWithContext` (operator_filter.go) -/
def filterM (p : Pred α) : Machine Nat α α where
  init := 0
  onNext i c v := (i + 1, if (p c v i).2 then [.next (p c v i).1 v] else [])
  onError := fwdE
  onComplete := fwdC

/-- `DistinctByWithContext` / `Distinct` — state: the keys seen so far -/
def distinctByM [DecidableEq κ] (key : Ctx → α → Ctx × κ) : Machine (List κ) α α where
  init := []
  onNext seen c v :=
    if (key c v).2 ∈ seen then (seen, []) else ((key c v).2 :: seen, [.next (key c v).1 v])
  onError := fwdE
  onComplete := fwdC

/-- `IgnoreElements` -/
def ignoreElementsM : Machine Unit α α where
  init := ()
  onNext s _ _ := (s, [])
  onError := fwdE
  onComplete := fwdC

/-- `Skip(count)` -/
def skipM (count : Nat) : Machine Nat α α where
  init := 0
  onNext i c v := (i + 1, if i ≥ count then [.next c v] else [])
  onError := fwdE
  onComplete := fwdC

/-- `SkipWhileIWithContext` — state: (skipping, i). The predicate is not called once skipping
    has stopped. -/
def skipWhileM (p : Pred α) : Machine (Bool × Nat) α α where
  init := (true, 0)
  onNext s c v :=
    if !s.1 then ((false, s.2 + 1), [.next c v])
    else if (p c v s.2).2 then ((true, s.2 + 1), [])
    else ((false, s.2 + 1), [.next (p c v s.2).1 v])
  onError := fwdE
  onComplete := fwdC

/-- `SkipLast(count)`, count ≥ 1 — the ring buffer is modelled as a FIFO of (ctx, value) -/
def skipLastM (count : Nat) : Machine (List (Ctx × α)) α α where
  init := []
  onNext q c v :=
    if q.length < count then (q ++ [(c, v)], [])
    else match q with
      | [] => ([(c, v)], [])       -- unreachable for count ≥ 1
      | (c0, v0) :: rest => (rest ++ [(c, v)], [.next c0 v0])
  onError := fwdE
  onComplete := fwdC

/-- `Take(count)`, count ≥ 1 (count = 0 is `takeZeroM`) -/
def takeM (count : Nat) : Machine Nat α α where
  init := 0
  onNext i c v := (i + 1, if i + 1 ≥ count then [.next c v, .complete c] else [.next c v])
  onError := fwdE
  onComplete := fwdC

/-- `Take(0)`, `TakeLast(0)`, …: `Empty()`; the source is never subscribed -/
def emptyM : Machine Unit α β where
  init := ()
  subscribes := false
  onSubscribe s c := (s, [.complete c])
  onNext s _ _ := (s, [])
  onError s _ _ := (s, [])
  onComplete s _ := (s, [])

/-- `TakeWhileIWithContext` — state: (skipping, i) -/
def takeWhileM (p : Pred α) : Machine (Bool × Nat) α α where
  init := (false, 0)
  onNext s c v :=
    if s.1 then ((true, s.2 + 1), [])
    else if (p c v s.2).2 then ((false, s.2 + 1), [.next (p c v s.2).1 v])
    else ((true, s.2 + 1), [.complete (p c v s.2).1])
  onError s c e := (s, if s.1 then [] else [.error c e])
  onComplete s c := (s, if s.1 then [] else [.complete c])

/-- `TakeLast(count)`, count ≥ 1 — state: the last `count` (ctx, value) pairs -/
def takeLastM (count : Nat) : Machine (List (Ctx × α)) α α where
  init := []
  onNext q c v := ((if q.length ≥ count then q.drop 1 else q) ++ [(c, v)], [])
  onError := fwdE
  onComplete q c := (q, q.map (fun p => Notif.next p.1 p.2) ++ [.complete c])

/-- `Head` -/
def headM : Machine Unit α α where
  init := ()
  onNext s c v := (s, [.next c v, .complete c])
  onError := fwdE
  onComplete s c := (s, [.error c (.sentinel 1)])   -- ErrHeadEmpty

/-- `Tail` — state: last (ctx, value) -/
def tailM : Machine (Option (Ctx × α)) α α where
  init := none
  onNext _ c v := (some (c, v), [])
  onError := fwdE
  onComplete s c := (s, match s with
    | some (c0, v0) => [.next c0 v0, .complete c]
    | none => [.error c (.sentinel 2)])             -- ErrTailEmpty

/-- `FirstIWithContext` — the predicate keeps being evaluated after the match -/
def firstM (p : Pred α) : Machine Nat α α where
  init := 0
  onNext i c v := (i + 1, if (p c v i).2 then [.next (p c v i).1 v, .complete (p c v i).1] else [])
  onError := fwdE
  onComplete s c := (s, [.error c (.sentinel 3)])   -- ErrFirstEmpty

/-- `LastIWithContext` — state: (last match with the predicate's context, i) -/
def lastM (p : Pred α) : Machine (Option (Ctx × α) × Nat) α α where
  init := (none, 0)
  onNext s c v := ((if (p c v s.2).2 then some ((p c v s.2).1, v) else s.1, s.2 + 1), [])
  onError := fwdE
  onComplete s c := (s, match s.1 with
    | some (c0, v0) => [.next c0 v0, .complete c0]
    | none => [.error c (.sentinel 4)])             -- ErrLastEmpty

/-- `ElementAt(nth)` — the counter stops at the match, so later values match again (and are
    refused downstream) -/
def elementAtM (nth : Nat) : Machine Nat α α where
  init := 0
  onNext n c v := if n = nth then (n, [.next c v, .complete c]) else (n + 1, [])
  onError := fwdE
  onComplete s c := (s, [.error c (.sentinel 5)])   -- ErrElementAtNotFound

/-- `ElementAtOrDefault(nth, fallback)` -/
def elementAtOrDefaultM (nth : Nat) (fallback : α) : Machine Nat α α where
  init := 0
  onNext n c v := if n = nth then (n, [.next c v, .complete c]) else (n + 1, [])
  onError := fwdE
  onComplete s c := (s, [.next c fallback, .complete c])

end Ro

/-
  RoModel.Ops.Create — the synchronous creation operators of operator_creation.go.

  A creation operator has no source: its subscribe function emits a script synchronously,
  *inside* `Subscribe`, into the subscriber that `observableImpl.SubscribeWithContext` wrapped
  around the destination (observable.go:303-321), and it **keeps looping after that subscriber has
  closed** (`Just(1,2,3) |> Take(1)`: 2 and 3 are still offered and refused). Every notification
  carries the subscription context. A panic escaping the subscribe function (a panicking `Start`
  callback, a panicking `Defer` factory) is recovered by `SubscribeWithContext` and delivered as
  `Error(observableError(p))` with the subscription context (observable.go:313-317).

  So a creation operator is a *script generator*: `Gen α = Ctx → Emission α`; subscribing it
  directly delivers `gate` of the generated script, and putting a machine `m` downstream is
  `runOp m .sync sub script` — the existing machinery with a synchronous source.
-/
import RoModel.Machine
namespace Ro
variable {α : Type}

/-- what one execution of a subscribe function does: the notifications it offers, in order, then
    possibly a panic that escapes it -/
structure Emission (α : Type) where
  script : List (Notif α)
  panic : Option Err := none
  /-- user callbacks invoked by this execution (`Start`'s callback, `Defer`'s factory, `Iif`'s predicate) -/
  calls : Nat := 0

/-- a creation operator: subscription context ↦ what its subscribe function does -/
abbrev Gen (α : Type) := Ctx → Emission α

/-- the outcome of a user callback: a value or a panic -/
inductive Outcome (α : Type)
  | ok (v : α)
  | panic (e : Err)

/-- the raw script the subscriber sees: the offered notifications, then the recovered panic
    wrapped as `observableError` (observable.go:313-317) -/
def Emission.raw (em : Emission α) (sub : Ctx) : List (Notif α) :=
  em.script ++ (match em.panic with | some e => [.error sub (.observable e)] | none => [])

/-- `Of(values…)` / `Just(values…)` (operator_creation.go:28-44) -/
def ofG (vs : List α) : Gen α := fun c =>
  { script := vs.foldr (fun v acc => .next c v :: acc) [.complete c] }

/-- `FromSlice(collections…)` (operator_creation.go:371-383): two nested loops -/
def fromSliceG (vss : List (List α)) : Gen α := fun c =>
  { script := vss.foldr (fun vs acc => vs.foldr (fun v acc' => .next c v :: acc') acc) [.complete c] }

/-- `Empty()` (operator_creation.go:387-393) -/
def emptyG : Gen α := fun c => { script := [.complete c] }

/-- `Throw(err)` (operator_creation.go:429-436) -/
def throwG (e : Err) : Gen α := fun c => { script := [.error c e] }

/-- the loop of `Range` (operator_creation.go:185-190): `for cursor*sign < end*sign { emit cursor;
    cursor += sign }`, with the number of iterations bounded by `fuel` -/
def rangeLoop (sign endv : Int) : Nat → Int → List Int
  | 0, _ => []
  | fuel + 1, cursor =>
    if cursor * sign < endv * sign then cursor :: rangeLoop sign endv fuel (cursor + sign) else []

/-- `Range(start, end)` (operator_creation.go:172-195): `start = end` returns `Empty()`; otherwise
    step +1 or −1 from `start` up/down to but excluding `end` -/
def rangeG (start endv : Int) : Gen Int :=
  if start = endv then emptyG
  else
    let sign : Int := if start > endv then -1 else 1
    fun c => { script := (rangeLoop sign endv (endv - start).natAbs start).map (Notif.next c) ++ [.complete c] }

/-- the loop of `RangeWithStep` (operator_creation.go:229-234) with integral bounds and step:
    `for cursor*sign < end*sign { emit cursor; cursor += step*sign }`, iterations bounded by `fuel` -/
def rangeStepLoop (sign step endv : Int) : Nat → Int → List Int
  | 0, _ => []
  | fuel + 1, cursor =>
    if cursor * sign < endv * sign then cursor :: rangeStepLoop sign step endv fuel (cursor + step * sign) else []

/-- `RangeWithStep(start, end, step)` (operator_creation.go:213-240) over integral floats (float arithmetic on
    integers of this size is exact): `start = end` returns `Empty()`; `step ≤ 0` panics at construction and is not
    a value of this model -/
def rangeStepG (start endv step : Int) : Gen Int :=
  if start = endv then emptyG
  else
    let sign : Int := if start > endv then -1 else 1
    fun c => { script := (rangeStepLoop sign step endv (endv - start).natAbs start).map (Notif.next c) ++ [.complete c] }

/-- the loop of `Repeat` (operator_creation.go:311-313) -/
def repeatLoop (c : Ctx) (item : α) : Nat → List (Notif α)
  | 0 => []
  | n + 1 => .next c item :: repeatLoop c item n

/-- `Repeat(item, count)` (operator_creation.go:303-320): `count = 0` returns `Empty()`
    (`count < 0` panics at construction and is not a value of this model) -/
def repeatG (item : α) (count : Nat) : Gen α :=
  if count = 0 then emptyG else fun c => { script := repeatLoop c item count ++ [.complete c] }

/-- `Start(cb)` (operator_creation.go:48-55): `destination.Next(ctx, cb())` — a panicking callback
    escapes before anything is emitted -/
def startG (cb : Outcome α) : Gen α := fun c =>
  match cb with
  | .ok v => { script := [.next c v, .complete c], calls := 1 }
  | .panic e => { script := [], panic := some e, calls := 1 }

/-- `Defer(factory)` (operator_creation.go:444-450): the factory is called at each subscription
    and the observable it returns is subscribed with the same context and the same destination
    (pass-through); a panicking factory escapes the subscribe function -/
def deferG (factory : Outcome (Gen α)) : Gen α := fun c =>
  match factory with
  | .ok g =>
    -- the inner SubscribeWithContext recovers the inner panic itself and reports it through the
    -- (shared) subscriber: nothing escapes the outer subscribe function
    { script := (g c).raw c, calls := 1 + (g c).calls }
  | .panic e => { script := [], panic := some e, calls := 1 }

/-- `Iif(predicate, source1, source2)` (operator_conditional.go:186-194): a thunk choosing one of
    two observables when called -/
def iifG (predicate : Bool) (g1 g2 : Gen α) : Gen α := if predicate then g1 else g2

/-- what the final observer receives when it subscribes to the creation operator directly -/
def Gen.delivered (g : Gen α) (sub : Ctx) : List (Notif α) := gate ((g sub).raw sub)

/-- … and what the subscriber refuses (each goes to `OnDroppedNotification` once) -/
def Gen.dropped (g : Gen α) (sub : Ctx) : List (Notif α) := gateDropped ((g sub).raw sub)

/-- a machine downstream of a creation operator: a synchronous source playing the generated script -/
def Gen.pipe {σ β : Type} (g : Gen α) (m : Machine σ α β) (sub : Ctx) : RunSt σ α β :=
  runOp m .sync sub ((g sub).raw sub)

end Ro

/-
  RoModel.Ops.More — machines for the single-source operators that RoModel/Ops/{Filter,Transform,
  Aggregate}.lean left out: the context operators of operator_context.go, `Cast`
  (operator_transformations.go), the `Tap*`/`Do*` family with its callback invocations recorded
  (operator_utility.go), `TimeInterval` / `Timestamp`, `Average` (operator_math.go).

  `Round`, `Abs`, `Floor`, `Ceil`, `Trunc` are `mapM (fun c v _ => (c, f v))` for an uninterpreted
  float function `f` (operator_math.go:133-152, 254-271, 275-292, 312-329, 796-813): no machine
  of their own. `DelayEach`, `Do*OnSubscribe`, `DoOnFinalize` are `idM` as far as the stream goes.
-/
import RoModel.Ops.Aggregate
namespace Ro
variable {α β τ : Type}

/-! ### operator_context.go -/

/-- `ContextWithValue(k, v)` (operator_context.go:25-50): the pair is added to the context of
    **every** notification — value, error and completion. A key/value pair is modelled as a
    marker `m` appended to the marker list. -/
def ctxWithValueM (m : Nat) : Machine Unit α α where
  init := ()
  onNext s c v := (s, [.next (c.tag m) v])
  onError s c e := (s, [.error (c.tag m) e])
  onComplete s c := (s, [.complete (c.tag m)])

/-- the context `ContextWithValue` hands to its source (operator_context.go:29):
    `context.WithValue(subscriberCtx, k, v)` -/
def ctxWithValueUp (m : Nat) (sub : Ctx) : Ctx := sub.tag m

/-- `ContextMapI(project)` (operator_context.go:234-257): `project(ctx, i)` replaces the context of
    each **value**; errors and completions are forwarded with the context they came with; the
    index counts values. `ContextMap` ignores the index (operator_context.go:222-226).
    `ContextWithTimeout(d)` / `ContextWithDeadline(t)` (operator_context.go:56-82, 119-145) are the
    same machine with `project c _ = child c`, `child c` being `context.WithTimeout(c, d)` /
    `context.WithDeadline(c, t)` — a context derived from `c` (same markers), whose cancel function
    is discarded, so nothing in the operator ever cancels it. -/
def contextMapM (f : Ctx → Nat → Ctx) : Machine Nat α α where
  init := 0
  onNext i c v := (i + 1, [.next (f c i) v])
  onError := fwdE
  onComplete := fwdC

/-- `ContextReset(newCtx)` (operator_context.go:189-214): every notification is re-emitted with
    `newCtx` (`context.Background()` when the argument was nil — normalised at construction,
    line 190-192, so `nc` here is never nil when it comes from the driver). By definition the
    emitted contexts are **not** derived from the subscription context. -/
def contextResetM (nc : Ctx) : Machine Unit α α where
  init := ()
  onNext s _ v := (s, [.next nc v])
  onError s _ e := (s, [.error nc e])
  onComplete s _ := (s, [.complete nc])

/-! ### operator_transformations.go -/

/-- `Cast[T, U]` (operator_transformations.go:236-257): `ok v = some u` when the dynamic type of
    `v` is `U`; otherwise the cast error is emitted with the value's context — and, like `MapErr`,
    the operator keeps running (the downstream gate refuses what follows). -/
def castM (ok : α → Option β) (err : Err) : Machine Unit α β where
  init := ()
  onNext s c v := (s, match ok v with
    | some u => [.next c u]
    | none => [.error c err])
  onError := fwdE
  onComplete := fwdC

/-! ### operator_utility.go -/

/-- `TapWithContext(onNext, onError, onComplete)` (operator_utility.go:50-74) with its side effects:
    the state is the log of callback invocations (the callback runs **before** the notification
    is forwarded, and runs whether or not downstream still listens). `sel` says which callbacks
    are the user's: `Tap`/`Do` all three, `TapOnNext`/`DoOnNext` values only, `TapOnError`/
    `DoOnError` errors only, `TapOnComplete`/`DoOnComplete` completions only (the other two are
    empty function literals, operator_utility.go:93-161). -/
def tapM (sel : Notif α → Bool) : Machine (List (Notif α)) α α where
  init := []
  onNext log c v := (if sel (.next c v) then log ++ [.next c v] else log, [.next c v])
  onError log c e := (if sel (.error c e) then log ++ [.error c e] else log, [.error c e])
  onComplete log c := (if sel (.complete c) then log ++ [.complete c] else log, [.complete c])

def selAll : Notif α → Bool := fun _ => true
def selNext : Notif α → Bool | .next _ _ => true | _ => false
def selError : Notif α → Bool | .error _ _ => true | _ => false
def selComplete : Notif α → Bool | .complete _ => true | _ => false

/-- `TimeInterval` (operator_utility.go:226-250) and `Timestamp` (operator_utility.go:260-281):
    the `i`-th value is paired with a reading of the monotonic clock; the clock is an
    uninterpreted function of the index (only the shape is modelled: value preserved, order
    preserved, one output per input). -/
def timedM (clock : Nat → τ) : Machine Nat α (α × τ) where
  init := 0
  onNext i c v := (i + 1, [.next c (v, clock i)])
  onError := fwdE
  onComplete := fwdC

/-! ### operator_math.go -/

/-- `Average` (operator_math.go:45-75) over integers, **as written**: state (sum, count); at
    completion with `count = 0` it emits `NaN` and completes, then *falls through* to the general
    branch and emits `sum / count` and completes a second time (both refused by the downstream
    subscriber). `div` and `nan` stand for float division and `math.NaN()` (uninterpreted). -/
def averageM (div : Int → Nat → β) (nan : β) : Machine (Int × Nat) Int β where
  init := (0, 0)
  onNext s _ v := ((s.1 + v, s.2 + 1), [])
  onError := fwdE
  onComplete s c := (s,
    (if s.2 = 0 then [.next c nan, .complete c] else []) ++ [.next c (div s.1 s.2), .complete c])

end Ro

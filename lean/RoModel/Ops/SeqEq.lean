/-
  RoModel.Ops.SeqEq — `SequenceEqual(obsB)(source)` (operator_conditional.go:232-258) over two synchronous (cold) sources,
  read from the code: `Zip2(source, obsB)` piped into an observer that answers `false` + Complete on the first unequal pair
  and `true` + Complete when the zip completes; errors are forwarded.

  `Zip2` over cold sources (operator_combining.go, as repaired by b6f7afa): the first source plays its whole script into its
  queue; if it fails the zip fails at once. Then the second source plays: each of its values is paired with the next queued
  value of the first; the zip completes as soon as a COMPLETED source's queue is empty — i.e. when the pairs of the shorter
  sequence are used up — whatever the other source still holds. That is why `SequenceEqual` cannot see a difference in
  length (known finding; `TestOperatorConditionalSequenceEqual` pins `Empty vs Just(1,2,3) = true`).
  Core Lean only.
-/
import RoModel.Basic
namespace Ro.SeqEq
open Ro

inductive End
  | complete
  | error (e : Err)
deriving DecidableEq, Repr

/-- what the final observer receives (contexts left out) -/
inductive Out
  | val (b : Bool)
  | complete
  | error (e : Err)
deriving DecidableEq, Repr

/-- the second source plays `b` against the queued values `q` of the (completed) first source -/
def play : List Int → List Int → End → List Out
  | [], _, _ => [.val true, .complete]                    -- the completed first source has nothing queued: the zip completes
  | _ :: _, [], .complete => [.val true, .complete]       -- the second source completes with nothing queued
  | _ :: _, [], .error e => [.error e]
  | x :: q, y :: b, endb => if x ≠ y then [.val false, .complete] else play q b endb

/-- `SequenceEqual` as coded, for a first source `a`/`enda` and a second source `b`/`endb`, both synchronous -/
def impl (a : List Int) (enda : End) (b : List Int) (endb : End) : List Out :=
  match enda with
  | .error e => [.error e]
  | .complete => play a b endb

/-- the documented function: an error of either source, else whether the two sequences are equal -/
def spec (a : List Int) (enda : End) (b : List Int) (endb : End) : List Out :=
  match enda, endb with
  | .error e, _ => [.error e]
  | .complete, .error e => [.error e]
  | .complete, .complete => [.val (decide (a = b)), .complete]

end Ro.SeqEq

/-
  RoModel.Ops.CreateGen — the statement combinators the creation-operator translator (go/extract/gengen.go)
  targets: the body of a synchronous subscribe function as a transformer of "what the function has done so far"
  (`Emission`: the notifications offered in order, the user callbacks invoked, an escaping panic). After a panic
  nothing more happens (the subscribe function is unwinding).
  Core Lean only.
-/
import RoModel.Ops.Create
namespace Ro.GenB
open Ro
variable {α β : Type}

abbrev Stmt (α : Type) := Emission α → Emission α

/-- `destination.XWithContext(...)` -/
def emit (n : Notif α) : Stmt α := fun e =>
  match e.panic with
  | some _ => e
  | none => { e with script := e.script ++ [n] }

def skip : Stmt α := id
def seq (a b : Stmt α) : Stmt α := fun e => b (a e)

/-- `for _, x := range xs { body }` -/
def forEach (xs : List β) (body : β → Stmt α) : Stmt α := fun e => xs.foldl (fun e x => body x e) e

/-- `for i := 0; i < n; i++ { body }` -/
def forCount (n : Nat) (body : Nat → Stmt α) : Stmt α := forEach (List.range n) body

/-- `for cond(cursor) { body(cursor); cursor = step(cursor) }`, at most `fuel` iterations -/
def forWhile (cond : Int → Bool) (step : Int → Int) (body : Int → Stmt α) : Nat → Int → Stmt α
  | 0, _ => skip
  | fuel + 1, cur => if cond cur then seq (body cur) (forWhile cond step body fuel (step cur)) else skip

/-- a call of a user callback whose result feeds the rest of the statement; a panicking callback escapes -/
def call (o : Outcome β) (k : β → Stmt α) : Stmt α := fun e =>
  match e.panic with
  | some _ => e
  | none =>
    match o with
    | .ok v => k v { e with calls := e.calls + 1 }
    | .panic p => { e with panic := some p, calls := e.calls + 1 }

/-- one execution of the subscribe function -/
def run (s : Stmt α) : Emission α := s { script := [] }

end Ro.GenB

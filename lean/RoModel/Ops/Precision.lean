/-
  RoModel.Ops.Precision — `FloorWithPrecision(places)` / `CeilWithPrecision(places)` (operator_math.go:296-795) on the
  values they are defined for without floating-point noise: dyadic rationals `x = m / 2^k` (exactly representable floats)
  and moderate `places`. The documented function:

      places ≥ 0   floor / ceiling of x to `places` digits to the right of the decimal point
      places < 0   floor / ceiling of x to a multiple of 10^(-places)

  The result is `n / 10^places` (resp. `n · 10^(-places)`) for an integer `n`; the model computes `n` exactly, the harness
  reads `n` off the delivered float as `round(result · 10^places)` — an integer, so no float is ever compared.
  (The very large |places| paths — chunked big.Float arithmetic, the no-op caps — are outside this model.)
  Core Lean only.
-/
namespace Ro.Precision

/-- numerator and (positive) denominator of `x · 10^places` for `x = m / 2^k` -/
def scaled (m : Int) (k : Nat) (places : Int) : Int × Int :=
  if 0 ≤ places then (m * 10 ^ places.toNat, 2 ^ k) else (m, 2 ^ k * 10 ^ (-places).toNat)

/-- `n` of `FloorWithPrecision`: the greatest integer `≤ x · 10^places` -/
def floorN (m : Int) (k : Nat) (places : Int) : Int := (scaled m k places).1 / (scaled m k places).2

/-- `n` of `CeilWithPrecision`: the least integer `≥ x · 10^places` -/
def ceilN (m : Int) (k : Nat) (places : Int) : Int := -((-(scaled m k places).1) / (scaled m k places).2)

end Ro.Precision

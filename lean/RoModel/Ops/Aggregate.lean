/-
  RoModel.Ops.Aggregate — machines for operator_conditional.go and operator_math.go.
-/
import RoModel.Ops.Transform
namespace Ro
variable {α β : Type}

/-- `AllIWithContext` — state: (ok, i); the predicate is no longer called once it was false,
    and the index only advances while it is called -/
def allM (p : Ctx → α → Nat → Bool) : Machine (Bool × Nat) α Bool where
  init := (true, 0)
  onNext s c v := (if s.1 then (p c v s.2, s.2 + 1) else s, [])
  onError := fwdE
  onComplete s c := (s, [.next c s.1, .complete c])

/-- `ContainsIWithContext` -/
def containsM (p : Ctx → α → Nat → Bool) : Machine Nat α Bool where
  init := 0
  onNext i c v := (i + 1, if p c v i then [.next c true, .complete c] else [])
  onError := fwdE
  onComplete s c := (s, [.next c false, .complete c])

/-- `FindIWithContext` -/
def findM (p : Ctx → α → Nat → Bool) : Machine Nat α α where
  init := 0
  onNext i c v := (i + 1, if p c v i then [.next c v, .complete c] else [])
  onError := fwdE
  onComplete := fwdC

/-- `DefaultIfEmptyWithContext(defaultCtx, v)` — state: empty -/
def defaultIfEmptyM (dc : Ctx) (d : α) : Machine Bool α α where
  init := true
  onNext _ c v := (false, [.next c v])
  onError := fwdE
  onComplete s c := (s, (if s then [.next dc d] else []) ++ [.complete c])

/-- `Count` -/
def countM : Machine Nat α Int where
  init := 0
  onNext n _ _ := (n + 1, [])
  onError := fwdE
  onComplete n c := (n, [.next c (n : Int), .complete c])

/-- `Sum` (over integers) -/
def sumM : Machine Int Int Int where
  init := 0
  onNext s _ v := (s + v, [])
  onError := fwdE
  onComplete s c := (s, [.next c s, .complete c])

/-- `Min` — state: the current minimum with the context it arrived with -/
def minM : Machine (Option (Ctx × Int)) Int Int where
  init := none
  onNext s c v := (match s with
    | none => some (c, v)
    | some (c0, m) => if v < m then some (c, v) else some (c0, m), [])
  onError := fwdE
  onComplete s c := (s, (match s with | some (c0, m) => [.next c0 m] | none => []) ++ [.complete c])

/-- `Max` **as written**: the emission at completion is not guarded by `!first`, so an empty
    source yields the zero value with the zero `context.Context` (nil). -/
def maxM : Machine (Option (Ctx × Int)) Int Int where
  init := none
  onNext s c v := (match s with
    | none => some (c, v)
    | some (c0, m) => if v > m then some (c, v) else some (c0, m), [])
  onError := fwdE
  onComplete s c := (s, (match s with | some (c0, m) => [.next c0 m] | none => [.next Ctx.nil 0]) ++ [.complete c])

/-- `Clamp(lower, upper)`, lower ≤ upper -/
def clampM (lo hi : Int) : Machine Unit Int Int where
  init := ()
  onNext s c v := (s, [.next c (if v < lo then lo else if v > hi then hi else v)])
  onError := fwdE
  onComplete := fwdC

/-- `ReduceIWithContext` — state: (output, lastCtx, i) -/
def reduceM (f : Ctx → β → α → Nat → Ctx × β) (seed : β) : Machine (β × Ctx × Nat) α β where
  init := (seed, Ctx.nil, 0)
  onNext s c v := (((f c s.1 v s.2.2).2, (f c s.1 v s.2.2).1, s.2.2 + 1), [])
  onError := fwdE
  onComplete s c := (s, [.next (if s.2.2 = 0 then c else s.2.1) s.1, .complete c])

end Ro

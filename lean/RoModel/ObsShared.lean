/-
  RoModel.ObsShared — ONE observer (`NewObserver…`, observer.go) attached through Subscribe to TWO sources. Each Subscribe wraps
  the observer in a subscriber of its own (`NewSubscriber`, subscriber.go:117-168): the subscriber refuses everything after its
  own source's terminal (or an Unsubscribe), the observer refuses everything after the FIRST terminal it was handed by either
  subscriber (observer.go:107-140, status word). Both report what they refuse to `OnDroppedNotification`.
  An event is (which source, notification). Core Lean only.
-/
import RoModel.Basic
namespace Ro.ObsShared
open Ro

structure St where
  /-- `observerImpl.status` -/
  obs : Nat := 0
  /-- `subscriberImpl.status` of the subscriber of source 0 / source 1 -/
  sub0 : Nat := 0
  sub1 : Nat := 0
  trace : List (Notif Int) := []
  dropped : List (Notif Int) := []
deriving Repr

def St.sub (s : St) (k : Nat) : Nat := if k = 0 then s.sub0 else s.sub1
def St.closeSub (s : St) (k : Nat) (code : Nat) : St := if k = 0 then { s with sub0 := code } else { s with sub1 := code }

def step (s : St) (e : Nat × Notif Int) : St :=
  if s.sub e.1 != 0 then { s with dropped := s.dropped ++ [e.2] }       -- refused by the (closed) subscriber of that source
  else
    let s1 := match e.2 with
      | .next _ _ => s
      | .error _ _ => s.closeSub e.1 1
      | .complete _ => s.closeSub e.1 2
    if s1.obs != 0 then { s1 with dropped := s1.dropped ++ [e.2] }      -- refused by the (closed) observer
    else match e.2 with
      | .next _ _ => { s1 with trace := s1.trace ++ [e.2] }
      | .error _ _ => { s1 with obs := 1, trace := s1.trace ++ [e.2] }
      | .complete _ => { s1 with obs := 2, trace := s1.trace ++ [e.2] }

def run (evs : List (Nat × Notif Int)) : St := evs.foldl step {}

end Ro.ObsShared

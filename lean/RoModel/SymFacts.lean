/-
  RoModel.SymFacts — row type and predicate of the regenerated table RoGen.Symmetry (go/extract/symmetry.go):
  the single-position units of every function that is written out per source position (ZipWith1..5,
  CombineLatestWith1..4, MergeWith1..5, Zip2..6, CombineLatest2..5, …), with the positions each unit occurs for.
-/
namespace Ro.SymFacts

structure SymRow where
  fn : String
  /-- number of positions of the family (letters A.. in rank order: 0 .. n-1) -/
  n : Nat
  /-- the positions this normalised unit occurs for, sorted, with multiplicity -/
  letters : List Nat
  unit : String
deriving Repr

/-- every position `k` times: `[0,…,0, 1,…,1, …, n-1,…,n-1]` -/
def uniform (n k : Nat) : List Nat := (List.range n).flatMap (fun p => List.replicate k p)

/-- the unit occurs equally often for every position — or only for the first one (the piped source is the
    parameter of the returned function, the other sources are parameters of the operator) -/
def rowOk (r : SymRow) : Bool :=
  (r.n != 0 && r.letters.length % r.n == 0 && r.letters == uniform r.n (r.letters.length / r.n))
  || r.letters.all (· == 0)

def irregular (rows : List SymRow) : List SymRow := rows.filter (fun r => !rowOk r)

end Ro.SymFacts

/-
  RoModel.PluginFacts — row types of the `Plugins` fact tables that go/extract/plugins.go
  regenerates from /repo/plugins/** on every run (lean/RoGen/Plugins.lean). Plain data.

  `Row`: one exported plugin function. `body` is the normalised body of the lifted callback (or of
  the subscribe closure for operators that have their own): `$v` the stream item, `$p<i>` the i-th
  constructor parameter, `$l<i>` the i-th local, `$src` / `$ctx` / `$dst` the source observable,
  the subscription context and the destination observer; library functions carry their import
  path; conversions between string, []byte and the type parameter are erased.
  `Helper`: an unexported helper of plugins/strings or plugins/bytes; `norm` is `body` with the
  string/bytes flavour erased, so that the two flavours can be compared.

  Texts are written `txt% "…"`: the elaborator turns the literal into the natural number whose
  base-256 digits are 1 followed by the UTF-8 bytes (injective), so that the kernel compares
  numbers (GMP) instead of unfolding `String` equality byte by byte — `decide` over the whole
  table takes a fraction of a second instead of half a minute. `Txt.decode` inverts it for
  diagnostics.
-/
import Lean
namespace Ro.PluginFacts

abbrev Txt := Nat

def Txt.encode (s : String) : Nat := s.toUTF8.foldl (fun acc b => acc * 256 + b.toNat) 1

open Lean Elab Term in
/-- `txt% "abc"` elaborates to the numeral `Txt.encode "abc"` -/
elab "txt% " s:str : term => return mkNatLit (Txt.encode s.getString)

partial def Txt.decodeBytes (n : Nat) (acc : List UInt8) : List UInt8 :=
  if n ≤ 1 then acc else Txt.decodeBytes (n / 256) ((n % 256).toUInt8 :: acc)

def Txt.decode (n : Txt) : String := (String.fromUTF8? ⟨(Txt.decodeBytes n []).toArray⟩).getD "?"

inductive Lift | map | mapErr | filter | own | alias | other
deriving DecidableEq, Repr

structure Row where
  plugin : Txt
  name : Txt
  params : List Txt
  lift : Lift
  setup : List Txt
  body : List Txt
  unknown : Bool := false   -- the extractor met a construct it does not normalise (`?…` in body/setup)
deriving DecidableEq, Repr

structure Helper where
  pkg : Txt
  name : Txt
  body : List Txt
  norm : List Txt
deriving DecidableEq, Repr

def Row.key (r : Row) : Txt × Txt := (r.plugin, r.name)

end Ro.PluginFacts

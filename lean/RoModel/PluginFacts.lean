/-
  RoModel.PluginFacts — row types of the `Plugins` fact tables that go/extract/plugins.go
  regenerates from /repo/plugins/** on every run (lean/RoGen/Plugins.lean). Plain data.

  `Row`: one exported plugin function. `body` is the normalised body of the lifted callback (or of
  the subscribe closure for operators that have their own): `$v` the stream item, `$p<i>` the i-th
  constructor parameter, `$l<i>` the i-th local, `$src` / `$ctx` / `$dst` the source observable,
  the subscription context and the destination observer; library functions carry their import
  path; conversions between string, []byte and the type parameter are erased.
  `Helper`: an unexported helper of plugins/strings or plugins/bytes; `norm` is `body` with the
  string/bytes flavour erased, so that the two flavours can be compared.
-/
namespace Ro.PluginFacts

inductive Lift | map | mapErr | filter | own | alias | other
deriving DecidableEq, Repr

structure Row where
  plugin : String
  name : String
  params : List String
  lift : Lift
  setup : List String
  body : List String
deriving DecidableEq, Repr

structure Helper where
  pkg : String
  name : String
  body : List String
  norm : List String
deriving DecidableEq, Repr

def Row.key (r : Row) : String × String := (r.plugin, r.name)

end Ro.PluginFacts

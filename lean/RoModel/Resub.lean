/-
  RoModel.Resub — the re-subscribing operators (property C15), read line by line from the pinned tree:

    RetryWithConfig / Retry      operator_error_handling.go:156-220 (Retry = {0, 0, false}, :137-143)
    OnErrorResumeNextWith        operator_error_handling.go:55-106
    Catch                        operator_error_handling.go:26-49
    DoWhileIWithContext (+3)     operator_error_handling.go:291-344
    WhileIWithContext (+3)       operator_error_handling.go:383-435
    RepeatWith                   operator_utility.go:396-433
    Concat = ConcatAll ∘ Just    operator_creation.go:571-573, operator_combining.go:889-934 (with fix 808ed47)

  Input: a list of *attempt outcomes* — the n-th subscription of the (cold) source plays the n-th
  outcome: a short script of values ending in completion or error; past the end of the list every
  further subscription completes at once — plus the operator's configuration, the truth sequence of
  the loop condition, an optional cancellation point of the subscription context (Retry) and an
  optional point at which the downstream observer goes away (`cut`).
  Output: everything the operator pushes to `destination` in order (`raw`; what the destination
  lets through is `deliver cut raw`), the subscribe/teardown event log of the source, the number of
  attempts and the number of condition evaluations.

  What makes an attempt "over and released": the source's subscriber unsubscribes itself when its
  terminal has been delivered (`subscriber.go:205-241`), which runs the source's teardown — at once
  when the attempt ran on another goroutine, or when `Subscribe` adds the teardown to the already
  closed subscription (`subscription.go:79-91`, `observable.go:303-320`) when it ran synchronously.
  Either way the teardown `tᵢ` precedes the return of `sub.Wait()` (`subscription.go:167-177`), hence
  precedes the next `sᵢ₊₁`, for every operator that waits.  `Catch` does not wait.

  Core Lean only: linked into the driver executable.
-/
import RoModel.Basic
namespace Ro.Resub
open Ro

/-- how an attempt ends -/
inductive Fin
  | complete
  | error (e : Nat)
deriving DecidableEq, Repr

/-- one attempt outcome: values (context marker, value), then the terminal (with its marker) -/
structure Outcome where
  vals : List (Nat × Int) := []
  fmark : Nat := 0
  fin : Fin := .complete
deriving DecidableEq, Repr

/-- what a subscription past the end of the list plays: `Complete` at once -/
def Outcome.dflt : Outcome := {}

def Outcome.fails (o : Outcome) : Bool :=
  match o.fin with
  | .complete => false
  | .error _ => true

def Outcome.hasValues (o : Outcome) : Bool := !o.vals.isEmpty

/-- marker `m` added to a context (0 = the notification carries the subscription context as is) -/
def tagM (c : Ctx) (m : Nat) : Ctx := if m = 0 then c else c.tag m

/-- the value notifications of an attempt subscribed with context `sub` -/
def Outcome.nexts (o : Outcome) (sub : Ctx) : List (Notif Int) :=
  o.vals.map (fun p => Notif.next (tagM sub p.1) p.2)

/-- the context of the attempt's terminal notification -/
def Outcome.finCtx (o : Outcome) (sub : Ctx) : Ctx := tagM sub o.fmark

/-- the terminal notification itself -/
def Outcome.terminal (o : Outcome) (sub : Ctx) : Notif Int :=
  match o.fin with
  | .complete => .complete (o.finCtx sub)
  | .error e => .error (o.finCtx sub) (.user e)

/-- the outcome of the (j+1)-th subscription -/
def outcomeAt (outs : List Outcome) (j : Nat) : Outcome := outs.getD j Outcome.dflt

/-- source events: `s i` = the i-th subscription starts, `t i` = its teardown has run -/
inductive Ev
  | s (i : Nat)
  | t (i : Nat)
deriving DecidableEq, Repr

structure Result where
  /-- every notification handed to `destination`, in order (also those it will refuse) -/
  raw : List (Notif Int) := []
  log : List Ev := []
  attempts : Nat := 0
  /-- evaluations of the loop condition -/
  evals : Nat := 0
deriving DecidableEq, Repr

/-- the operator stops; `raw` is what it still hands to the destination -/
def Result.stop (raw : List (Notif Int)) : Result := { raw := raw }

/-- attempt number `i` ran from subscription to teardown and pushed `raw`; then `r` happens -/
def Result.after (raw : List (Notif Int)) (i : Nat) (r : Result) : Result :=
  { raw := raw ++ r.raw, log := .s i :: .t i :: r.log, attempts := r.attempts + 1, evals := r.evals }

/-- one more evaluation of the loop condition -/
def Result.evaluated (r : Result) : Result := { r with evals := r.evals + 1 }

/-! ### the destination -/

/-- What the destination subscriber lets through of `raw`: everything up to and including the first
    terminal (`subscriber.go:176-241`), and nothing once the downstream observer has unsubscribed
    itself — `b = some k`: it does so inside its k-th value callback; `some 0`: it is closed. -/
def deliver : Option Nat → List (Notif Int) → List (Notif Int)
  | _, [] => []
  | b, x :: xs =>
    if b == some 0 then []
    else if x.isTerminal then [x]
    else x :: deliver (b.map (· - 1)) xs

/-- the budget after one notification was handed over -/
def pushB (b : Option Nat) (n : Notif Int) : Option Nat :=
  if b == some 0 then b else if n.isTerminal then some 0 else b.map (· - 1)

def feedB (b : Option Nat) (l : List (Notif Int)) : Option Nat := l.foldl pushB b

/-- `destination.IsClosed()` -/
def closedB (b : Option Nat) : Bool := b == some 0

/-- largest number of attempts alive at once (the live gauge of the scripted source) -/
def maxLiveFrom : Nat → Nat → List Ev → Nat
  | _, mx, [] => mx
  | cur, mx, .s _ :: l => maxLiveFrom (cur + 1) (max mx (cur + 1)) l
  | cur, mx, .t _ :: l => maxLiveFrom (cur - 1) mx l

def maxLive (log : List Ev) : Nat := maxLiveFrom 0 0 log

/-! ### the `Wait` window

`sub.Wait()` (`subscription.go:167-177`) adds a finalizer that wakes the waiter; on a subscription whose
`done` flag is already set it runs at once (`subscription.go:79-91`) — also when the finalizers taken by
the `Unsubscribe` that set the flag are *still running* on the attempt's goroutine
(`subscription.go:104-150`: the flag is set and the lock released before the loop over the finalizers).
In the schedule where every attempt delivers its terminal after its teardown has been registered and
before the operator reaches `Wait`, the operator therefore goes on — and subscribes the next attempt —
while the previous teardown has not finished. The harness drives exactly this schedule (`mode=tdrace`);
the log is then s₁ s₂ t₁ s₃ t₂ … sₙ tₙ₋₁ tₙ. -/

/-- attempt `i` is subscribed and its teardown is running; `m` more attempts follow -/
def overlapTail : Nat → Nat → List Ev
  | i, 0 => [.t i]
  | i, m + 1 => .s (i + 1) :: .t i :: overlapTail (i + 1) m

/-- the log of `n` attempts in the `Wait`-window schedule -/
def overlapLog : Nat → List Ev
  | 0 => []
  | m + 1 => .s 1 :: overlapTail 1 m

/-! ### RetryWithConfig (`operator_error_handling.go:156-220`) -/

structure RetryCfg where
  maxRetries : Nat
  /-- `Delay > 0` -/
  delay : Bool
  reset : Bool
deriving DecidableEq, Repr

/-- `subscriberCtx.Err()` of a cancelled context (printed as sentinel 100 on both sides) -/
def ctxCanceled : Err := .sentinel 100

/-- `cancel = some k`: `subscriberCtx.Done()` is closed at some moment after the loop-top check of
    attempt `k` and before that attempt's `Wait` returns (`k = 0`: before `Subscribe`).
    `cancelledBefore cancel i`: what the check at the top of attempt `i` (1-based) sees. -/
def cancelledBefore (cancel : Option Nat) (i : Nat) : Bool :=
  match cancel with
  | some k => k < i
  | none => false

/-- `retries` after one more failed attempt: reset to 0 by each `Next` when `ResetOnSuccess`
    (:178-180), then `retries++` in the error callback (:185) -/
def retriesAfter (cfg : RetryCfg) (retries : Nat) (o : Outcome) : Nat :=
  (if cfg.reset && o.hasValues then 0 else retries) + 1

/-- `shouldRetry = opts.MaxRetries == 0 || retries <= opts.MaxRetries` (:186) -/
def shouldRetry (cfg : RetryCfg) (retries : Nat) : Bool :=
  cfg.maxRetries == 0 || decide (retries ≤ cfg.maxRetries)

/-- the loop, entered for attempt `i` with `retries` failures charged so far.
    `for !subscriptions.IsClosed()` (:160) is always true: nobody holds `subscriptions` before the
    subscribe function returns. -/
def retryLoop (cfg : RetryCfg) (sub : Ctx) (cancel : Option Nat) : List Outcome → Nat → Nat → Result
  | [], i, _ =>
    if cancelledBefore cancel i then .stop [.error sub ctxCanceled]            -- :162-167
    else .after [.complete sub] i (.stop [])                                     -- past the list: completes (:188-190)
  | o :: rest, i, retries =>
    if cancelledBefore cancel i then .stop [.error sub ctxCanceled]            -- :162-167
    else
      match o.fin with
      | .complete =>                                                              -- :188-190, then `break` :216
        .after (o.nexts sub ++ [.complete (o.finCtx sub)]) i (.stop [])
      | .error e =>
        if shouldRetry cfg (retriesAfter cfg retries o) then                     -- :184-186, :196
          if cfg.delay && cancelledBefore cancel (i + 1) then                    -- :197-208
            .after (o.nexts sub) i (.stop [.error sub ctxCanceled])
          else .after (o.nexts sub) i (retryLoop cfg sub cancel rest (i + 1) (retriesAfter cfg retries o))   -- `continue` :211
        else .after (o.nexts sub ++ [.error sub (.user e)]) i (.stop [])         -- :213, with subscriberCtx

def retry (cfg : RetryCfg) (sub : Ctx) (cancel : Option Nat) (outs : List Outcome) : Result :=
  retryLoop cfg sub cancel outs 1 0

/-! ### WhileIWithContext (`operator_error_handling.go:383-435`) -/

/-- the context returned by the condition callback of the harness: marker `ct + i` added (`ct = 0`: unchanged) -/
def condCtx (ct : Nat) (c : Ctx) (i : Nat) : Ctx := if ct = 0 then c else c.tag (ct + i)

/-- `conds`: the truth values the condition still has to give (false past the end); `i`: the Go index -/
def whileLoop (ct : Nat) : List Bool → List Outcome → Ctx → Nat → Result
  | [], _, cur, _ => (Result.stop [.complete cur]).evaluated                     -- :394-399, :426-428
  | false :: _, _, cur, _ => (Result.stop [.complete cur]).evaluated
  | true :: cs, outs, cur, i =>
    let next := condCtx ct cur i                                                  -- :394
    let o := outcomeAt outs 0
    match o.fin with
    | .error e =>                                                                 -- :408-411, `break` :420-423, no Complete
      (Result.after (o.nexts next ++ [.error (o.finCtx next) (.user e)]) (i + 1) (.stop [])).evaluated
    | .complete =>                                                                -- :412-414, `currentCtx = nextCtx` :425
      (Result.after (o.nexts next) (i + 1) (whileLoop ct cs outs.tail next (i + 1))).evaluated

def while_ (ct : Nat) (sub : Ctx) (conds : List Bool) (outs : List Outcome) : Result :=
  whileLoop ct conds outs sub 0

/-! ### DoWhileIWithContext (`operator_error_handling.go:291-344`) -/

def doWhileLoop (ct : Nat) : List Bool → List Outcome → Ctx → Nat → Result
  | [], outs, cur, i =>
    let o := outcomeAt outs 0
    match o.fin with
    | .error e => .after (o.nexts cur ++ [.error (o.finCtx cur) (.user e)]) (i + 1) (.stop [])
    | .complete =>                                                                -- condition false past the list
      (Result.after (o.nexts cur) (i + 1) (.stop [.complete (condCtx ct (o.finCtx cur) i)])).evaluated
  | b :: cs, outs, cur, i =>
    let o := outcomeAt outs 0
    match o.fin with
    | .error e =>                                                                 -- :312-315, `break` :325-328
      .after (o.nexts cur ++ [.error (o.finCtx cur) (.user e)]) (i + 1) (.stop [])
    | .complete =>
      let cur' := condCtx ct (o.finCtx cur) i                                     -- :316-320, inside the complete callback
      if b then (Result.after (o.nexts cur) (i + 1) (doWhileLoop ct cs outs.tail cur' (i + 1))).evaluated
      else (Result.after (o.nexts cur) (i + 1) (.stop [.complete cur'])).evaluated   -- :330-333, :336-338

def doWhile (ct : Nat) (sub : Ctx) (conds : List Bool) (outs : List Outcome) : Result :=
  doWhileLoop ct conds outs sub 0

/-! ### RepeatWith (`operator_utility.go:396-433`) -/

/-- what an attempt of RepeatWith pushes: values and errors go straight to the destination, a
    completion only records its context -/
def repeatRaw (o : Outcome) (sub : Ctx) : List (Notif Int) :=
  match o.fin with
  | .complete => o.nexts sub
  | .error e => o.nexts sub ++ [.error (o.finCtx sub) (.user e)]

/-- `n` iterations left; `b`: the destination's budget; `last`: `lastCtx`.
    Nothing is registered for teardown (`return nil`, :429) — that concerns C14. -/
def repeatLoop (sub : Ctx) : Nat → List Outcome → Nat → Option Nat → Ctx → Result
  | 0, _, _, _, last => .stop [.complete last]                                  -- :427
  | n + 1, outs, i, b, last =>
    let o := outcomeAt outs 0
    let last' := match o.fin with
      | .complete => o.finCtx sub                                                 -- :417-419
      | .error _ => last
    let b' := feedB b (repeatRaw o sub)
    if closedB b' then .after (repeatRaw o sub) (i + 1) (.stop [.complete last'])   -- :422-424 `break`, then :427
    else .after (repeatRaw o sub) (i + 1) (repeatLoop sub n outs.tail (i + 1) b' last')

def repeatWith (count : Nat) (sub : Ctx) (cut : Option Nat) (outs : List Outcome) : Result :=
  if count = 0 then .stop [.complete sub]                                        -- :402-404 `Empty`
  else repeatLoop sub count outs 0 cut Ctx.nil

/-! ### OnErrorResumeNextWith (`operator_error_handling.go:55-106`) -/

/-- `n` sources left (`sources[i:]`, built per application since fix fd0e106); `err`/`last` as in the code -/
def resumeLoop (sub : Ctx) : Nat → List Outcome → Nat → Ctx → Option Nat → Result
  | 0, _, _, last, err =>
    .stop [match err with
      | some e => .error last (.user e)                                           -- :97-98
      | none => .complete last]                                                   -- :99-101
  | n + 1, outs, i, _, _ =>
    let o := outcomeAt outs 0
    let err' := match o.fin with
      | .complete => none                                                         -- `err = nil` :75, :85-87
      | .error e => some e                                                        -- :81-84
    .after (o.nexts sub) (i + 1) (resumeLoop sub n outs.tail (i + 1) (o.finCtx sub) err')

/-- `k` = number of fallbacks; none: the source itself is returned (:57-59) -/
def onErrorResumeNext (k : Nat) (sub : Ctx) (outs : List Outcome) : Result :=
  if k = 0 then .after ((outcomeAt outs 0).nexts sub ++ [(outcomeAt outs 0).terminal sub]) 1 (.stop [])
  else resumeLoop sub (k + 1) outs 0 Ctx.nil none

/-! ### Concat (`operator_combining.go:889-934` over `Just(sources…)`, `operator_creation.go:28-38`) -/

/-- An inner error closes `subscriptions` and errors the destination; `Just` keeps handing the
    remaining sources to the outer observer, which skips them because `subscriptions.IsClosed()`
    (fix 808ed47; before it every remaining source was still subscribed). `Just`'s completion is
    then refused by the destination. -/
def concatLoop (sub : Ctx) : Nat → List Outcome → Nat → Result
  | 0, _, _ => .stop [.complete sub]                                             -- `Just` completes
  | n + 1, outs, i =>
    let o := outcomeAt outs 0
    match o.fin with
    | .complete => .after (o.nexts sub) (i + 1) (concatLoop sub n outs.tail (i + 1))   -- nothing on completion
    | .error e =>                                                                 -- `subscriptions.Unsubscribe()`, error forwarded
      .after (o.nexts sub ++ [.error (o.finCtx sub) (.user e)]) (i + 1) (.stop [.complete sub])

def concat (n : Nat) (sub : Ctx) (outs : List Outcome) : Result := concatLoop sub n outs 0

/-! ### Catch (`operator_error_handling.go:26-49`) -/

inductive Mode
  | sync    -- every attempt plays inside `Subscribe`
  | async   -- every attempt plays from its own goroutine
  | tdrace  -- the `Wait`-window schedule (not for Catch)
deriving DecidableEq, Repr

/-- The fallback is subscribed from inside the error callback of the first subscription, with
    `destination` itself as its subscriber (:36-40): the first attempt is still alive then. -/
def catch_ (mode : Mode) (sub : Ctx) (outs : List Outcome) : Result :=
  let o₁ := outcomeAt outs 0
  match o₁.fin with
  | .complete => .after (o₁.nexts sub ++ [.complete (o₁.finCtx sub)]) 1 (.stop [])
  | .error _ =>
    let c₂ := o₁.finCtx sub
    let o₂ := outcomeAt outs 1
    { raw := o₁.nexts sub ++ (o₂.nexts c₂ ++ [o₂.terminal c₂])
      log := match mode with
        | .sync => [.s 1, .s 2, .t 2, .t 1]
        | _ => [.s 1, .s 2, .t 1, .t 2]
      attempts := 2 }

end Ro.Resub

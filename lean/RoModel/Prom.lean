/-
  RoModel.Prom — the enterprise Prometheus plugin (`ee/plugins/prometheus`): the counting / timing
  operators as machines, chains of operators with one subscriber gate per stage, and the two
  compositions that `checkLicenseAndPipe` chooses between (plain / instrumented).

  What is modelled, read line by line from the anchored files:

  * `operator.go:26-137`  the stand-alone operators `IncCounterOnNext/Error/Complete/Subscription`
    and `ObserveNextLag`: forward every notification with its context unchanged, increment
    *before* forwarding; with the licence off they return their source unchanged (`:32`).
  * `operator.go:167-269` `observeBeforePipe` (in-counter, lag observation, stores a checkpoint in
    the context under the unexported key `checkpointCtx{}`), `observeOperatorProcessingTime`
    (one observation iff the context carries a checkpoint, then re-stamps), `observeAfterPipe`
    (subscription counter in the subscribe function, out-counter before forwarding).
    A nil context makes `context.WithValue` (`:190`) / `ctx.Value` (`:222`) panic; the observer's
    `tryNext` (observer.go:147) turns the panic into an `Error` for the destination.
  * `pipe.go:24-58, 62-…`  `PipeN`: plain = `PipeOpN(op1..opN)`, instrumented =
    `PipeOp3(before, PipeOp2N(op1, proc0, …, opN, proc(N-1)), after)`.
  * `license.go:30-49`  the licence is read at subscription time and selects the composition.

  Every operator application `source.SubscribeWithContext(ctx, NewObserverWithContext(..))` puts a
  subscriber in front of the operator's callbacks (observable.go:303, subscriber.go:176-241): a
  gate that closes at the first terminal it lets through and — once the subscribe functions have
  returned, i.e. for a *hot* source — as soon as the subscriber downstream of it has closed
  (each wrapper returns its upstream `Unsubscribe` as teardown). `Chain` below is that structure:
  a list of machines, one gate each, plus the gate of the final subscriber (the sink).

  The context key of the plugin is an unexported type: no code outside the package can read it.
  It is modelled by the reserved marker `ckKey`, which the canonical rendering erases.

  Core Lean only (linked into the driver).
-/
import RoModel.Machine
namespace Ro.Prom
open Ro

variable {α : Type}

/-! ### the private context key -/

/-- reserved marker standing for the unexported key `checkpointCtx{}` (operator.go:161) -/
def ckKey : Nat := 1000003

/-- `context.WithValue(ctx, checkpointCtx{}, t)` -/
def stamp (c : Ctx) : Ctx := c.tag ckKey
/-- `_, ok := ctx.Value(checkpointCtx{}).(int64)` -/
def stamped (c : Ctx) : Bool := c.marks.contains ckKey
/-- what code outside the package can see of a context -/
def eraseCtx (c : Ctx) : Ctx := { c with marks := c.marks.filter (· != ckKey) }

def eraseN : Notif α → Notif α
  | .next c v => .next (eraseCtx c) v
  | .error c e => .error (eraseCtx c) e
  | .complete c => .complete (eraseCtx c)

def eraseL (l : List (Notif α)) : List (Notif α) := l.map eraseN

/-- number of values in a trace -/
def countNext : List (Notif α) → Nat
  | [] => 0
  | .next _ _ :: xs => countNext xs + 1
  | _ :: xs => countNext xs

def countError : List (Notif α) → Nat
  | [] => 0
  | .error _ _ :: xs => countError xs + 1
  | _ :: xs => countError xs

def countComplete : List (Notif α) → Nat
  | [] => 0
  | .complete _ :: xs => countComplete xs + 1
  | _ :: xs => countComplete xs

/-- values whose context is not nil -/
def countNonNilNext : List (Notif α) → Nat
  | [] => 0
  | .next c _ :: xs => countNonNilNext xs + (if c.isNil then 0 else 1)
  | _ :: xs => countNonNilNext xs

/-- values whose context is not nil and carries a checkpoint -/
def countStampedNext : List (Notif α) → Nat
  | [] => 0
  | .next c _ :: xs => countStampedNext xs + (if !c.isNil && stamped c then 1 else 0)
  | _ :: xs => countStampedNext xs

/-! ### the counting / timing operators -/

/-- the error a destination receives when `context.WithValue(nil, …)` panics inside an
    observer callback: `newObserverError("cannot create context from nil parent")` -/
def errNilWithValue : Err := .observer (.panicVal 901)
/-- … and when `ctx.Value(…)` is called on the nil interface (nil pointer dereference) -/
def errNilValue : Err := .observer (.panicVal 902)

/-- `observeBeforePipe` (operator.go:172-204). State: (notifications-in, lag observations).
    The counter is incremented first (`:180`), then the context is stamped (`:190`, panics on a
    nil context), the value forwarded (`:195`) and the lag observed (`:198`). -/
def beforeM : Machine (Nat × Nat) α α where
  init := (0, 0)
  onNext s c v :=
    if c.isNil then ((s.1 + 1, s.2), [.error c errNilWithValue])
    else ((s.1 + 1, s.2 + 1), [.next (stamp c) v])
  onError := fwdE
  onComplete := fwdC

/-- `observeOperatorProcessingTime` (operator.go:207-240). State: observations made.
    `ctx.Value` (`:222`, panics on a nil context); observe iff a checkpoint is present (`:225`);
    re-stamp (`:229`); forward (`:230`). -/
def procM : Machine Nat α α where
  init := 0
  onNext s c v :=
    if c.isNil then (s, [.error c errNilValue])
    else ((if stamped c then s + 1 else s), [.next (stamp c) v])
  onError := fwdE
  onComplete := fwdC

/-- `observeAfterPipe` (operator.go:246-269). State: (subscriptions, notifications-out). The
    subscription counter is incremented by the subscribe function itself (`:250`). -/
def afterM : Machine (Nat × Nat) α α where
  init := (0, 0)
  onSubscribe s _ := ((s.1 + 1, s.2), [])
  onNext s c v := ((s.1, s.2 + 1), [.next c v])
  onError := fwdE
  onComplete := fwdC

/-- `IncCounterOnNext` (operator.go:31-53), licence on -/
def cntNextM : Machine Nat α α where
  init := 0
  onNext s c v := (s + 1, [.next c v])
  onError := fwdE
  onComplete := fwdC

/-- `IncCounterOnError` (operator.go:60-82) -/
def cntErrorM : Machine Nat α α where
  init := 0
  onNext s c v := (s, [.next c v])
  onError s c e := (s + 1, [.error c e])
  onComplete := fwdC

/-- `IncCounterOnComplete` (operator.go:89-111) -/
def cntCompleteM : Machine Nat α α where
  init := 0
  onNext s c v := (s, [.next c v])
  onError := fwdE
  onComplete s c := (s + 1, [.complete c])

/-- `IncCounterOnSubscription` (operator.go:118-132): a pass-through that hands its own
    destination upstream; counts in the subscribe function -/
def cntSubM : Machine Nat α α where
  init := 0
  onSubscribe s _ := (s + 1, [])
  onNext s c v := (s, [.next c v])
  onError := fwdE
  onComplete := fwdC

/-- `ObserveNextLag` (operator.go:142-166): one observation per value, after forwarding -/
def lagM : Machine Nat α α where
  init := 0
  onNext s c v := (s + 1, [.next c v])
  onError := fwdE
  onComplete := fwdC

/-- a stand-alone operator with the licence off: `return source` (operator.go:33) -/
def offM : Machine Unit α α where
  init := ()
  onNext s c v := (s, [.next c v])
  onError := fwdE
  onComplete := fwdC

/-! ### chains: one gate per stage -/

/-- a machine with its state type packed, plus how to read the abstract counters it holds -/
structure AnyM (α : Type) : Type 1 where
  σ : Type
  m : Machine σ α α
  /-- the abstract counters this stage holds (`[]` for operators that are not instrumentation) -/
  tally : σ → List Nat := fun _ => []
  /-- (ghost, specification) what those counters have to be, as a function of the notifications
      the stage's gate has let through and of the number of times its subscribe function has run;
      `[]` for operators that are not instrumentation -/
  spec : List (Notif α) → Nat → List Nat := fun _ _ => []

/-- a user operator -/
def AnyM.of {σ : Type} (m : Machine σ α α) : AnyM α := { σ := σ, m := m }

/-- `observeBeforePipe`: [notifications-in, lag observations] -/
def AnyM.before : AnyM α :=
  { σ := Nat × Nat, m := beforeM, tally := fun s => [s.1, s.2], spec := fun l _ => [countNext l, countNonNilNext l] }
/-- `observeOperatorProcessingTime`: [observations] -/
def AnyM.proc : AnyM α :=
  { σ := Nat, m := procM, tally := fun s => [s], spec := fun l _ => [countStampedNext l] }
/-- `observeAfterPipe`: [subscriptions, notifications-out] -/
def AnyM.after : AnyM α :=
  { σ := Nat × Nat, m := afterM, tally := fun s => [s.1, s.2], spec := fun l k => [k, countNext l] }
def AnyM.cntNext : AnyM α := { σ := Nat, m := cntNextM, tally := fun s => [s], spec := fun l _ => [countNext l] }
def AnyM.cntError : AnyM α := { σ := Nat, m := cntErrorM, tally := fun s => [s], spec := fun l _ => [countError l] }
def AnyM.cntComplete : AnyM α := { σ := Nat, m := cntCompleteM, tally := fun s => [s], spec := fun l _ => [countComplete l] }
def AnyM.lag : AnyM α := { σ := Nat, m := lagM, tally := fun s => [s], spec := fun l _ => [countNext l] }
/-- `IncCounterOnSubscription`: counts the runs of its subscribe function -/
def AnyM.cntSub : AnyM α := { σ := Nat, m := cntSubM, tally := fun s => [s], spec := fun _ k => [k] }
/-- a stand-alone operator with the licence off -/
def AnyM.off : AnyM α := { σ := Unit, m := offM }

/-- dynamic part of one stage: the machine state, the gate of the subscriber in front of it, and
    (ghost) the notifications that gate has let through -/
structure StageSt (σ α : Type) where
  st : σ
  gate : Bool := true
  seen : List (Notif α) := []
  /-- (ghost) times the stage's subscribe function has run -/
  subd : Nat := 0

/-- the final subscriber (the one wrapping the user's observer) -/
structure SinkSt where
  gate : Bool := true

/-- configuration of a chain `source |> m₁ |> … |> mₙ |> sink` -/
def Cfg : List (AnyM α) → Type
  | [] => SinkSt
  | a :: rest => StageSt a.σ α × Cfg rest

def initCfg : (ms : List (AnyM α)) → Cfg ms
  | [] => ({} : SinkSt)
  | a :: rest => ({ st := a.m.init }, initCfg rest)

/-- is the gate at the head of the chain open? -/
def headOpen : (ms : List (AnyM α)) → Cfg ms → Bool
  | [], c => SinkSt.gate c
  | _ :: _, c => c.1.gate

/-- are all gates open? -/
def allOpen : (ms : List (AnyM α)) → Cfg ms → Bool
  | [], c => SinkSt.gate c
  | _ :: rest, c => c.1.gate && allOpen rest c.2

/-- feed a list of notifications one after the other, collecting what reaches the user -/
def feedAll {C : Type} (f : C → Notif α → C × List (Notif α)) (c : C) : List (Notif α) → C × List (Notif α)
  | [] => (c, [])
  | n :: ns =>
    let r := f c n
    let q := feedAll f r.1 ns
    (q.1, r.2 ++ q.2)

/-- One notification arrives at the head of the chain. Depth first, as the Go calls nest:
    the gate, the machine's reaction, each emission pushed into the rest of the chain. `hot`:
    teardowns are registered, so a gate closes as soon as the gate after it has closed. -/
def push (hot : Bool) : (ms : List (AnyM α)) → Cfg ms → Notif α → Cfg ms × List (Notif α)
  | [], c, n =>
    if SinkSt.gate c then (({ gate := !n.isTerminal } : SinkSt), [n]) else (c, [])
  | a :: rest, c, n =>
    if c.1.gate then
      let r := a.m.step c.1.st n
      let d := feedAll (push hot rest) c.2 r.2
      (({ c.1 with st := r.1, gate := !n.isTerminal && !(hot && !headOpen rest d.1), seen := c.1.seen ++ [n] }, d.1), d.2)
    else (c, [])

/-- external `Unsubscribe` on a hot subscription: every gate closes -/
def closeAll : (ms : List (AnyM α)) → Cfg ms → Cfg ms
  | [], _ => ({ gate := false } : SinkSt)
  | _ :: rest, c => ({ c.1 with gate := false }, closeAll rest c.2)

/-- the subscribe functions have returned: the teardowns get registered, and a teardown added
    to an already closed subscription runs at once (subscription.go `Add`) -/
def settle : (ms : List (AnyM α)) → Cfg ms → Cfg ms
  | [], c => c
  | _ :: rest, c =>
    let r := settle rest c.2
    ({ c.1 with gate := c.1.gate && headOpen rest r }, r)

structure SubPhase (ms : List (AnyM α)) where
  cfg : Cfg ms
  out : List (Notif α)
  /-- did the subscription reach the upstream of this chain (the source)? -/
  reached : Bool

/-- The subscription phase. The last operator's subscribe function runs first: its own
    emissions (`onSubscribe`, straight to its destination), then — unless it is one of the
    degenerate `Empty()` cases — the subscription of its upstream. Nothing is registered yet. -/
def subscribePhase (sub : Ctx) : (ms : List (AnyM α)) → Cfg ms → SubPhase ms
  | [], c => { cfg := c, out := [], reached := true }
  | a :: rest, c =>
    let below := subscribePhase sub rest c.2
    if below.reached then
      let r := a.m.onSubscribe c.1.st sub
      let d := feedAll (push false rest) below.cfg r.2
      { cfg := ({ c.1 with st := r.1, subd := c.1.subd + 1 }, d.1), out := below.out ++ d.2, reached := a.m.subscribes }
    else { cfg := (c.1, below.cfg), out := below.out, reached := false }

/-- one subscription of a chain, played to the end -/
structure Run (ms : List (AnyM α)) where
  cfg : Cfg ms
  /-- what the user's observer is delivered -/
  out : List (Notif α)
  /-- times the source was subscribed -/
  srcSubs : Nat
  /-- times the source's teardown ran -/
  rel : Nat

/-- Subscribe to `source |> ms` with context `sub` and play the raw script `raw`:
    inside `Subscribe` for a synchronous source, after it for a hot one; `cut = some k`: the
    user calls `Unsubscribe` before the k-th notification (hot only). -/
def run (hot : Bool) (sub : Ctx) (ms : List (AnyM α)) (raw : List (Notif α)) (cut : Option Nat) : Run ms :=
  let s0 := subscribePhase sub ms (initCfg ms)
  if !s0.reached then { cfg := s0.cfg, out := s0.out, srcSubs := 0, rel := 0 }
  else if !hot then
    let r := feedAll (push false ms) s0.cfg raw
    let c := settle ms r.1
    { cfg := c, out := s0.out ++ r.2, srcSubs := 1, rel := if allOpen ms c then 0 else 1 }
  else
    let c1 := settle ms s0.cfg
    match cut with
    | none =>
      let r := feedAll (push true ms) c1 raw
      { cfg := r.1, out := s0.out ++ r.2, srcSubs := 1, rel := if allOpen ms r.1 then 0 else 1 }
    | some k =>
      let r1 := feedAll (push true ms) c1 (raw.take k)
      let r2 := feedAll (push true ms) (closeAll ms r1.1) (raw.drop k)
      { cfg := r2.1, out := s0.out ++ r1.2 ++ r2.2, srcSubs := 1, rel := 1 }

/-! ### the two compositions of `PipeN` -/

/-- `op1, proc0, op2, proc1, …, opN, proc(N-1), after` (pipe.go:80-86 inside pipe.go:48-57) -/
def tailI : List (AnyM α) → List (AnyM α)
  | [] => [AnyM.after]
  | m :: ms => m :: AnyM.proc :: tailI ms

/-- the instrumented composition (licence on): `before, op1, proc0, …, opN, proc(N-1), after` -/
def instrument (ms : List (AnyM α)) : List (AnyM α) := AnyM.before :: tailI ms

/-- `checkLicenseAndPipe` (license.go:38-47): the composition that is subscribed -/
def pipe (licence : Bool) (ms : List (AnyM α)) : List (AnyM α) := if licence then instrument ms else ms

/-! ### reading the counters off a configuration -/

structure Counters where
  subs : Nat := 0
  inN : Nat := 0
  outN : Nat := 0
  lag : Nat := 0
  proc : List Nat := []
deriving DecidableEq, Repr

/-- counters of `tailI ms`: the processing-time observations by operator index, the state of
    `afterM` -/
def tailCounters : (ms : List (AnyM α)) → Cfg (tailI ms) → List Nat × (Nat × Nat)
  | [], c => ([], c.1.st)
  | _ :: ms, c =>
    let t := tailCounters ms c.2.2
    ((c.2.1.st : Nat) :: t.1, t.2)

def counters (ms : List (AnyM α)) (c : Cfg (instrument ms)) : Counters :=
  let t := tailCounters ms c.2
  { subs := t.2.1, inN := (c.1.st : Nat × Nat).1, outN := t.2.2, lag := (c.1.st : Nat × Nat).2, proc := t.1 }

/-- the counters held by the stages of a plain chain, in chain order -/
def tallies : (ms : List (AnyM α)) → Cfg ms → List Nat
  | [], _ => []
  | a :: ms, c => a.tally c.1.st ++ tallies ms c.2

/-- the counters held by the user's stages inside the instrumented composition -/
def tailTallies : (ms : List (AnyM α)) → Cfg (tailI ms) → List Nat
  | [], _ => []
  | a :: ms, c => a.tally c.1.st ++ tailTallies ms c.2.2

/-- what each processing-time observer's gate let through, by operator index -/
def tailSeen : (ms : List (AnyM α)) → Cfg (tailI ms) → List (List (Notif α))
  | [], _ => []
  | _ :: ms, c => c.2.1.seen :: tailSeen ms c.2.2

/-- what the gate of the last stage of a chain let through -/
def lastSeen : (ms : List (AnyM α)) → Cfg ms → List (Notif α)
  | [], _ => []
  | [_], c => c.1.seen
  | _ :: b :: rest, c => lastSeen (b :: rest) c.2

/-- how often each stage's subscribe function has run -/
def subds : (ms : List (AnyM α)) → Cfg ms → List Nat
  | [], _ => []
  | _ :: rest, c => c.1.subd :: subds rest c.2

def Counters.add (a b : Counters) : Counters :=
  { subs := a.subs + b.subs, inN := a.inN + b.inN, outN := a.outN + b.outN, lag := a.lag + b.lag,
    proc := if a.proc.isEmpty then b.proc else if b.proc.isEmpty then a.proc else List.zipWith (· + ·) a.proc b.proc }

/-- Several subscriptions of the same pipeline (sequential or concurrent): every subscription
    applies the operators afresh (license.go:38-46 runs inside the subscribe function), so the
    subscriptions share nothing but the collector, whose counters are atomic adders. -/
def totals (hot : Bool) (sub : Ctx) (ms : List (AnyM α)) (scripts : List (List (Notif α) × Option Nat)) : Counters :=
  scripts.foldl (fun acc s => acc.add (counters ms (run hot sub (instrument ms) s.1 s.2).cfg))
    { proc := ms.map (fun _ => 0) }

end Ro.Prom

/-
  RoModel.ObsPartial — the partial observers of observer.go:204-263: `OnNext`, `OnError`, `OnComplete` (and their
  WithContext forms) and `NoopObserver` are `NewObserver` / `NewObserverWithContext` applied to the user's one callback
  and two callbacks that do nothing — NOT nil callbacks: a terminal is consumed silently (it closes the observer, nothing
  reaches the dropped-notification hook, later notifications are refused), and a panic of the one callback is handed to the
  empty error callback (it vanishes; the unhandled-error hook stays silent).

  `run k fault script`: the run of `ObsNil` with all three callbacks present; what the USER's callback saw is the trace
  restricted to the notifications of its kind. Only `OnNext` / `full` have a callback that can panic on a value.
  Core Lean only.
-/
import RoModel.ObsNil
namespace Ro.ObsPartial
open Ro

inductive Ctor
  | onNext | onError | onComplete | noop | full
deriving DecidableEq, Repr

/-- which notifications the user's own callback records -/
def sees : Ctor → Notif Int → Bool
  | .onNext, .next _ _ => true
  | .onError, .error _ _ => true
  | .onComplete, .complete _ => true
  | .full, _ => true
  | _, _ => false

def noFault : Nat → Option Err := fun _ => none

structure Res where
  seen : List (Notif Int)
  dropped : List (Notif Int)
  unhandled : List Err
deriving DecidableEq, Repr

def allCbs : ObsNil.Cfg := ⟨true, true, true⟩

/-- only the value callback of `OnNext` / of a full observer is user code that can panic on a value -/
def faultOf : Ctor → (Nat → Option Err) → (Nat → Option Err)
  | .onNext, f | .full, f => f
  | _, _ => noFault

def run (k : Ctor) (fault : Nat → Option Err) (script : List (Notif Int)) : Res :=
  let r := ObsNil.run allCbs (faultOf k fault) script
  ⟨r.trace.filter (sees k), r.dropped, r.unhandled⟩

end Ro.ObsPartial

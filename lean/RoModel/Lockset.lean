/-
  RoModel.Lockset — the abstract machine of property C13 (core Lean only).

  Any number of threads (`T` is any type with decidable equality). Each thread is idle or *at* one
  access `a : A`; `acc a` says which location the access touches, whether it writes, and how it
  synchronises: `atomic`, `under ls` (the thread must hold every lock of `ls` for as long as it is at
  the access) or `plain`. Locks are acquired only when nobody holds them and released by their
  holder. A schedule is any list of actions; an action that is not enabled is not a step.

  A *data race* is a reachable state in which two different threads are simultaneously at
  conflicting accesses (same location, at least one write) that are not both atomic — the Go memory
  model's definition, with "simultaneously at" standing for "not ordered by happens-before".

  The structural happens-before rules (`Orderings`) are orderings the machine is *told about*:
  each is a relation on accesses with a name, and `Respects o s` says that state `s` has no two
  different threads at related accesses. They are hypotheses of the theorem (RoProofs.Lockset), not
  consequences of the step relation, and are listed in the trusted base.
-/
namespace Ro.Lockset

inductive Sync (L : Type)
  | atomic
  | under (locks : List L)
  | plain

structure Acc (Loc L : Type) where
  loc : Loc
  write : Bool
  sync : Sync L

def Acc.locks {Loc L : Type} (a : Acc Loc L) : List L :=
  match a.sync with
  | .under ls => ls
  | _ => []

def Acc.isAtomic {Loc L : Type} (a : Acc Loc L) : Prop :=
  match a.sync with
  | .atomic => True
  | _ => False

/-- same location, at least one write -/
def Conflict {Loc L : Type} (a b : Acc Loc L) : Prop := a.loc = b.loc ∧ (a.write = true ∨ b.write = true)

structure State (T L A : Type) where
  /-- the access thread `t` is performing right now -/
  cur : T → Option A
  /-- thread `t` holds lock `l` -/
  held : T → L → Prop

def State.init {T L A : Type} : State T L A := { cur := fun _ => none, held := fun _ _ => False }

inductive Action (T L A : Type)
  | acquire (t : T) (l : L)
  | release (t : T) (l : L)
  | enter (t : T) (a : A)
  | leave (t : T)

section
variable {T L A Loc : Type} [DecidableEq T] (acc : A → Acc Loc L)

/-- one step of the machine -/
inductive Step : State T L A → Action T L A → State T L A → Prop
  /-- a lock is acquired only when free -/
  | acquire (s : State T L A) (t : T) (l : L) (free : ∀ u, ¬ s.held u l) :
      Step s (.acquire t l) { s with held := fun t' l' => (t' = t ∧ l' = l) ∨ s.held t' l' }
  /-- released by its holder, and not while at an access that needs it -/
  | release (s : State T L A) (t : T) (l : L) (own : s.held t l)
      (notNeeded : ∀ a, s.cur t = some a → ¬ l ∈ (acc a).locks) :
      Step s (.release t l) { s with held := fun t' l' => s.held t' l' ∧ ¬ (t' = t ∧ l' = l) }
  /-- an `under ls` access is entered only while holding every lock of `ls` -/
  | enter (s : State T L A) (t : T) (a : A) (idle : s.cur t = none)
      (holds : ∀ l, l ∈ (acc a).locks → s.held t l) :
      Step s (.enter t a) { s with cur := fun t' => if t' = t then some a else s.cur t' }
  | leave (s : State T L A) (t : T) :
      Step s (.leave t) { s with cur := fun t' => if t' = t then none else s.cur t' }

/-- running a schedule -/
inductive Run : State T L A → List (Action T L A) → State T L A → Prop
  | nil (s : State T L A) : Run s [] s
  | cons {s s' s'' : State T L A} {x : Action T L A} {xs : List (Action T L A)} :
      Step acc s x s' → Run s' xs s'' → Run s (x :: xs) s''

/-- the invariant: every lock is held by at most one thread, and a thread at an `under ls` access
    holds every lock of `ls` -/
def Inv (s : State T L A) : Prop :=
  (∀ t u l, s.held t l → s.held u l → t = u) ∧
  (∀ t a, s.cur t = some a → ∀ l, l ∈ (acc a).locks → s.held t l)

/-- two different threads simultaneously at conflicting accesses that are not both atomic -/
def Race (s : State T L A) : Prop :=
  ∃ t u a b, t ≠ u ∧ s.cur t = some a ∧ s.cur u = some b ∧ Conflict (acc a) (acc b) ∧
    ¬ ((acc a).isAtomic ∧ (acc b).isAtomic)

end

/-- the named structural orderings the machine is told about -/
structure Orderings (A : Type) where
  /-- one of the two is performed before the location is reachable from any other context -/
  initBeforePublication : A → A → Prop
  /-- both belong to the subscribe body / the teardown it returns (body first, teardown once, afterwards) -/
  subscribeBodyBeforeTeardown : A → A → Prop
  /-- both belong to one sequential context: the callbacks of one sequential source -/
  sameSequentialSource : A → A → Prop
  /-- one belongs to the callbacks of a subscription the body waits for, the other to the body chain -/
  awaitedSourceBeforeContinuation : A → A → Prop

def Orderings.ordered {A : Type} (o : Orderings A) (a b : A) : Prop :=
  o.initBeforePublication a b ∨ o.subscribeBodyBeforeTeardown a b ∨ o.sameSequentialSource a b ∨
    o.awaitedSourceBeforeContinuation a b

/-- "these two accesses are never simultaneously enabled": no two different threads are at ordered accesses -/
def Respects {T L A : Type} (o : Orderings A) (s : State T L A) : Prop :=
  ∀ t u a b, t ≠ u → s.cur t = some a → s.cur u = some b → ¬ o.ordered a b

end Ro.Lockset
